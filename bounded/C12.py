"""Bounded stand-in for C12: harness-defined symbolic functions / predicates of arity 1..3, every positional/keyword split,
every subset of arguments being variables, domains of <=3 ints; oracle = filtering the domain product with the concrete call."""
import itertools
from dataclasses import dataclass
from common import args, Report, guarded

from krrood.entity_query_language.entity import entity, let, set_of, and_
from krrood.entity_query_language.quantify_entity import an
from krrood.entity_query_language.predicate import symbolic_function, Predicate, HasType
from krrood.entity_query_language.symbolic import Variable, SymbolicExpression
from krrood.entity_query_language.symbol_graph import SymbolGraph

a = args()
rep = Report("C12", "symbolic functions and Predicate subclasses of arity 1..3 x every positional/keyword split x every non-empty "
             "and empty subset of variable arguments x domains {0,1,2}/{1,2}; results and call log vs concrete filtering", a.out)
CALLS = []


def f1(p0):
    CALLS.append(("f1", p0))
    return p0 >= 1


def f2(p0, p1):
    CALLS.append(("f2", p0, p1))
    return p0 > p1


def f3(p0, p1, p2=1):
    CALLS.append(("f3", p0, p1, p2))
    return p0 + p2 > p1


@dataclass(eq=False)
class G2(Predicate):
    p0: int
    p1: int

    def __call__(self):
        CALLS.append(("G2", self.p0, self.p1))
        return self.p0 > self.p1


@dataclass(eq=False)
class G3(Predicate):
    p0: int
    p1: int
    p2: int = 1

    def __call__(self):
        CALLS.append(("G3", self.p0, self.p1, self.p2))
        return self.p0 + self.p2 > self.p1


FUNCS = [("f1", f1, 1, 1), ("f2", f2, 2, 2), ("f3", f3, 3, 2), ("G2", G2, 2, 2), ("G3", G3, 3, 2)]
DOMS = [[0, 1, 2], [1, 2], [2, 0]]
CONST = [1, 0, 2]

for name, fn, nmax, required in FUNCS:
    sym = symbolic_function(fn) if not isinstance(fn, type) else fn
    params = ["p0", "p1", "p2"][:nmax]
    for n in range(required, nmax + 1):
        for p in range(n + 1):                       # p positional, the rest by keyword
            for var_mask in itertools.product([False, True], repeat=n):
                del CALLS[:]
                doms = [DOMS[i] for i in range(n)]
                variables = [let(int, list(doms[i])) if var_mask[i] else None for i in range(n)]
                vals = [variables[i] if var_mask[i] else CONST[i] for i in range(n)]
                shape = {"callable": name, "n": n, "positional": p, "variables": [i for i in range(n) if var_mask[i]]}
                key = (name, n, p, var_mask)
                sig_shape = f"{'predicate' if isinstance(fn, type) else 'function'}::{'positional' if p else 'keyword'}::{'symbolic' if any(var_mask) else 'concrete'}"
                st, r = guarded(lambda: sym(*vals[:p], **{params[i]: vals[i] for i in range(p, n)}))
                rep.case(key, sample=shape)
                if st == "exc":
                    rep.fail(f"construct::{sig_shape}", f"{shape}: raised {type(r).__name__}: {r}", shape)
                    continue
                if not any(var_mask):
                    # concrete call: runs immediately, plain result
                    if isinstance(fn, type):
                        ok = isinstance(r, fn) and not CALLS and r() == fn.__call__(r)
                    else:
                        del CALLS[:]
                        want = fn(*vals)
                        ok = r == want and type(r) is bool
                    if not ok:
                        rep.fail(f"concrete::{sig_shape}", f"{shape}: returned {r!r}", shape)
                    continue
                if not isinstance(r, SymbolicExpression):
                    rep.fail(f"not-deferred::{sig_shape}", f"{shape}: returned {r!r} (body ran at construction: {CALLS})", shape)
                    continue
                if CALLS:
                    rep.fail(f"ran-at-construction::{sig_shape}", f"{shape}: calls {CALLS}", shape)
                    continue
                vs = [v for v in variables if v is not None]
                st, rows = guarded(lambda: list(an(set_of(vs, r)).evaluate()))
                if st == "exc":
                    rep.fail(f"evaluate::{sig_shape}", f"{shape}: evaluation raised {type(rows).__name__}: {rows}", shape)
                    continue
                got = sorted(tuple(row[v] for v in vs) for row in rows)
                evaluated_calls = list(CALLS)
                del CALLS[:]
                want = []
                want_calls = []
                for combo in itertools.product(*[doms[i] for i in range(n) if var_mask[i]]):
                    it = iter(combo)
                    full = [next(it) if var_mask[i] else CONST[i] for i in range(n)]
                    res = fn(*full)() if isinstance(fn, type) else fn(*full)
                    want_calls.append(CALLS[-1])
                    if res:
                        want.append(tuple(combo))
                if got != sorted(want):
                    rep.fail(f"results::{sig_shape}", f"{shape}: got {got} want {sorted(want)}", shape)
                elif sorted(evaluated_calls) != sorted(want_calls):
                    rep.fail(f"invocations::{sig_shape}", f"{shape}: invoked {sorted(evaluated_calls)} want once per binding {sorted(want_calls)}", shape)
# ---- arguments that are not plain variables: attribute / index mappings of a variable stand for values of the query too
@dataclass(eq=False)
class Box:
    v: int
    vs: list


boxes = [Box(0, [0, 5]), Box(1, [1, 0]), Box(2, [2, 9])]
for name, fn, nmax, required in FUNCS[1:2] + FUNCS[3:4]:
    sym = symbolic_function(fn) if not isinstance(fn, type) else fn
    for kind in ("attribute", "index"):
        for pos in (True, False):
            del CALLS[:]
            b = let(Box, boxes)
            arg = b.v if kind == "attribute" else b.vs[0]
            shape = {"callable": name, "argument": kind, "positional": pos}
            st, r = guarded(lambda: sym(arg, 1) if pos else sym(p0=arg, p1=1))
            rep.case(("argkind", name, kind, pos), sample=shape)
            sig = f"{'predicate' if isinstance(fn, type) else 'function'}::{kind}-argument::{'positional' if pos else 'keyword'}"
            if st == "exc" or not isinstance(r, SymbolicExpression) or CALLS:
                rep.fail(f"not-deferred::{sig}", f"{shape}: {st} {r!r} calls={CALLS}", shape)
                continue
            st, rows = guarded(lambda: [x.v for x in an(entity(b, r)).evaluate()])
            if st == "exc" or sorted(rows) != [2]:
                rep.fail(f"results::{sig}", f"{shape}: got {rows!r}, want [2]", shape)


# ---- two arguments derived from the SAME still-unbound variable (the predicate is the first condition that binds it)
boxes2 = [Box(3, [1, 5]), Box(1, [2, 0]), Box(2, [2, 9]), Box(7, [0, 0])]
for name, fn, nmax, required in FUNCS[1:2] + FUNCS[3:4]:
    sym = symbolic_function(fn) if not isinstance(fn, type) else fn
    for label, mk, conc in (("f(b.v, b.vs[0])", lambda b: sym(b.v, b.vs[0]), lambda bx: bx.v > bx.vs[0]), ("f(b.vs[1], b.v)", lambda b: sym(b.vs[1], b.v), lambda bx: bx.vs[1] > bx.v),
                            ("f(b.vs[0], b.vs[1])", lambda b: sym(b.vs[0], b.vs[1]), lambda bx: bx.vs[0] > bx.vs[1])):
        del CALLS[:]
        b = let(Box, boxes2)
        st, rows = guarded(lambda: [x.v for x in an(entity(b, mk(b))).evaluate()])
        want = [bx.v for bx in boxes2 if conc(bx)]
        rep.case(("same-variable-arguments", name, label), sample={"callable": name, "call": label})
        sig = f"{'predicate' if isinstance(fn, type) else 'function'}::arguments-derived-from-one-unbound-variable"
        if st == "exc" or rows != want:
            rep.fail(f"results::{sig}", f"{name}: {label} over 4 boxes: got {rows!r}, the concrete calls give {want}", {"call": label})
        elif len(CALLS) != len(boxes2):
            rep.fail(f"invocations::{sig}", f"{name}: {label}: the body ran {len(CALLS)} times for {len(boxes2)} bindings", {"call": label})


# ---- one predicate class used twice in a query with the same values bound to different parameters
@dataclass(eq=False)
class InRange(Predicate):
    is_expensive = True
    value: int
    low: int = 0
    high: int = 100

    def __call__(self):
        CALLS.append(("InRange", self.value, self.low, self.high))
        return self.low <= self.value <= self.high


def _ir(value, low=0, high=100):
    return low <= value <= high


TWO_USES = [("InRange(x, 5) and InRange(x, high=5)", lambda x: and_(InRange(x, 5), InRange(x, high=5)), lambda v: _ir(v, 5) and _ir(v, high=5)),
            ("InRange(x, high=5) and InRange(x, 5)", lambda x: and_(InRange(x, high=5), InRange(x, 5)), lambda v: _ir(v, high=5) and _ir(v, 5)),
            ("InRange(x, 5, 50) and InRange(x, 50, 5)", lambda x: and_(InRange(x, 5, 50), InRange(x, 50, 5)), lambda v: _ir(v, 5, 50) and _ir(v, 50, 5)),
            ("InRange(5, x) and InRange(x, 5)", lambda x: and_(InRange(5, x), InRange(x, 5)), lambda v: _ir(5, v) and _ir(v, 5)),
            ("InRange(x, low=7) and InRange(x, high=7)", lambda x: and_(InRange(x, low=7), InRange(x, high=7)), lambda v: _ir(v, low=7) and _ir(v, high=7))]
for label, uses, concrete in TWO_USES:
    for _round in range(2):          # twice: what the first evaluation remembered must not leak into the second
        x = let(int, [1, 5, 7, 50])
        st, r = guarded(lambda: sorted(an(entity(x, uses(x))).evaluate()))
        want = [v for v in [1, 5, 7, 50] if concrete(v)]
        rep.case(("two-uses", label, _round), sample={"condition": label})
        if st == "exc" or r != want:
            rep.fail("results::predicate::two-uses-of-one-class", f"{label} over [1, 5, 7, 50]: got {r!r}, the concrete calls give {want}", {"condition": label})
# ---- two positional defaults followed by a keyword-only parameter; equal-but-different constants (0 / False, 1 / 1.0 / True)
def within(value, low=0, high=10, *, inclusive=True):
    CALLS.append(("within", value, low, high, inclusive))
    return (low <= value <= high) if inclusive else (low < value < high)


def tell_apart(value, a, b):
    CALLS.append(("tell_apart", value, repr(a), repr(b)))
    return (type(a).__name__, type(b).__name__, value >= 0) == (WANT_TYPES[0], WANT_TYPES[1], True)


WANT_TYPES = ["int", "bool"]
s_within, s_tell = symbolic_function(within), symbolic_function(tell_apart)
for label, mk, conc in (("within(x)", lambda x: s_within(x), lambda v: within(v)), ("within(x, 5)", lambda x: s_within(x, 5), lambda v: within(v, 5)),
                        ("within(x, high=3)", lambda x: s_within(x, high=3), lambda v: within(v, high=3)),
                        ("within(x, inclusive=False)", lambda x: s_within(x, inclusive=False), lambda v: within(v, inclusive=False)),
                        ("within(x, 0, 10, inclusive=False)", lambda x: s_within(x, 0, 10, inclusive=False), lambda v: within(v, 0, 10, inclusive=False))):
    x = let(int, [-1, 0, 3, 10, 11])
    st, r = guarded(lambda: sorted(an(entity(x, mk(x))).evaluate()))
    want = [v for v in [-1, 0, 3, 10, 11] if conc(v)]
    rep.case(("defaults", label), sample={"call": label})
    if st == "exc" or r != want:
        rep.fail("results::function::defaults-and-keyword-only", f"{label} over [-1, 0, 3, 10, 11]: got {r!r}, the concrete calls give {want}", {"call": label})
for pair in ((0, False), (False, 0), (1, True), (1.0, 1), (1, 1.0), (True, 1)):
    WANT_TYPES[:] = [type(pair[0]).__name__, type(pair[1]).__name__]
    x = let(int, [0, 1])
    st, r = guarded(lambda: sorted(an(entity(x, s_tell(x, pair[0], pair[1]))).evaluate()))
    rep.case(("equal-constants", repr(pair)), sample={"constants": repr(pair)})
    if st == "exc" or r != [0, 1]:
        rep.fail("results::function::equal-but-different-constants", f"tell_apart(x, {pair[0]!r}, {pair[1]!r}): the body did not receive exactly these two constants: {r!r} (calls {CALLS[-2:]})", {"constants": repr(pair)})
# ---- a keyword written after a left-out default; and two callables with the same qualified name
def f4(p0, p1=0, p2=10):
    CALLS.append(("f4", p0, p1, p2))
    return p1 <= p0 < p2


def make_same_name(kind):
    if kind == 2:
        def helper(a, b):
            CALLS.append(("helper2", a, b))
            return a > b
    else:
        def helper(x, y, z):
            CALLS.append(("helper3", x, y, z))
            return x + y > z
    return helper


sf4 = symbolic_function(f4)
for kw in ({"p2": 2}, {"p1": 1}, {"p1": 1, "p2": 2}, {}):
    for positional in (True, False):
        del CALLS[:]
        x = let(int, [0, 1, 2, 3])
        st, r = guarded(lambda: sf4(x, **kw) if positional else sf4(p0=x, **kw))
        rep.case(("f4", tuple(kw), positional))
        sig = f"function::default-skipped::{'positional' if positional else 'keyword'}"
        if st == "exc" or not isinstance(r, SymbolicExpression) or CALLS:
            rep.fail(sig, f"f4(x, **{kw}): {st} {r!r} calls={CALLS}", {"kw": kw})
            continue
        st, rows = guarded(lambda: sorted(an(entity(x, r)).evaluate()))
        want = [v for v in [0, 1, 2, 3] if f4(v, **kw)]
        if st == "exc" or rows != want:
            rep.fail(sig, f"f4(x, **{kw}) over 0..3: got {rows!r} want {want}", {"kw": kw})
        st, r2 = guarded(lambda: sf4(1, **kw))
        if st == "exc" or r2 != f4(1, **kw):
            rep.fail(sig + "::concrete", f"f4(1, **{kw}) returned {r2!r}", {"kw": kw})
h2, h3 = make_same_name(2), make_same_name(3)
s2, s3 = symbolic_function(h2), symbolic_function(h3)
for first, second in ((s2, s3), (s3, s2)):
    for fn in (first, second, first):
        x = let(int, [0, 1, 2])
        args_ = (x, 1) if fn is s2 else (x, 1, 2)
        st, r = guarded(lambda: sorted(an(entity(x, fn(*args_))).evaluate()))
        want = [v for v in [0, 1, 2] if (v > 1 if fn is s2 else v + 1 > 2)]
        rep.case(("same-name", fn is s2, first is s2))
        if st == "exc" or r != want:
            rep.fail("function::same-qualified-name", f"two functions named helper with different signatures: {st} {r!r} want {want}", {})
SymbolGraph().clear()
rep.finish(exhaustive=True)
