"""Bounded stand-in for C06: generated dataclass models over the documented grammar (scalars, Optional scalars, enums,
datetimes, lists of builtins, references / Optional references to mapped classes, lists of mapped classes incl. several with
the same target, Type[C], private fields; single and multi-level inheritance; self and mutual references; any declaration
order) -> ClassDiagram -> ORMatic -> generated module text.  Checked: the module imports, configure_mappers() succeeds,
create_all() on an in-memory SQLite succeeds; one DAO per class with the parent's DAO as base; a column for every public
scalar / enum / datetime / JSON-list / Type field, a relationship for every reference / collection of a mapped class, nothing
for private fields; generating twice gives the same text."""
import importlib.util
import io
import itertools
import os
import random
import sys
import tempfile
import types
from common import args, Report, guarded

import sqlalchemy
from sqlalchemy.orm import configure_mappers, clear_mappers
from krrood.class_diagrams.class_diagram import ClassDiagram
from krrood.ormatic.ormatic import ORMatic
from krrood.ormatic.dao import DataAccessObject

a = args()
rng = random.Random(a.seed)
rep = Report("C06", "models of 1..5 dataclasses (+1 enum), 0..4 fields each over b | Optional[b] | E | Optional[E] | datetime | List[b] | C | Optional[C] | "
             "List[C] | Type[C], private fields, defaults, single / multi-level inheritance, self / mutual references, several lists of one "
             "target; 2 declaration orders; generated module imported, mappers configured, schema created on SQLite", a.out)
COUNTER = itertools.count()
SCALARS = ["int", "float", "str", "bool", "datetime"]
TMP = tempfile.mkdtemp(prefix="c06_")
sys.path.insert(0, TMP)


QUOTE = [False]


def ann_src(t):
    k = t[0]
    if k == "c" and QUOTE[0]:
        return f'"{t[1]}"'            # a forward reference written as a string (no postponed evaluation in that module)
    if k in ("b", "e", "c"):
        return t[1]
    if k == "opt":
        return f"Optional[{ann_src(t[1])}]"
    if k == "list":
        return f"List[{ann_src(t[1])}]"
    if k == "type":
        return f"Type[{t[1]}]"


def gen_model(rng, n):
    uid = next(COUNTER)
    names = [f"M{uid}c{i}" for i in range(n)]
    enum = f"M{uid}E"
    classes = []
    for i, nme in enumerate(names):
        base = None
        if i and rng.random() < 0.45:
            base = rng.choice(names[:i])
        fields = []
        for j in range(rng.randrange(0, 5)):
            fname = ("_" if rng.random() < 0.12 else "") + f"f{i}_{j}" + ("_" if rng.random() < 0.15 else "")
            r = rng.random()
            if r < 0.25:
                t = ("b", rng.choice(SCALARS))
            elif r < 0.35:
                t = ("opt", ("b", rng.choice(SCALARS)))
            elif r < 0.45:
                t = rng.choice([("e", enum), ("opt", ("e", enum))])
            elif r < 0.55:
                t = ("list", ("b", rng.choice(["int", "float", "str"])))
            elif r < 0.7:
                t = ("c", rng.choice(names))
            elif r < 0.8:
                t = ("opt", ("c", rng.choice(names)))
            elif r < 0.95:
                t = ("list", ("c", rng.choice(names)))
            else:
                t = ("type", rng.choice(names))
            fields.append((fname, t))
        classes.append(dict(name=nme, base=base, fields=fields))
    return dict(uid=uid, classes=classes, enum=enum)


def default_of(t):
    if t[0] == "list":
        return "field(default_factory=list)"
    return "None"


def build(model):
    uid = model["uid"]
    modname = f"c06_model_{uid}"
    enum_lines = [f"class {model['enum']}(enum.Enum):", "    A = 'a'", "    B = 'b'", ""]
    QUOTE[0] = bool(model.get("quoted"))
    lines = (["from __future__ import annotations"] if not QUOTE[0] else []) + ["import enum", "from dataclasses import dataclass, field", "from datetime import datetime",
             "from typing_extensions import Optional, List, Type", ""]
    if sum(map(ord, str(uid))) % 2:
        # the vocabulary lives in a module of its own (no mapped class next to it)
        with open(os.path.join(TMP, f"c06_vocabulary_{uid}.py"), "w") as f:
            f.write("import enum\n\n\n" + "\n".join(enum_lines) + "\n")
        lines.append(f"from c06_vocabulary_{uid} import {model['enum']}")
        lines.append("")
    else:
        lines += enum_lines
    for c in model["classes"]:
        lines.append("@dataclass(kw_only=True, eq=False)")
        lines.append(f"class {c['name']}" + (f"({c['base']})" if c["base"] else "") + ":")
        if not c["fields"]:
            lines.append("    pass")
        for fname, t in c["fields"]:
            lines.append(f"    {fname}: {ann_src(t)} = {default_of(t)}")
        lines.append("")
    path = os.path.join(TMP, modname + ".py")
    with open(path, "w") as f:
        f.write("\n".join(lines) + "\n")
    mod = importlib.import_module(modname)
    return mod, {c["name"]: getattr(mod, c["name"]) for c in model["classes"]}


def generate(classes_in_order, diagram=None):
    d = diagram if diagram is not None else ClassDiagram(classes_in_order)
    o = ORMatic(class_dependency_graph=d)
    o.make_all_tables()
    path = os.path.join(TMP, f"gen_{next(COUNTER)}.py")
    with open(path, "w") as f:
        o.to_sqlalchemy_file(f)
    return open(path).read(), path


def all_fields(model, cname):
    by = {c["name"]: c for c in model["classes"]}
    out, n = [], cname
    chain = []
    while n is not None:
        chain.append(n)
        n = by[n]["base"]
    for n in reversed(chain):
        out += by[n]["fields"]
    return out


def check(model, order_name, names):
    mod, classes = build(model) if order_name == "declared" else (sys.modules[f"c06_model_{model['uid']}"], {c["name"]: getattr(sys.modules[f"c06_model_{model['uid']}"], c["name"]) for c in model["classes"]})
    inp = dict(model=model, order=order_name)
    shape = []
    by = {c["name"]: c for c in model["classes"]}
    for c in model["classes"]:
        for fname, t in c["fields"]:
            if t[0] == "list" and t[1] == ("c", c["name"]):
                shape.append("self-list")
    st, r = guarded(lambda: generate([classes[n] for n in names]))
    rep.case((model["uid"], order_name), sample={"classes": len(names), "order": order_name} if model["uid"] < 2 else None)
    if st == "exc":
        rep.fail(f"generation-raised::{type(r).__name__}", f"generation raised {type(r).__name__}: {str(r)[:200]}", inp)
        return
    text, path = r
    st, r2 = guarded(lambda: generate([classes[n] for n in names]))
    if st == "ok" and r2[0] != text:
        rep.fail("not-deterministic", "generating the same model twice gives different text", inp)
    # ... also with two generators over ONE class diagram object (what a second generator produces does not depend on the first)
    shared = ClassDiagram([classes[n] for n in names])
    st, r3 = guarded(lambda: (generate(None, shared)[0], generate(None, shared)[0]))
    if st == "exc":
        rep.fail(f"generation-raised::shared-diagram::{type(r3).__name__}", f"two generators over one class diagram: {type(r3).__name__}: {str(r3)[:200]}", inp)
    elif r3[0] != text or r3[1] != text:
        rep.fail("not-deterministic::shared-diagram", f"two generators over one ClassDiagram object: the {'second' if r3[0] == text else 'first'} one writes a different module "
                 f"({len(r3[1].splitlines())} vs {len(text.splitlines())} lines)", inp)
    gname = os.path.basename(path)[:-3]
    st, gen = guarded(lambda: importlib.import_module(gname))
    if st == "exc":
        kind = "self-list" if shape else ("no-builtin-field" if "builtins" in str(gen) else "other")
        rep.fail(f"import-fails::{kind}::{type(gen).__name__}", f"the generated module does not import: {type(gen).__name__}: {str(gen)[:200]}", inp)
        return
    try:
        st, e = guarded(configure_mappers)
        if st == "exc":
            rep.fail(f"mappers-fail::{'self-list' if shape else 'other'}::{type(e).__name__}", f"configure_mappers: {type(e).__name__}: {str(e)[:300]}", inp)
            return
        engine = sqlalchemy.create_engine("sqlite://")
        st, e = guarded(lambda: gen.Base.metadata.create_all(engine))
        if st == "exc":
            rep.fail(f"schema-fails::{type(e).__name__}", f"create_all: {type(e).__name__}: {str(e)[:300]}", inp)
            return
        # structure
        for c in model["classes"]:
            if c["name"] not in names:
                continue
            dao = getattr(gen, c["name"] + "DAO", None)
            if dao is None:
                rep.fail("dao-missing", f"no DAO class for {c['name']}", inp)
                continue
            if dao.original_class() is not classes[c["name"]]:
                rep.fail("dao-original-class", f"{c['name']}DAO.original_class() is {dao.original_class()}", inp)
            want_base = c["base"] + "DAO" if (c["base"] and c["base"] in names) else "Base"
            if dao.__bases__[0].__name__ != want_base:
                rep.fail("dao-base", f"{c['name']}DAO derives from {dao.__bases__[0].__name__}, expected {want_base}", inp)
            mapper = sqlalchemy.inspect(dao)
            cols = {col.key for col in mapper.column_attrs}
            rels = {r.key: r for r in mapper.relationships}
            for fname, t in all_fields(model, c["name"]):
                k = t[1][0] if t[0] == "opt" else t[0]
                tgt = t[1][1] if t[0] in ("opt", "list") and t[1][0] == "c" else (t[1] if t[0] == "c" else None)
                is_col = k in ("b", "e") or (t[0] == "list" and t[1][0] == "b") or t[0] == "type"
                is_rel = tgt is not None and tgt in names and t[0] != "type"
                if fname.startswith("_"):
                    if fname in cols or fname in rels:
                        rep.fail("private-field-mapped", f"{c['name']}.{fname} is private but mapped", inp)
                    continue
                if is_col and fname not in cols:
                    rep.fail(f"column-missing::{ann_kind(t)}", f"{c['name']}DAO has no column for {fname}: {ann_src(t)}", inp)
                if is_rel and fname not in rels:
                    rep.fail(f"relationship-missing::{ann_kind(t)}", f"{c['name']}DAO has no relationship for {fname}: {ann_src(t)}", inp)
                if is_rel and fname in rels:
                    r_ = rels[fname]
                    if r_.mapper.class_.__name__ != tgt + "DAO":
                        rep.fail("relationship-target", f"{c['name']}DAO.{fname} targets {r_.mapper.class_.__name__}, expected {tgt}DAO", inp)
                    if bool(r_.uselist) != (t[0] == "list"):
                        rep.fail("relationship-multiplicity", f"{c['name']}DAO.{fname}: uselist={r_.uselist} for {ann_src(t)}", inp)
    finally:
        clear_mappers()
        sys.modules.pop(gname, None)


def ann_kind(t):
    if t[0] == "opt":
        return "opt-" + t[1][0]
    if t[0] == "list":
        return "list-" + t[1][0]
    return t[0]


def scripted():
    out = []
    uid = next(COUNTER)
    A, B, C = (f"M{uid}c{i}" for i in range(3))
    E = f"M{uid}E"
    out.append(dict(uid=uid, enum=E, classes=[dict(name=A, base=None, fields=[("ref", ("c", B)), ("items", ("list", ("c", B))), ("more", ("list", ("c", B)))]),
                                               dict(name=B, base=None, fields=[("back", ("opt", ("c", A)))]), dict(name=C, base=B, fields=[("x", ("b", "int"))])]))
    uid = next(COUNTER)
    A, = (f"M{uid}c{i}" for i in range(1))
    out.append(dict(uid=uid, enum=f"M{uid}E", classes=[dict(name=A, base=None, fields=[("children", ("list", ("c", A))), ("n", ("b", "int"))])]))     # List of its own type
    uid = next(COUNTER)
    A, B = (f"M{uid}c{i}" for i in range(2))
    out.append(dict(uid=uid, enum=f"M{uid}E", classes=[dict(name=A, base=None, fields=[("ref", ("opt", ("c", B)))]), dict(name=B, base=None, fields=[])]))   # no builtin-typed public field
    uid = next(COUNTER)
    A, B = (f"M{uid}c{i}" for i in range(2))
    out.append(dict(uid=uid, enum=f"M{uid}E", classes=[dict(name=A, base=None, fields=[("parent", ("opt", ("c", A))), ("e", ("e", f"M{uid}E")), ("when", ("b", "datetime")),
                                                                                          ("tags", ("list", ("b", "str"))), ("_hidden", ("b", "int")), ("kind", ("type", B))]),
                                                       dict(name=B, base=A, fields=[("y", ("opt", ("b", "float")))])]))
    uid = next(COUNTER)
    A, B, C = (f"M{uid}c{i}" for i in range(3))
    E = f"M{uid}E"
    out.append(dict(uid=uid, enum=E, classes=[dict(name=A, base=None, fields=[("oe", ("opt", ("e", E))), ("id_", ("b", "int")), ("type_", ("opt", ("b", "str")))]),
                                               dict(name=B, base=A, fields=[("assistant", ("c", A)), ("oe2", ("opt", ("e", E))), ("zeta", ("b", "int")), ("alpha", ("b", "str")), ("mid", ("list", ("b", "int")))]),
                                               dict(name=C, base=B, fields=[("deputy", ("opt", ("c", B))), ("owners_", ("list", ("c", A))), ("b2", ("b", "float")), ("a2", ("b", "bool"))])]))
    # a long class name with several collections whose names share a long prefix: every collection keeps its OWN association table
    uid = next(COUNTER)
    A, B = f"M{uid}c0", f"M{uid}c1AutonomousMobileManipulationPlatformWithExtendedSensorSuite"
    out.append(dict(uid=uid, enum=f"M{uid}E", classes=[dict(name=A, base=None, fields=[("n", ("b", "int"))]),
                                                       dict(name=B, base=None, fields=[("mounted_sensors_front", ("list", ("c", A))), ("mounted_sensors_rear", ("list", ("c", A))),
                                                                                       ("mounted_sensors_front_left_upper", ("list", ("c", A)))])]))
    # a module WITHOUT postponed annotations whose self / mutual references are quoted inside generics
    uid = next(COUNTER)
    A, B, C = (f"M{uid}c{i}" for i in range(3))
    out.append(dict(uid=uid, enum=f"M{uid}E", quoted=True,
                    classes=[dict(name=A, base=None, fields=[("boss", ("opt", ("c", A))), ("reports", ("list", ("c", A))), ("unit", ("opt", ("c", C))), ("n", ("b", "int"))]),
                             dict(name=B, base=A, fields=[("deputy", ("opt", ("c", A)))]),
                             dict(name=C, base=None, fields=[("sub_units", ("list", ("c", C))), ("head", ("opt", ("c", B)))])]))
    return out


def cross_process_determinism(model):
    """the same model generated in two interpreter processes with different string hashing must give the same text"""
    import subprocess
    build(model)
    modname = f"c06_model_{model['uid']}"
    names = [c["name"] for c in model["classes"]]
    code = (f"import sys; sys.path.insert(0, {TMP!r}); import {modname} as m\n"
            "from krrood.class_diagrams.class_diagram import ClassDiagram\nfrom krrood.ormatic.ormatic import ORMatic\n"
            f"o = ORMatic(class_dependency_graph=ClassDiagram([getattr(m, n) for n in {names!r}])); o.make_all_tables()\n"
            f"p = {TMP!r} + '/xp_' + sys.argv[1] + '.py'\nf = open(p, 'w'); o.to_sqlalchemy_file(f); f.close(); print(open(p).read())")
    texts = []
    for seed in ("1", "2", "3"):
        p = subprocess.run([sys.executable, "-c", code, seed], capture_output=True, text=True, env=dict(os.environ, PYTHONHASHSEED=seed))
        if p.returncode != 0:
            return None
        texts.append(p.stdout)
    return len(set(texts)) == 1


N = {"quick": 30, "thorough": 1000}.get(a.tier, 60)
for m in scripted()[-2:]:
    ok = cross_process_determinism(m)
    rep.case((m["uid"], "cross-process"))
    if ok is False:
        rep.fail("not-deterministic::across-processes", "the same model generated under PYTHONHASHSEED=1,2,3 gives different text", dict(model=m))
models = scripted() + [gen_model(rng, rng.randrange(1, 6)) for _ in range(N)]
for m in models:
    names = [c["name"] for c in m["classes"]]
    check(m, "declared", names)
    check(m, "reversed", names[::-1])
import shutil
shutil.rmtree(TMP, ignore_errors=True)
rep.finish()
