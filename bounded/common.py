"""Shared plumbing of the bounded stand-ins (run under /venv/bin/python against the real package)."""
import argparse
import json
import os
import sys
import traceback


def args():
    ap = argparse.ArgumentParser()
    ap.add_argument("--tier", default="quick")
    ap.add_argument("--seed", type=int, default=0)
    ap.add_argument("--out", default="/tmp")
    return ap.parse_args()


class Report:
    def __init__(self, pid, scope, out):
        self.pid = pid
        self.scope = scope
        self.out = out
        self.cases = 0
        self.nontrivial = set()
        self.failures = {}
        self.samples = []

    def case(self, key, nontrivial=True, sample=None):
        self.cases += 1
        if nontrivial:
            self.nontrivial.add(key)
        if sample is not None and len(self.samples) < 5:
            self.samples.append(sample)

    def fail(self, signature, what, inp):
        """One entry per signature (the first failing input is kept as the replay)."""
        if signature in self.failures:
            self.failures[signature]["count"] += 1
            return
        os.makedirs(self.out, exist_ok=True)
        import re
        path = os.path.join(self.out, "bounded_" + re.sub(r"[^A-Za-z0-9_.-]+", "_", signature)[:120] + ".json")
        with open(path, "w") as f:
            json.dump({"property": self.pid, "signature": signature, "what": what, "input": inp}, f, indent=1, default=repr)
        self.failures[signature] = {"signature": signature, "what": what, "replay": path, "count": 1}

    def finish(self, exhaustive=False):
        print(json.dumps({"cases": self.cases, "distinct_nontrivial": len(self.nontrivial), "scope": self.scope,
                          "exhaustive": exhaustive, "failures": list(self.failures.values()),
                          "samples": self.samples}, default=repr))
        sys.exit(0)


def guarded(fn):
    """Run fn(); return ('ok', value) or ('exc', exception)."""
    try:
        return "ok", fn()
    except BaseException as e:  # noqa
        return "exc", e
