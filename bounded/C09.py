"""Bounded stand-in for C09 (never counted as proved): every constraint with bounds 0..B against n = 0..N real solutions."""
import itertools
from common import args, Report, guarded

from krrood.entity_query_language.entity import entity, let, set_of
from krrood.entity_query_language.quantify_entity import an, the
from krrood.entity_query_language.result_quantification_constraint import Exactly, AtLeast, AtMost, Range
from krrood.entity_query_language import failures as F

from dataclasses import dataclass
from krrood.entity_query_language.predicate import Symbol


@dataclass(eq=False)
class Item(Symbol):      # defined before the first evaluation builds the symbol graph's class diagram
    k: int


a = args()
B, N = (4, 5) if a.tier == "quick" else (7, 9)
rep = Report("C09", f"constraints with bounds 0..{B} (plus negative/inconsistent constructor arguments) x n=0..{N} solutions, the() for n=0..{N}; exhaustive", a.out)


def run_query(n, c, use_the=False, base=1):
    x = let(int, list(range(base, n + base)))
    q = the(entity(x)) if use_the else an(entity(x), quantification=c)
    got = []
    if use_the:
        return [q.evaluate()], None
    try:
        for v in q.evaluate():
            got.append(v)
    except Exception as e:
        return got, e
    return got, None


def expect(n, lower, upper):
    if upper is not None and n > upper:
        return upper, F.GreaterThanExpectedNumberOfSolutions
    if n < lower:
        return n, F.LessThanExpectedNumberOfSolutions
    return n, None


cons = [("none", None, 0, None)]
for v in range(B + 1):
    cons += [(f"Exactly({v})", Exactly(v), v, v), (f"AtLeast({v})", AtLeast(v), v, None), (f"AtMost({v})", AtMost(v), 0, v)]
for lo in range(B + 1):
    for hi in range(lo, B + 1):
        cons.append((f"Range({lo},{hi})", Range(AtLeast(lo), AtMost(hi)), lo, hi))
for name, c, lower, upper in cons:
    for n in range(N + 1):
        got, exc = run_query(n, c)
        ey, eexc = expect(n, lower, upper)
        ok = len(got) == ey and ((exc is None and eexc is None) or (eexc is not None and type(exc) is eexc)) and got == list(range(1, ey + 1))
        rep.case((name, n), sample={"constraint": name, "n": n, "yielded": len(got), "raised": type(exc).__name__ if exc else None})
        if not ok:
            rep.fail(f"an::{name.split('(')[0]}", f"{name} with n={n}: yielded {len(got)} raised {type(exc).__name__ if exc else None}; expected {ey} / {eexc.__name__ if eexc else None}",
                     {"constraint": name, "n": n})
for n in range(N + 1):
    st, r = guarded(lambda: run_query(n, None, use_the=True))
    if n == 1:
        ok = st == "ok" and r[0] == [1]
    elif n == 0:
        ok = st == "exc" and type(r) is F.NoSolutionFound
    else:
        ok = st == "exc" and type(r) is F.MultipleSolutionFound
    rep.case(("the", n))
    if not ok:
        rep.fail("the", f"the() with n={n}: {st} {r!r}", {"n": n})
# a quantifier used as an operand of an enclosing query keeps its meaning: the(...) with n = 0 / >1 solutions fails the same way
for n in range(N + 1):
    def nested(n=n):
        inner = let(int, list(range(1, n + 1)))
        the_one = the(entity(inner))
        outer = let(int, [1, 2, 3])
        return list(an(entity(outer, outer == the_one)).evaluate())
    st, r = guarded(nested)
    ok = (st == "ok" and r == [1]) if n == 1 else (st == "exc" and type(r) is (F.NoSolutionFound if n == 0 else F.MultipleSolutionFound))
    rep.case(("the-nested", n))
    if not ok:
        rep.fail("the::nested", f"the() with n={n} solutions as an operand of an enclosing query: {st} {r!r}", {"n": n, "nested": True})
    # ... and when it depends on a variable of the enclosing query (evaluated once per outer binding)
    def correlated(n=n):
        outer = let(int, [1])
        inner = let(int, [1] * 0 + list(range(1, n + 1)))
        the_one = the(entity(inner, inner >= outer))
        return list(an(set_of([outer, the_one])).evaluate())
    st, r = guarded(correlated)
    ok = (st == "ok" and len(r) == 1) if n == 1 else (st == "exc" and type(r) is (F.NoSolutionFound if n == 0 else F.MultipleSolutionFound))
    rep.case(("the-correlated", n))
    if not ok:
        rep.fail("the::nested-correlated", f"the() with n={n} solutions depending on a variable of the enclosing query: {st} {r!r}", {"n": n, "nested": True})
# the(...) asked once per binding of the enclosing query, with a DIFFERENT number of solutions per binding: owners own 0 / 1 / 2
# items, "the item of that owner" sits on the right of a conjunction; every order of two or three owners
from krrood.entity_query_language.entity import and_ as _and


@dataclass(eq=False)
class Owner(Symbol):
    name: str
    owned: int


@dataclass(eq=False)
class Thing(Symbol):
    owner: str
    size: int = 5


for counts in itertools.chain(itertools.product(range(3), repeat=2), itertools.product(range(3), repeat=3) if a.tier == "thorough" else [(1, 1, 2), (1, 0, 1), (1, 1, 1)]):
    def per_binding(counts=counts):
        owners = [Owner(f"o{i}", c) for i, c in enumerate(counts)]
        things = [Thing(o.name) for o in owners for _ in range(o.owned)]
        o = let(Owner, owners)
        t = let(Thing, things)
        its_item = the(entity(t, t.owner == o.name))
        return [r.name for r in an(entity(o, _and(o.owned >= 0, its_item.size > 0))).evaluate()]
    st, r = guarded(per_binding)
    first_bad = next((c for c in counts if c != 1), None)
    ok = (st == "ok" and r == [f"o{i}" for i in range(len(counts))]) if first_bad is None else \
        (st == "exc" and type(r) is (F.NoSolutionFound if first_bad == 0 else F.MultipleSolutionFound))
    rep.case(("the-per-binding", counts))
    if not ok:
        rep.fail("the::per-outer-binding", f"owners owning {counts} items, the(item of that owner) asked once per owner: {st} {r!r}", {"counts": list(counts)})
# one description quantified several times, each time with the constraint stated then
for (n1, c1, lo1, up1), (n2, c2, lo2, up2) in itertools.product([("AtLeast(1)", AtLeast(1), 1, None), ("none", None, 0, None), ("AtMost(5)", AtMost(5), 0, 5)],
                                                                 [("AtMost(2)", AtMost(2), 0, 2), ("Exactly(4)", Exactly(4), 4, 4), ("Exactly(3)", Exactly(3), 3, 3), ("none", None, 0, None)]):
    def requantified():
        x = let(int, [1, 2, 3])
        description = entity(x, x > 0)
        first = an(description, quantification=c1) if c1 is not None else an(description)
        list(first.evaluate())
        second = an(description, quantification=c2) if c2 is not None else an(description)
        got = []
        try:
            for v in second.evaluate():
                got.append(v)
        except Exception as e:
            return got, e
        return got, None
    st, r = guarded(requantified)
    rep.case(("requantified", n1, n2))
    ey, eexc = expect(3, lo2, up2)
    if st == "exc":
        rep.fail("an::requantified::raised", f"an(description, {n1}) evaluated, then an(description, {n2}): {type(r).__name__}: {r}", {"first": n1, "second": n2})
    elif not (len(r[0]) == ey and (type(r[1]) if r[1] else None) is eexc):
        rep.fail("an::requantified", f"an(description, {n1}) evaluated, then an(description, {n2}) over 3 solutions: yielded {len(r[0])} raised {type(r[1]).__name__ if r[1] else None}; "
                 f"expected {ey} / {eexc.__name__ if eexc else None}", {"first": n1, "second": n2})
# a quantified query that is SELECTED by an enclosing query and mentioned again in its condition keeps counting
for upper in (1, 2):
    for n in range(0, 5):
        def twice(n=n, upper=upper):
            x = let(int, list(range(1, n + 1)))
            inner = an(entity(x), quantification=AtMost(upper))
            got_ = []
            try:
                for r in an(entity(inner, inner != 99)).evaluate():
                    got_.append(r)
            except Exception as e:
                return got_, e
            return got_, None
        st, r = guarded(twice)
        rep.case(("mentioned-twice", upper, n))
        if st == "exc":
            rep.fail("an::mentioned-twice::raised", f"AtMost({upper}) with n={n} solutions, selected and mentioned in the condition: {type(r).__name__}: {r}", {"upper": upper, "n": n})
            continue
        got_, exc = r
        ey, eexc = expect(n, 0, upper)
        if len(got_) != ey or (eexc is None) != (exc is None) or (eexc is not None and type(exc) is not eexc):
            rep.fail("an::mentioned-twice", f"an(entity(inner, inner != 99)) with inner = an(entity(x), AtMost({upper})) over {n} solutions: yielded {len(got_)}, raised "
                     f"{type(exc).__name__ if exc else None}; expected {ey} / {eexc.__name__ if eexc else None}", {"upper": upper, "n": n})
# falsy solutions are solutions: the single solution 0 / "" must be returned by the()
for dom, want in (([0], 0), ([""], ""), ([[]], [])):
    st, r = guarded(lambda: the(entity(let(type(want), dom))).evaluate())
    rep.case(("the-falsy", repr(want)))
    if not (st == "ok" and r == want):
        rep.fail("the::falsy-solution", f"the() over the one-element domain {dom!r}: {st} {r!r}", {"domain": repr(dom)})
# pattern-matching descriptions carry the constraint too
from krrood.entity_query_language.match import entity_matching
items = [Item(1), Item(1), Item(2)]
for name, c, lower, upper in cons[:1 + 3 * 3]:
    got, exc = [], None
    try:
        for v in an(entity_matching(Item, items)(k=1), quantification=c).evaluate():
            got.append(v)
    except Exception as e:
        exc = e
    ey, eexc = expect(2, lower, upper)
    rep.case(("match", name))
    if not (len(got) == ey and ((exc is None and eexc is None) or (eexc is not None and type(exc) is eexc))):
        rep.fail("an::match-description", f"an(entity_matching(...)(k=1), {name}) with 2 matches: yielded {len(got)} raised {type(exc).__name__ if exc else None}", {"constraint": name})
for cls in (Exactly, AtLeast, AtMost):
    for v in (-3, -1, 0, 1):
        st, r = guarded(lambda: cls(v))
        ok = (st == "exc" and type(r) is F.NegativeQuantificationError) if v < 0 else st == "ok"
        rep.case((cls.__name__, "ctor", v))
        if not ok:
            rep.fail(f"ctor::{cls.__name__}", f"{cls.__name__}({v}): {st} {r!r}", {"class": cls.__name__, "value": v})
for lo, hi in itertools.product(range(3), repeat=2):
    st, r = guarded(lambda: Range(AtLeast(lo), AtMost(hi)))
    ok = (st == "exc" and type(r) is F.QuantificationConsistencyError) if hi < lo else st == "ok"
    rep.case(("Range", "ctor", lo, hi))
    if not ok:
        rep.fail("ctor::Range", f"Range({lo},{hi}): {st} {r!r}", {"lo": lo, "hi": hi})
rep.finish(exhaustive=True)
