"""Bounded stand-in for C17: generated dataclass models over the supported annotation grammar
(builtins, datetime, enums, references, Optional of those, List/Set/Sequence of builtins or classes, Type[C]; forward,
self and mutual references; references that only the diagram can resolve; private fields; single / multi-level /
multiple inheritance; Role classes), given to ClassDiagram in several orders (with duplicates).  The oracle is computed
from the GENERATOR's own description of the model, never from krrood: nodes, direct-base inheritance edges, one
association per (class, public field incl. inherited) whose end point is a class of the diagram, the classification
table of every field, and a snapshot of the diagram before/after every read-only operation."""
import itertools
import random
import sys
import types
from common import args, Report, guarded

from krrood.class_diagrams.class_diagram import ClassDiagram, Association, Inheritance, HasRoleTaker, WrappedClass
from krrood.class_diagrams.class_diagram import RWXNode
import datetime as _dt

a = args()
rng = random.Random(a.seed)
RWX_OK = False
if RWXNode is not None:
    try:
        RWXNode(name="probe")
        RWX_OK = True
    except TypeError:
        RWX_OK = False      # installed rustworkx_utils wants a 'graph' argument the code does not pass: rendering cannot run here
rep = Report("C17", "models of 1..5 dataclasses (+2 enums) in 1..2 modules, 0..4 fields each over the grammar "
             "b | E | C | Optional[b|E|C] | List/Set/Sequence[b|C] | Type[C] incl. self/mutual/cross-module forward references, "
             "private fields, defaults, single/multi-level/multiple inheritance, Role classes; 3 orders each; "
             "8 read-only operations + both sub-diagram variants", a.out)

BUILTINS = {"int": int, "float": float, "str": str, "bool": bool, "datetime": _dt.datetime}
CONTAINERS = {"List": list, "Set": set, "Sequence": __import__("collections.abc").abc.Sequence}
COUNTER = itertools.count()


# ---------------------------------------------------------------- annotation ADT
def ann_src(t):
    k = t[0]
    if k in ("b", "e", "c"):
        return t[1]
    if k == "opt":
        return f"Optional[{ann_src(t[1])}]"
    if k == "cont":
        return f"{t[1]}[{ann_src(t[2])}]"
    if k == "type":
        return f"Type[{t[1]}]"
    raise ValueError(t)


def expected(t):
    """The classification the annotation states (independent of krrood)."""
    k = t[0]
    base = dict(builtin=False, optional=False, enum=False, container=False, one_to_one=False, one_to_many=False,
                type_type=False, container_type=None, assoc_one_to_many=False)
    if k == "b":
        return dict(base, builtin=True, endpoint=("b", t[1]))
    if k == "e":
        return dict(base, enum=True, one_to_one=True, endpoint=("e", t[1]))
    if k == "c":
        return dict(base, one_to_one=True, endpoint=("c", t[1]))
    if k == "opt":
        inner = expected(t[1])
        return dict(inner, optional=True)
    if k == "cont":
        inner = t[2]
        return dict(base, container=True, container_type=CONTAINERS[t[1]], builtin=inner[0] == "b",
                    one_to_many=inner[0] != "b", assoc_one_to_many=inner[0] != "b", endpoint=inner,
                    **({"collection_of_builtins": inner[0] == "b"} if inner != ("b", "datetime") else {}))
    if k == "type":
        return dict(base, container=True, container_type=type, type_type=True, endpoint=("c", t[1]), one_to_many=None)
    raise ValueError(t)


# ---------------------------------------------------------------- model generator
def gen_model(rng, n_classes, cross_module):
    uid = next(COUNTER)
    names = [f"K{uid}x{i}" for i in range(n_classes)]
    enums = [f"E{uid}x{i}" for i in range(2)]
    module_of = {n: (rng.randrange(2) if cross_module else 0) for n in names}
    classes = []
    for i, n in enumerate(names):
        earlier = [m for m in names[:i] if module_of[m] == module_of[n]]     # bases must be importable
        r = rng.random()
        bases = []
        if earlier and r < 0.55:
            bases = [rng.choice(earlier)]
            if len(earlier) > 1 and rng.random() < 0.25:
                other = rng.choice([e for e in earlier if e != bases[0]])
                bases.append(other)
        role_of = None
        if not bases and earlier and rng.random() < 0.3:
            role_of = rng.choice(earlier)
        fields = []
        for j in range(rng.randrange(0, 5)):
            fname = ("_" if rng.random() < 0.15 else "") + f"f{i}_{j}"
            fields.append((fname, gen_ann(rng, names, enums), None))
        if role_of is not None:
            fields.insert(0, (f"taker{i}", ("c", role_of), None))      # unique per class: two Role bases must not share a field name
        classes.append(dict(name=n, bases=bases, fields=fields, module=module_of[n], role_of=role_of))
    # every field after the first with a default has a default too (dataclass rule); kw_only sidesteps inheritance ordering
    for c in classes:
        for k, (fname, t, _) in enumerate(c["fields"]):
            if fname.startswith("taker"):
                continue
            if rng.random() < 0.4:
                c["fields"][k] = (fname, t, default_src(t))
    return dict(uid=uid, classes=classes, enums=enums)


def gen_ann(rng, names, enums):
    def leaf(allow_enum=True):
        r = rng.random()
        if r < 0.35:
            return ("b", rng.choice(list(BUILTINS)))
        if r < 0.5 and allow_enum:
            return ("e", rng.choice(enums))
        return ("c", rng.choice(names))
    r = rng.random()
    if r < 0.4:
        return leaf()
    if r < 0.6:
        return ("opt", leaf())
    if r < 0.9:
        return ("cont", rng.choice(list(CONTAINERS)), leaf(allow_enum=False))
    return ("type", rng.choice(names))


def default_src(t):
    if t[0] == "cont":
        return "field(default_factory=list)" if t[1] != "Set" else "field(default_factory=set)"
    return "None"


def mro_fields(model, cname, seen=None):
    """dataclasses.fields order: bases in reverse MRO first; redefinition keeps the first position (names are unique here)."""
    by = {c["name"]: c for c in model["classes"]}
    order = []

    def lin(n):
        # C3 is what Python computes; the generator only needs the set of ancestors and the dataclass rule
        # 'fields of bases in reverse MRO order, then own', which we obtain from the real class below instead.
        raise NotImplementedError
    return None


def build(model):
    """exec the sources; returns {name: class}. Cross-module references are NOT importable from the other module
    (the TYPE_CHECKING idiom), so only the diagram's fallback can resolve them."""
    uid = model["uid"]
    mods = {}
    shared = types.ModuleType(f"c17_shared_{uid}")
    sys.modules[shared.__name__] = shared
    # the first enum is a plain Enum, the second mixes a builtin in (IntEnum / (str, Enum) alternately): still enums, not builtins
    bases = ["enum.Enum", "enum.IntEnum" if model["uid"] % 2 else "str, enum.Enum"]
    vals = [("1", "2"), ("1", "2") if model["uid"] % 2 else ("'a'", "'b'")]
    src = "import enum\n" + "".join(f"class {e}({bases[i % 2]}):\n    A = {vals[i % 2][0]}\n    B = {vals[i % 2][1]}\n" for i, e in enumerate(model["enums"]))
    exec(compile(src, shared.__name__, "exec"), shared.__dict__)
    out = {}
    for m in (0, 1):
        cls_here = [c for c in model["classes"] if c["module"] == m]
        if not cls_here:
            continue
        mod = types.ModuleType(f"c17_mod_{uid}_{m}")
        sys.modules[mod.__name__] = mod
        mods[m] = mod
        lines = ["from __future__ import annotations", "from dataclasses import dataclass, field",
                 "from datetime import datetime", "from typing_extensions import Optional, List, Set, Sequence, Type",
                 "from krrood.class_diagrams.utils import Role",
                 f"from {shared.__name__} import {', '.join(model['enums'])}"]
        for c in cls_here:
            bases = list(c["bases"])
            if c["role_of"] is not None:
                bases.append(f"Role[{c['role_of']}]")
            lines.append("@dataclass(kw_only=True, eq=False)")
            lines.append(f"class {c['name']}" + (f"({', '.join(bases)})" if bases else "") + ":")
            if not c["fields"]:
                lines.append("    pass")
            for fname, t, d in c["fields"]:
                lines.append(f"    {fname}: {ann_src(t)}" + (f" = {d}" if d else ""))
        exec(compile("\n".join(lines) + "\n", mod.__name__, "exec"), mod.__dict__)
        for c in cls_here:
            out[c["name"]] = mod.__dict__[c["name"]]
    for e in model["enums"]:
        out[e] = shared.__dict__[e]
    return out, [shared.__name__] + [m.__name__ for m in mods.values()]


def all_fields(model, cname):
    """(field name, ann) of a class including inherited ones (set semantics; names are unique per class)."""
    by = {c["name"]: c for c in model["classes"]}
    seen, out, stack = set(), [], [cname]
    while stack:
        n = stack.pop()
        if n in seen:
            continue
        seen.add(n)
        out.extend((f, t, d) for f, t, d in by[n]["fields"])
        stack.extend(by[n]["bases"])
    return out


# ---------------------------------------------------------------- observation
def snapshot(d):
    g = d._dependency_graph
    nodes = [(i, id(g[i]), g[i].clazz, g[i].index, id(g[i]._class_diagram)) for i in g.node_indices()]
    edges = sorted((u, v, type(g.get_edge_data_by_index(ix)).__name__, id(g.get_edge_data_by_index(ix)))
                   for ix, (u, v) in zip(g.edge_indices(), g.edge_list()))
    cmap = sorted((k.__name__, id(v)) for k, v in d._cls_wrapped_cls_map.items())
    return nodes, edges, cmap


def observe_queries(d):
    """what the pure queries answer (a cache written by one of them and corrupted by another shows up here)"""
    def norm(x):
        if isinstance(x, dict):
            return sorted((norm(k), norm(v)) for k, v in x.items())
        if isinstance(x, (set, frozenset, list, tuple)):
            return sorted((norm(e) for e in x), key=repr)
        if isinstance(x, type):
            return x.__name__
        return x
    out = {"parent_map": norm(d.parent_map)}
    for w in d.wrapped_classes:
        out[("ancestors", w.index)] = norm(d.all_ancestors(w.index))
        out[("out", w.index)] = sorted(id(e) for e in d.get_out_edges(w))
    out["keys"] = norm(d.get_assoc_keys_by_source(False))
    out["keys+names"] = norm(d.get_assoc_keys_by_source(True))
    return out


def observed_edges(d):
    g = d._dependency_graph
    inh, assoc = [], []
    for (u, v), ix in zip(g.edge_list(), g.edge_indices()):
        e = g.get_edge_data_by_index(ix)
        if isinstance(e, Association):
            assoc.append((g[u].clazz.__name__, e.field.field.name, g[v].clazz.__name__, type(e).__name__,
                          e.source is g[u], e.target is g[v], e.field.public_name))
        elif isinstance(e, Inheritance):
            inh.append((g[u].clazz.__name__, g[v].clazz.__name__, e.source is g[u], e.target is g[v]))
        else:
            assoc.append(("?", repr(e)))
    return inh, assoc


def check_model(model, order_name, names_in_order, classes, sample):
    sig_prefix = ""
    inp = dict(model=model, order=order_name, given=names_in_order)
    st, d = guarded(lambda: ClassDiagram([classes[n] for n in names_in_order]))
    if st == "exc":
        rep.fail("construction::raised::" + type(d).__name__, f"ClassDiagram({names_in_order}) raised {type(d).__name__}: {d}", inp)
        return None
    in_diagram = list(dict.fromkeys(names_in_order))
    # ---- nodes
    got_nodes = [w.clazz.__name__ for w in d.wrapped_classes]
    if sorted(got_nodes) != sorted(in_diagram):
        rep.fail("nodes", f"nodes {sorted(got_nodes)} != classes {sorted(in_diagram)}", inp)
    for w in d.wrapped_classes:
        if d._dependency_graph[w.index] is not w or d.get_wrapped_class(w.clazz) is not w or w._class_diagram is not d:
            rep.fail("nodes::index", f"node of {w.clazz.__name__} is not consistently indexed", inp)
    # ---- inheritance
    by = {c["name"]: c for c in model["classes"]}
    exp_inh = sorted((b, c) for c in in_diagram for b in by[c]["bases"] if b in in_diagram)
    inh, assoc = observed_edges(d)
    if sorted((x[0], x[1]) for x in inh) != exp_inh:
        rep.fail("inheritance-edges", f"inheritance edges {sorted((x[0], x[1]) for x in inh)} != direct-base pairs {exp_inh}", inp)
    if not all(x[2] and x[3] for x in inh):
        rep.fail("inheritance-edges::endpoints", "an inheritance relation's source/target objects are not the edge's end nodes", inp)
    # ---- associations
    exp_assoc = []
    for c in in_diagram:
        for fname, t, dflt in all_fields(model, c):
            if fname.startswith("_"):
                continue
            ep = expected(t)["endpoint"]
            if ep[0] == "c" and ep[1] in in_diagram:
                role = by[c]["role_of"]
                exp_assoc.append((c, fname, ep[1]))
    got_assoc = sorted((x[0], x[1], x[2]) for x in assoc if len(x) > 2)
    if got_assoc != sorted(exp_assoc):
        missing = sorted(set(exp_assoc) - set(got_assoc))
        extra = sorted(set(got_assoc) - set(exp_assoc))
        dup = len(got_assoc) != len(set(got_assoc))
        kind = "missing" if missing else ("extra" if extra else "duplicate")
        rep.fail("association-edges::" + kind, f"association edges differ: missing {missing[:3]} extra {extra[:3]} duplicated={dup}", inp)
    for x in assoc:
        if len(x) > 2 and not (x[4] and x[5]):
            rep.fail("association-edges::endpoints", f"association {x[:3]}: source/target objects are not the edge's end nodes", inp)
        if len(x) > 2:
            # role takers: in a Role[T] class (or a subclass of one) every undefaulted, mandatory one-to-one field of type T
            c, fname, tgt, kind = x[0], x[1], x[2], x[3]
            roles = {by[k]["role_of"] for k in [c] + ancestors(by, c) if by[k]["role_of"] is not None}
            if len(roles) <= 1:
                fdef = {f: (t, dflt) for f, t, dflt in all_fields(model, c)}[fname]
                want = "HasRoleTaker" if (roles and fdef[0] == ("c", next(iter(roles))) and fdef[1] is None) else "Association"
                if kind != want:
                    rep.fail("association-edges::role-taker", f"{c}.{fname} -> {tgt}: the edge is a {kind}, expected {want} "
                             f"(Role parameter {sorted(roles)}, annotation {ann_src(fdef[0])}, default {fdef[1]})", inp)
    # ---- classification
    for w in d.wrapped_classes:
        c = w.clazz.__name__
        st, fs = guarded(lambda: w.fields)
        if st == "exc":
            rep.fail("fields::raised", f"{c}.fields raised {type(fs).__name__}: {fs}", inp)
            continue
        exp_fields = sorted(f for f, t, dflt in all_fields(model, c) if not f.startswith("_"))
        if sorted(f.field.name for f in fs) != exp_fields:
            rep.fail("fields::set", f"{c}: wrapped fields {sorted(f.field.name for f in fs)} != public fields {exp_fields}", inp)
        anns = {f: t for f, t, dflt in all_fields(model, c)}
        for wf in fs:
            t = anns.get(wf.field.name)
            if t is None:
                continue
            e = expected(t)
            check_field(wf, t, e, classes, inp, c)
            rep.case(("field", ann_kind(t)), sample=None)
    # ---- frame: read-only operations
    before = snapshot(d)
    before_edges = observed_edges(d)
    st0, before_q = guarded(lambda: observe_queries(d))
    some = d.wrapped_classes[0] if d.wrapped_classes else None
    ops = [("associations", lambda: d.associations), ("inheritance_relations", lambda: d.inheritance_relations),
           ("parent_map", lambda: d.parent_map), ("get_assoc_keys_by_source", lambda: d.get_assoc_keys_by_source(True)),
           ("to_subdiagram(False)", lambda: d.to_subdiagram_without_inherited_associations(False)),
           ("to_subdiagram(True)", lambda: d.to_subdiagram_without_inherited_associations(True))]
    if some is not None:
        ops += [("all_ancestors", lambda: [d.all_ancestors(w.index) for w in d.wrapped_classes]),
                ("get_out_edges", lambda: [d.get_out_edges(w) for w in d.wrapped_classes]),
                ("get_outgoing_relations", lambda: [list(d.get_outgoing_relations(w.clazz)) for w in d.wrapped_classes]),
                ("neighbors", lambda: [(d.get_neighbors_with_relation_type(w, Association),
                                        d.get_outgoing_neighbors_with_relation_type(w, Inheritance),
                                        d.get_incoming_neighbors_with_relation_type(w, Association)) for w in d.wrapped_classes]),
                ("role_takers", lambda: [d.get_role_taker_associations_of_cls(w) for w in d.wrapped_classes])]
    if RWX_OK:
        ops.append(("_build_rxnode_tree", lambda: d._build_rxnode_tree(True)))
    rng2 = random.Random(model["uid"])
    rng2.shuffle(ops)
    subs = []
    for name, op in ops + ops[:3]:
        st, r = guarded(op)
        if st == "exc":
            rep.fail("read-only::raised::" + name.split("(")[0], f"{name} raised {type(r).__name__}: {r}", inp)
            continue
        if name.startswith("to_subdiagram"):
            subs.append((name, r))
        after = snapshot(d)
        if after != before or observed_edges(d) != before_edges:
            rep.fail("frame::" + name.split("(")[0], f"{name} changed the diagram it was called on: "
                     f"{len(before[1])} edges before, {len(after[1])} after", inp)
            before, before_edges = after, observed_edges(d)
        st1, after_q = guarded(lambda: observe_queries(d))
        if st0 == "ok" and st1 == "ok" and after_q != before_q:
            diff = [k for k in before_q if before_q[k] != after_q.get(k)]
            rep.fail("frame::answers-change::" + name.split("(")[0], f"after {name} the diagram answers {diff[:3]} differently: "
                     f"{[(before_q[k], after_q.get(k)) for k in diff[:1]]}", inp)
            before_q = after_q
        rep.case(("op", name), sample=None)
    # reading the DERIVED views must not change what the original answers either (shared caches)
    for name, sub in subs:
        st, _ = guarded(lambda: [(sub.get_out_edges(w), list(sub.get_outgoing_relations(w.clazz)), sub.parent_map, sub.all_ancestors(w.index),
                                  sub.get_role_taker_associations_of_cls(w), sub.get_assoc_keys_by_source(True), sub.associations) for w in sub.wrapped_classes])
        st1, after_q = guarded(lambda: observe_queries(d))
        if st0 == "ok" and st1 == "ok" and after_q != before_q:
            diff = [k for k in before_q if before_q[k] != after_q.get(k)]
            rep.fail("frame::answers-change::reading-the-derived-view", f"after reading {name}'s result the ORIGINAL diagram answers {diff[:3]} differently", inp)
            before_q = after_q
        if snapshot(d) != before or observed_edges(d) != before_edges:
            rep.fail("frame::reading-the-derived-view", f"reading {name}'s result changed the original diagram", inp)
    # a FRESH diagram whose derived view is read before the original: the original's answers must still describe its own graph
    st, d2 = guarded(lambda: ClassDiagram([classes[n] for n in names_in_order]))
    if st == "ok":
        st, _ = guarded(lambda: [[(s2.get_out_edges(w), list(s2.get_outgoing_relations(w.clazz)), s2.get_role_taker_associations_of_cls(w)) for w in s2.wrapped_classes]
                                 for s2 in (d2.to_subdiagram_without_inherited_associations(True), d2.to_subdiagram_without_inherited_associations(False))])
        g2 = d2._dependency_graph
        for w in d2.wrapped_classes:
            st, got = guarded(lambda: sorted(id(e) for e in d2.get_out_edges(w)))
            want = sorted(id(e) for _, _, e in g2.out_edges(w.index))
            if st == "ok" and got != want:
                rep.fail("frame::answers-change::original-after-reading-a-derived-view-first",
                         f"get_out_edges({w.clazz.__name__}) of the original lists {len(got)} relations, its graph has {len(want)} (a derived view was read first)", inp)
                break
    # The CONTENT of the derived view is not part of C17 (only that the source diagram stays intact); with parallel edges
    # between two classes the derived view is in fact unreliable (edge_list()/get_edge_data(u, v) see one of them) - noted in
    # DESIGN.md, not checked here.
    return d


def ancestors(by, c):
    seen, stack = [], list(by[c]["bases"])
    while stack:
        n = stack.pop()
        if n not in seen:
            seen.append(n)
            stack.extend(by[n]["bases"])
    return seen


def kind_of(by, c, fname):
    """Relation class the key uses: HasRoleTaker for the role-taker field of a Role (also in Role subclasses)."""
    for k in [c] + ancestors(by, c):
        if by[k]["role_of"] is not None and fname.startswith("taker"):
            return "HasRoleTaker"
    return "Association"


def ann_kind(t):
    if t[0] in ("opt",):
        return "opt-" + t[1][0]
    if t[0] == "cont":
        return t[1] + "-" + t[2][0]
    return t[0]


def check_field(wf, t, e, classes, inp, cname):
    who = f"{cname}.{wf.field.name}: {ann_src(t)}"
    kind = ann_kind(t)

    def get(attr):
        st, v = guarded(lambda: getattr(wf, attr))
        if st == "exc":
            rep.fail(f"classification::{attr}::raised::{kind}", f"{who}: {attr} raised {type(v).__name__}: {v}", dict(inp, field=who))
            return None
        return v
    table = [("is_builtin_type", e["builtin"]), ("is_optional", e["optional"]), ("is_enum", e["enum"]),
             ("is_container", e["container"]), ("is_one_to_one_relationship", e["one_to_one"]),
             ("is_one_to_many_relationship", e["one_to_many"]), ("is_type_type", e["type_type"])]
    for attr, want in table:
        if want is None:
            continue
        v = get(attr)
        if v is not None and bool(v) != want:
            rep.fail(f"classification::{attr}::{kind}", f"{who}: {attr} is {v!r}, the annotation says {want}", dict(inp, field=who))
    ep = get("type_endpoint")
    want_ep = BUILTINS[e["endpoint"][1]] if e["endpoint"][0] == "b" else classes[e["endpoint"][1]]
    if ep is not None and ep is not want_ep:
        rep.fail(f"classification::type_endpoint::{kind}", f"{who}: type_endpoint is {ep!r}, expected {want_ep!r}", dict(inp, field=who))
    ct = get("container_type") if e["container"] else None
    if e["container"] and ct is not e["container_type"]:
        rep.fail(f"classification::container_type::{kind}", f"{who}: container_type is {ct!r}, expected {e['container_type']!r}", dict(inp, field=who))
    if "collection_of_builtins" in e:
        v = get("is_collection_of_builtins")
        if v is not None and bool(v) != e["collection_of_builtins"]:
            rep.fail(f"classification::is_collection_of_builtins::{kind}", f"{who}: is_collection_of_builtins is {v!r}", dict(inp, field=who))


def cleanup(mod_names):
    for m in mod_names:
        sys.modules.pop(m, None)


def run_model(model):
    try:
        classes, mods = build(model)
    except TypeError as e:
        if "MRO" in str(e) or "duplicate base" in str(e):
            return          # the generator drew an impossible base list; not a case
        raise
    try:
        names = [c["name"] for c in model["classes"]]
        orders = [("declared", names), ("reversed", names[::-1])]
        r = random.Random(model["uid"])
        sh = names[:]
        r.shuffle(sh)
        orders.append(("shuffled", sh))
        if len(names) > 1:
            orders.append(("subset", sh[: max(1, len(sh) // 2)]))
        for oname, order in orders:
            check_model(model, oname, order, classes, None)
            rep.case(("model", model["uid"], oname), sample={"classes": len(names), "order": oname} if model["uid"] < 3 else None)
    finally:
        cleanup(mods)


def scripted():
    """Shapes the random generator reaches only rarely, spelt out."""
    out = []
    uid = next(COUNTER)
    A, B, C, D = (f"S{uid}{x}" for x in "ABCD")
    E0, E1 = f"E{uid}x0", f"E{uid}x1"
    # diamond + inherited association + same-target twice + self reference + cross module mutual reference
    out.append(dict(uid=uid, enums=[E0, E1], classes=[
        dict(name=A, bases=[], module=0, role_of=None, fields=[("to_d", ("c", D), None), ("self_ref", ("opt", ("c", A)), "None"),
                                                                   ("many_d", ("cont", "List", ("c", D)), "field(default_factory=list)")]),
        dict(name=B, bases=[A], module=0, role_of=None, fields=[("other_d", ("c", D), "None"), ("e", ("e", E0), "None")]),
        dict(name=C, bases=[A], module=0, role_of=None, fields=[("t", ("type", D), "None"), ("oe", ("opt", ("e", E1)), "None")]),
        dict(name=D, bases=[], module=1, role_of=None, fields=[("back", ("opt", ("c", A)), "None"), ("xs", ("cont", "Set", ("b", "int")), "field(default_factory=set)"),
                                                                   ("_hidden", ("c", A), "None"), ("when", ("b", "datetime"), "None")]),
    ]))
    uid = next(COUNTER)
    P, R, R2, Q = (f"S{uid}{x}" for x in "PRSQ")
    out.append(dict(uid=uid, enums=[f"E{uid}x0", f"E{uid}x1"], classes=[
        dict(name=P, bases=[], module=0, role_of=None, fields=[("name", ("b", "str"), None)]),
        dict(name=R, bases=[], module=0, role_of=P, fields=[("taker", ("c", P), None), ("boss", ("opt", ("c", P)), "None")]),
        dict(name=R2, bases=[R], module=0, role_of=None, fields=[("friends", ("cont", "Sequence", ("c", P)), "field(default_factory=list)")]),
        dict(name=Q, bases=[], module=0, role_of=R, fields=[("taker", ("c", R), None)]),
    ]))
    return out


N = {"quick": 150, "thorough": 3000}.get(a.tier, 150)
for m in scripted():
    run_model(m)
for i in range(N):
    n = rng.randrange(1, 6)
    run_model(gen_model(rng, n, cross_module=(i % 3 == 0)))
rep.finish()
