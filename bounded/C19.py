"""Bounded stand-in + native spot-validation of the assumed builtin contracts used by contracts/C19.py."""
import importlib
import itertools
from common import args, Report, guarded

from krrood.adapters import json_serializer as js

a = args()
rep = Report("C19", "corpus of type tags: every JSON type, empty/odd dotted strings, names of modules/functions/typevars/"
             "non-serialisable and serialisable classes, composed with 4 module prefixes; plus native validation of "
             "the assumed builtin contracts", a.out)

ATOMS = ["", ".", "..", "x", "os", "os.path", "json", "json.decoder", "typing", "typing.T", "typing.Any", "os.getcwd", "builtins.int",
         "uuid.UUID", "uuid.uuid4", "krrood", "krrood.adapters.json_serializer.SubclassJSONSerializer",
         "krrood.adapters.json_serializer.JSON_TYPE_NAME", "krrood.adapters.json_serializer.leaf_types",
         "krrood.adapters.json_serializer.JSONSerializableTypeRegistry", "krrood.adapters.json_serializer.from_json",
         "collections.abc", "a b.c", "os.path.", ".os", "os..path", "1.2", " ", "é.é", "sys.modules", "sys.maxsize",
         "os.environ", "typing.List", "abc.ABC", "enum.Enum", "test.dataset.example_classes.Position"]
# modules that EXIST but fail while being imported (a missing dependency, a platform-specific module, an error at import time)
import os as _os, sys as _sys, tempfile as _tempfile
_TMP = _tempfile.mkdtemp(prefix="c19_")
_sys.path.insert(0, _TMP)
for _name, _body in (("c19_needs_missing_dependency", "import c19_this_dependency_does_not_exist\nclass X: pass\n"),
                     ("c19_raises_import_error", "raise ImportError('cannot set up')\n")):
    with open(_os.path.join(_TMP, _name + ".py"), "w") as _f:
        _f.write(_body)
ATOMS += ["c19_needs_missing_dependency.X", "c19_raises_import_error.X", "multiprocessing.popen_spawn_win32.Popen", "json.__all__", "sys.path"]
tags = [None, True, False, 0, 5, -1, 1.5, 0.0, float("inf"), [], ["a"], ["a.b"], {}, {"a": 1}, [None]] + ATOMS
if a.tier == "thorough":
    tags += [x + "." + y for x, y in itertools.product(["", "os", "json", "krrood.adapters", "nonexistent_mod_xyz"], ["", "x", "path", "JSONDecoder", "json_serializer", "T"])]

import uuid


class TrackedUUID(uuid.UUID):
    """An unregistered subclass of a registered third-party type (tag: __main__.TrackedUUID)."""


class Thing(js.SubclassJSONSerializer):
    """a module-level serialisable class: the legitimate hand-over target, and a RECEIVER of from_json"""

    def __init__(self, v=None):
        self.v = v

    def to_json(self):
        return {**super().to_json(), "v": self.v}

    @classmethod
    def _from_json(cls, data, **kwargs):
        return cls(data.get("v"))


class SubThing(Thing):
    pass


def _classes_the_module_does_not_expose():
    """serialisable classes that EXIST (they were created, they are loaded) but that their module does not expose under their name"""
    class Reading(Thing):          # defined inside a function: the module has no attribute `Reading`
        pass

    class Marker(Thing):           # the module attribute of that name is something else (a string)
        pass
    return Reading, Marker


_HIDDEN_READING, _HIDDEN_MARKER = _classes_the_module_does_not_expose()
Marker = "not a class"


class Gone(Thing):                 # created at module level, then removed from the module
    pass


_GONE = Gone
del Gone
tags += ["__main__.TrackedUUID", "__main__.MISSING", "__main__.rep", "builtins.None", "builtins.Ellipsis", "builtins.True",
         "__main__.Thing", "__main__.SubThing", "__main__.Reading", "__main__.Marker", "__main__.Gone", "__main__._HIDDEN_READING", "__main__._GONE"]
MISSING = object()
RECEIVERS = [("module-level from_json", js.from_json), ("SubclassJSONSerializer.from_json", js.SubclassJSONSerializer.from_json),
             ("Thing.from_json", Thing.from_json), ("SubThing.from_json", SubThing.from_json), ("a hidden class .from_json", _HIDDEN_READING.from_json)]


def resolve_like_the_documentation(t):
    """(target, why-not): the object the tag names, found by importing the module part and reading the attribute"""
    try:
        mod, _, name = t.rpartition(".")
        return getattr(importlib.import_module(mod), name), None
    except Exception as e:
        return None, e


for (recv_name, recv), t in itertools.product(RECEIVERS, [MISSING] + tags):
    data = {"payload": 1} if t is MISSING else {js.JSON_TYPE_NAME: t, "value": "12345678-1234-5678-1234-567812345678"}
    st, r = guarded(lambda: recv(data))
    st_again, r_again = guarded(lambda: recv(dict(data)))
    rk = "" if recv_name.startswith("module") else f"[{recv_name}]"
    if (st, type(r)) != (st_again, type(r_again)):
        rep.fail(f"unstable::{type(r_again).__name__}{rk}", f"tag {t!r}: first call {st} {type(r).__name__}, second call {st_again} {type(r_again).__name__}: {r_again}", {"tag": repr(t), "receiver": recv_name})
    rep.case((recv_name, repr(t)), sample={"tag": repr(t), "receiver": recv_name, "outcome": type(r).__name__ if st == "exc" else "returned " + type(r).__name__})
    target, why_not = resolve_like_the_documentation(t) if isinstance(t, str) else (None, "not a string")
    reg = js.JSONSerializableTypeRegistry()
    deserialisable = isinstance(target, type) and (issubclass(target, js.SubclassJSONSerializer) or target in reg._deserializers)
    if st == "exc" and not isinstance(r, js.JSONSerializationError) and deserialisable:
        pass   # raised by the class's own _from_json / registered deserialiser after a legitimate hand-over: outside C19
    elif st == "exc" and not isinstance(r, js.JSONSerializationError):
        rep.fail(f"escape::{type(r).__name__}{rk}", f"{recv_name}, tag {t!r}: {type(r).__name__}: {r}", {"tag": repr(t), "receiver": recv_name})
    elif st == "ok":
        # a value may only come from a SubclassJSONSerializer subclass or a registered deserialiser THAT THE TAG NAMES
        if not deserialisable:
            rep.fail(f"wrong-object{rk}", f"{recv_name}, tag {t!r} (names {'nothing: ' + repr(why_not) if target is None else repr(target)}) returned {r!r}", {"tag": repr(t), "receiver": recv_name})
        elif type(r) is not target:
            rep.fail(f"wrong-object{rk}", f"{recv_name}, tag {t!r} returned an object of {type(r).__name__}", {"tag": repr(t), "receiver": recv_name})
    elif t is MISSING or t is None:
        if type(r) is not js.MissingTypeError:
            rep.fail(f"mapping::missing{rk}", f"{recv_name}, tag {t!r}: {type(r).__name__}", {"tag": repr(t), "receiver": recv_name})
    elif isinstance(t, str) and target is None and isinstance(why_not, AttributeError) and type(r) is not js.ClassNotFoundError:
        rep.fail(f"mapping::class-not-found{rk}", f"{recv_name}, tag {t!r} (the module has no such attribute): {type(r).__name__}", {"tag": repr(t), "receiver": recv_name})
    elif deserialisable:
        rep.fail(f"rejected-a-deserialisable-class{rk}", f"{recv_name}, tag {t!r}: {type(r).__name__}: {r}", {"tag": repr(t), "receiver": recv_name})

# ---- assumed builtin contracts (ASSUMPTIONS of contracts/C19.py)
def assume(name, ok):
    rep.case(("assumption", name))
    if not ok:
        rep.fail(f"assumption::{name}", f"assumed builtin contract does not hold natively: {name}", {})

for v in (5, 1.5, True, ["a"], {"a": 1}):
    assume("non-str has no rsplit", not hasattr(v, "rsplit"))
for s in ("", "a", ".", "a.b", "a.b.c", "..", "a."):
    parts = s.rsplit(".", 1)
    assume("rsplit shape", (len(parts) == 1) == ("." not in s) and (len(parts) == 1 or (s == parts[0] + "." + parts[1] and "." not in parts[1])))
st, r = guarded(lambda: (lambda x, y: None)(*["a"]))
st2, r2 = guarded(lambda: exec("a, b = ['x']"))
assume("unpack length 1 into 2 raises ValueError", st2 == "exc" and isinstance(r2, ValueError))
st, r = guarded(lambda: importlib.import_module(""))
assume("import_module('') raises ValueError", st == "exc" and isinstance(r, ValueError))
st, r = guarded(lambda: importlib.import_module(".x"))
assume("import_module('.x') raises TypeError", st == "exc" and isinstance(r, TypeError))
st, r = guarded(lambda: importlib.import_module("nonexistent_mod_xyz"))
assume("unknown module raises ModuleNotFoundError", st == "exc" and isinstance(r, ModuleNotFoundError))
import os
st, r = guarded(lambda: issubclass(os.getcwd, js.SubclassJSONSerializer))
assume("issubclass(non-class) raises TypeError", st == "exc" and isinstance(r, TypeError))
rep.finish(exhaustive=True)
