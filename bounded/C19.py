"""Bounded stand-in + native spot-validation of the assumed builtin contracts used by contracts/C19.py."""
import importlib
import itertools
from common import args, Report, guarded

from krrood.adapters import json_serializer as js

a = args()
rep = Report("C19", "corpus of type tags: every JSON type, empty/odd dotted strings, names of modules/functions/typevars/"
             "non-serialisable and serialisable classes, composed with 4 module prefixes; plus native validation of "
             "the assumed builtin contracts", a.out)

ATOMS = ["", ".", "..", "x", "os", "os.path", "json", "json.decoder", "typing", "typing.T", "typing.Any", "os.getcwd", "builtins.int",
         "uuid.UUID", "uuid.uuid4", "krrood", "krrood.adapters.json_serializer.SubclassJSONSerializer",
         "krrood.adapters.json_serializer.JSON_TYPE_NAME", "krrood.adapters.json_serializer.leaf_types",
         "krrood.adapters.json_serializer.JSONSerializableTypeRegistry", "krrood.adapters.json_serializer.from_json",
         "collections.abc", "a b.c", "os.path.", ".os", "os..path", "1.2", " ", "é.é", "sys.modules", "sys.maxsize",
         "os.environ", "typing.List", "abc.ABC", "enum.Enum", "test.dataset.example_classes.Position"]
# modules that EXIST but fail while being imported (a missing dependency, a platform-specific module, an error at import time)
import os as _os, sys as _sys, tempfile as _tempfile
_TMP = _tempfile.mkdtemp(prefix="c19_")
_sys.path.insert(0, _TMP)
for _name, _body in (("c19_needs_missing_dependency", "import c19_this_dependency_does_not_exist\nclass X: pass\n"),
                     ("c19_raises_import_error", "raise ImportError('cannot set up')\n")):
    with open(_os.path.join(_TMP, _name + ".py"), "w") as _f:
        _f.write(_body)
ATOMS += ["c19_needs_missing_dependency.X", "c19_raises_import_error.X", "multiprocessing.popen_spawn_win32.Popen", "json.__all__", "sys.path"]
tags = [None, True, False, 0, 5, -1, 1.5, 0.0, float("inf"), [], ["a"], ["a.b"], {}, {"a": 1}, [None]] + ATOMS
if a.tier == "thorough":
    tags += [x + "." + y for x, y in itertools.product(["", "os", "json", "krrood.adapters", "nonexistent_mod_xyz"], ["", "x", "path", "JSONDecoder", "json_serializer", "T"])]

import uuid


class TrackedUUID(uuid.UUID):
    """An unregistered subclass of a registered third-party type (tag: __main__.TrackedUUID)."""


tags += ["__main__.TrackedUUID", "__main__.MISSING", "__main__.rep", "builtins.None", "builtins.Ellipsis", "builtins.True"]
MISSING = object()
for t in [MISSING] + tags:
    data = {"payload": 1} if t is MISSING else {js.JSON_TYPE_NAME: t, "value": "12345678-1234-5678-1234-567812345678"}
    st, r = guarded(lambda: js.from_json(data))
    st_again, r_again = guarded(lambda: js.from_json(dict(data)))
    if (st, type(r)) != (st_again, type(r_again)):
        rep.fail(f"unstable::{type(r_again).__name__}", f"tag {t!r}: first call {st} {type(r).__name__}, second call {st_again} {type(r_again).__name__}: {r_again}", {"tag": repr(t)})
    rep.case(repr(t), sample={"tag": repr(t), "outcome": type(r).__name__ if st == "exc" else "returned " + type(r).__name__})
    def hands_over(t):
        try:
            mod, _, name = t.rpartition(".")
            target = getattr(importlib.import_module(mod), name)
            return isinstance(target, type) and (issubclass(target, js.SubclassJSONSerializer) or bool(js.JSONSerializableTypeRegistry().get_deserializer(target)))
        except Exception:
            return False
    if st == "exc" and not isinstance(r, js.JSONSerializationError) and isinstance(t, str) and hands_over(t):
        pass   # raised by the class's own _from_json / registered deserialiser after a legitimate hand-over: outside C19
    elif st == "exc" and not isinstance(r, js.JSONSerializationError):
        rep.fail(f"escape::{type(r).__name__}", f"tag {t!r}: {type(r).__name__}: {r}", {"tag": repr(t)})
    elif st == "ok":
        # a value may only come from a SubclassJSONSerializer subclass or a registered deserialiser
        mod, _, name = t.rpartition(".")
        target = getattr(importlib.import_module(mod), name)
        reg = js.JSONSerializableTypeRegistry()
        if not (isinstance(target, type) and (issubclass(target, js.SubclassJSONSerializer) or target in reg._deserializers)):
            rep.fail("wrong-object", f"tag {t!r} returned {r!r}", {"tag": repr(t)})
        elif not isinstance(r, target):
            rep.fail("wrong-object", f"tag {t!r} returned an object of {type(r).__name__}", {"tag": repr(t)})
    elif t is MISSING or t is None:
        if type(r) is not js.MissingTypeError:
            rep.fail("mapping::missing", f"tag {t!r}: {type(r).__name__}", {"tag": repr(t)})

# ---- assumed builtin contracts (ASSUMPTIONS of contracts/C19.py)
def assume(name, ok):
    rep.case(("assumption", name))
    if not ok:
        rep.fail(f"assumption::{name}", f"assumed builtin contract does not hold natively: {name}", {})

for v in (5, 1.5, True, ["a"], {"a": 1}):
    assume("non-str has no rsplit", not hasattr(v, "rsplit"))
for s in ("", "a", ".", "a.b", "a.b.c", "..", "a."):
    parts = s.rsplit(".", 1)
    assume("rsplit shape", (len(parts) == 1) == ("." not in s) and (len(parts) == 1 or (s == parts[0] + "." + parts[1] and "." not in parts[1])))
st, r = guarded(lambda: (lambda x, y: None)(*["a"]))
st2, r2 = guarded(lambda: exec("a, b = ['x']"))
assume("unpack length 1 into 2 raises ValueError", st2 == "exc" and isinstance(r2, ValueError))
st, r = guarded(lambda: importlib.import_module(""))
assume("import_module('') raises ValueError", st == "exc" and isinstance(r, ValueError))
st, r = guarded(lambda: importlib.import_module(".x"))
assume("import_module('.x') raises TypeError", st == "exc" and isinstance(r, TypeError))
st, r = guarded(lambda: importlib.import_module("nonexistent_mod_xyz"))
assume("unknown module raises ModuleNotFoundError", st == "exc" and isinstance(r, ModuleNotFoundError))
import os
st, r = guarded(lambda: issubclass(os.getcwd, js.SubclassJSONSerializer))
assume("issubclass(non-class) raises TypeError", st == "exc" and isinstance(r, TypeError))
rep.finish(exhaustive=True)
