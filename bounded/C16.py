"""Bounded stand-in for C16: sequences of write operations on the managed fields of the university dataset
(Person.member_of: List[Company], Company.members: Set[Person]) vs a plain Python list/set model; after every operation the
field contents must equal the model and the symbol graph must hold the relations (incl. inverse inferences) that
appending the same elements one by one to a fresh object produces."""
import itertools
from common import args, Report, guarded

from test.dataset.university_ontology_like_classes import Company, Person
from krrood.entity_query_language.symbol_graph import SymbolGraph

a = args()
DEPTH = 2 if a.tier == "quick" else 3
rep = Report("C16", f"every sequence of <= {DEPTH} write operations (assign new / assign self / += / |= / append / extend / insert / "
             "item assignment / add / update, with repeated and fresh elements) on a list field and a set field", a.out)

LIST_OPS = {
    "assign[]": (lambda p, C: setattr(p, "member_of", []), lambda m, C: []),
    "assign[c0,c1]": (lambda p, C: setattr(p, "member_of", [C[0], C[1]]), lambda m, C: [C[0], C[1]]),
    "assign[c2,c0,c1]": (lambda p, C: setattr(p, "member_of", [C[2], C[0], C[1]]), lambda m, C: [C[2], C[0], C[1]]),
    "assign[c1,c1]": (lambda p, C: setattr(p, "member_of", [C[1], C[1]]), lambda m, C: [C[1], C[1]]),
    "assign-tuple": (lambda p, C: setattr(p, "member_of", [C[3], C[2], C[1], C[0]]), lambda m, C: [C[3], C[2], C[1], C[0]]),
    "assign-self": (lambda p, C: setattr(p, "member_of", p.member_of), lambda m, C: list(m)),
    "+=[c2]": (lambda p, C: exec("p.member_of += [C[2]]", {"p": p, "C": C}), lambda m, C: m + [C[2]]),
    "append(c3)": (lambda p, C: p.member_of.append(C[3]), lambda m, C: m + [C[3]]),
    "append(c0)": (lambda p, C: p.member_of.append(C[0]), lambda m, C: m + [C[0]]),
    "extend[c1,c2]": (lambda p, C: p.member_of.extend([C[1], C[2]]), lambda m, C: m + [C[1], C[2]]),
    "insert(0,c3)": (lambda p, C: p.member_of.insert(0, C[3]), lambda m, C: [C[3]] + m),
    "setitem0=c2": (lambda p, C: p.member_of.__setitem__(0, C[2]) if p.member_of else None, lambda m, C: ([C[2]] + m[1:]) if m else m),
    "extend(gen c1,c3)": (lambda p, C: p.member_of.extend(x for x in [C[1], C[3]]), lambda m, C: m + [C[1], C[3]]),
    "setitem0=twin": (lambda p, C: p.member_of.__setitem__(0, C[4]) if p.member_of else None, lambda m, C: ([C[4]] + m[1:]) if m else m),
    "slice[1:2]=[c3,c2]": (lambda p, C: p.member_of.__setitem__(slice(1, 2), [C[3], C[2]]), lambda m, C: m[:1] + [C[3], C[2]] + m[2:]),
    "slice[0:0]=[c1]": (lambda p, C: p.member_of.__setitem__(slice(0, 0), [C[1]]), lambda m, C: [C[1]] + m),
    "assign-reversed-self": (lambda p, C: setattr(p, "member_of", reversed(p.member_of)), lambda m, C: list(reversed(m))),
    "assign-gen-over-self": (lambda p, C: setattr(p, "member_of", (x for x in p.member_of)), lambda m, C: list(m)),
    "assign-chain-self+c2": (lambda p, C: setattr(p, "member_of", itertools.chain(p.member_of, [C[2]])), lambda m, C: list(m) + [C[2]]),
}
SET_OPS = {
    "assign{}": (lambda c, P: setattr(c, "members", set()), lambda m, P: set()),
    "assign{p0,p1}": (lambda c, P: setattr(c, "members", {P[0], P[1]}), lambda m, P: {P[0], P[1]}),
    "assign-self": (lambda c, P: setattr(c, "members", c.members), lambda m, P: set(m)),
    "|={p2}": (lambda c, P: exec("c.members |= {P[2]}", {"c": c, "P": P}), lambda m, P: m | {P[2]}),
    "|={p0}": (lambda c, P: exec("c.members |= {P[0]}", {"c": c, "P": P}), lambda m, P: m | {P[0]}),
    "add(p3)": (lambda c, P: c.members.add(P[3]), lambda m, P: m | {P[3]}),
    "add(p0)": (lambda c, P: c.members.add(P[0]), lambda m, P: m | {P[0]}),
    "update{p1,p2}": (lambda c, P: c.members.update({P[1], P[2]}), lambda m, P: m | {P[1], P[2]}),
    "update[p3,p3]": (lambda c, P: c.members.update([P[3], P[3]]), lambda m, P: m | {P[3]}),
    "update(gen p1,p2)": (lambda c, P: c.members.update(x for x in [P[1], P[2]]), lambda m, P: m | {P[1], P[2]}),
    "assign-gen-over-self": (lambda c, P: setattr(c, "members", (x for x in c.members)), lambda m, P: set(m)),
    "assign-filter-self": (lambda c, P: setattr(c, "members", filter(lambda x: True, c.members)), lambda m, P: set(m)),
}


def fresh():
    SymbolGraph().clear()
    SymbolGraph()
    C = [Company(name=f"c{i}") for i in range(4)] + [Company(name="c0")]     # C[4] is a value-equal twin of C[0]
    P = [Person(name=f"p{i}") for i in range(4)]
    return C, P


def relations():
    out = set()
    for r in SymbolGraph().relations():
        s, t = r.source.instance, r.target.instance
        out.add((type(s).__name__, s.name, r.wrapped_field.name, type(t).__name__, t.name))
    return out


def category(name):
    return name.split("[")[0].split("(")[0].split("{")[0].rstrip("0123456789=")


for kind, OPS in (("list", LIST_OPS), ("set", SET_OPS)):
    for seq in itertools.chain.from_iterable(itertools.product(OPS, repeat=d) for d in range(1, DEPTH + 1)):
        C, P = fresh()
        owner = P[0] if kind == "list" else C[0]
        others = C if kind == "list" else P
        model = [] if kind == "list" else set()
        ok = True
        for i, op in enumerate(seq):
            do, mod = OPS[op]
            st, r = guarded(lambda: do(owner, others))
            model = mod(model, others)
            have = owner.member_of if kind == "list" else owner.members
            sig = f"{kind}::{category(op)}"
            if st == "exc":
                rep.fail(sig + "::raised", f"{seq[:i+1]}: {type(r).__name__}: {r}", {"ops": list(seq[:i + 1])})
                ok = False
                break
            same = (list(have) == model and all(x is y for x, y in zip(have, model))) if kind == "list" else (set(have) == model and len(have) == len(model))
            if not same:
                rep.fail(sig + "::contents", f"after {list(seq[:i+1])}: field holds {[x.name for x in have]}, python semantics give {[x.name for x in model]}",
                         {"ops": list(seq[:i + 1])})
                ok = False
                break
            # inferences: inverse membership for everything in the field
            for e in model:
                inv = e.members if kind == "list" else e.member_of
                if owner not in inv:
                    rep.fail(sig + "::inference", f"after {list(seq[:i+1])}: {e.name} is in the field but the inverse field of {e.name} lacks {owner.name}",
                             {"ops": list(seq[:i + 1])})
                    ok = False
                    break
            if not ok:
                break
        rep.case((kind, seq), sample={"field": kind, "ops": list(seq)})
        if not ok:
            continue
        # same relations as appending the final elements one by one to a fresh owner (plus relations to elements that
        # were members at some time: krrood never retracts, so compare only on the final elements)
        got = {r for r in relations() if (r[1] == owner.name and r[4] in {e.name for e in model}) or (r[4] == owner.name and r[1] in {e.name for e in model})}
        C2, P2 = fresh()
        owner2 = P2[0] if kind == "list" else C2[0]
        others2 = C2 if kind == "list" else P2
        byname = {o.name: o for o in others2}
        for e in (model if kind == "list" else sorted(model, key=lambda x: x.name)):
            (owner2.member_of.append if kind == "list" else owner2.members.add)(byname[e.name])
        want = {r for r in relations() if r[1] == owner2.name or r[4] == owner2.name}
        if got != want:
            rep.fail(f"{kind}::{category(seq[-1])}::relations", f"after {list(seq)}: graph relations differ from element-wise appending: missing {sorted(want - got)} extra {sorted(got - want)}",
                     {"ops": list(seq)})
# ---- the first write of a field is the one the dataclass constructor performs
C, P = fresh()
st, q = guarded(lambda: Person(name="ctor", member_of=[C[1], C[2]]))
rep.case(("list", "constructor"))
if st == "exc":
    rep.fail("list::constructor::raised", f"Person(member_of=[c1, c2]): {type(q).__name__}: {q}", {"ops": ["constructor"]})
elif [x.name for x in q.member_of] != ["c1", "c2"] or not all(q in c.members for c in (C[1], C[2])):
    rep.fail("list::constructor::inference", f"Person(member_of=[c1, c2]): field {[x.name for x in q.member_of]}, inverse fields {[[m.name for m in c.members] for c in (C[1], C[2])]}", {"ops": ["constructor"]})
st, co = guarded(lambda: Company(name="ctor", members={P[1], P[2]}))
rep.case(("set", "constructor"))
if st == "exc":
    rep.fail("set::constructor::raised", f"Company(members={{p1, p2}}): {type(co).__name__}: {co}", {"ops": ["constructor"]})
elif {x.name for x in co.members} != {"p1", "p2"} or not all(co in p.member_of for p in (P[1], P[2])):
    rep.fail("set::constructor::inference", f"Company(members={{p1, p2}}): field {sorted(x.name for x in co.members)}, inverse fields missing", {"ops": ["constructor"]})
# ---- a container taken from another individual's managed field and handed to a constructor / assigned
C, P = fresh()
P[0].member_of.append(C[1])
P[0].member_of.append(C[2])
st, q = guarded(lambda: Person(name="copy", member_of=P[0].member_of))
rep.case(("list", "handed-over-container"))
if st == "exc":
    rep.fail("list::handed-over-container::raised", f"Person(member_of=p0.member_of): {type(q).__name__}: {q}", {"ops": ["handed-over"]})
else:
    rels = {r for r in relations() if r[1] == "copy" or r[4] == "copy"}
    if [x.name for x in q.member_of] != ["c1", "c2"] or not all(q in c.members for c in (C[1], C[2])) or len([r for r in rels if r[1] == "copy"]) < 2:
        rep.fail("list::handed-over-container::relations", f"Person('copy', member_of=p0.member_of): field {[x.name for x in q.member_of]}, relations of the new person {sorted(rels)}, "
                 f"inverse fields {[[m.name for m in c.members] for c in (C[1], C[2])]}", {"ops": ["handed-over"]})
    else:
        q.member_of.append(C[3])
        if q not in C[3].members or P[0] in C[3].members:
            rep.fail("list::handed-over-container::later-write", f"copy.member_of.append(c3): c3.members = {[m.name for m in C[3].members]}", {"ops": ["handed-over", "append"]})
# ---- elements / owners that are falsy (their class defines __len__): every write is recorded all the same
from dataclasses import dataclass as _dc, field as _field
from typing_extensions import List as _List
from krrood.entity_query_language.predicate import Symbol as _Symbol
from krrood.ontomatic.property_descriptor.property_descriptor import PropertyDescriptor as _PD


@_dc
class Shelf(_Symbol):
    name: str
    load: int = 0
    holds: _List["Shelf"] = _field(default_factory=list)

    def __len__(self):
        return self.load

    def __hash__(self):
        return hash(self.name)


@_dc
class Holds(_PD):
    ...


Shelf.holds = Holds(Shelf, "holds")
for owner_load, elem_load in itertools.product((0, 2), repeat=2):
    SymbolGraph().clear()
    SymbolGraph()
    top, x, y = Shelf("top", owner_load), Shelf("x", elem_load), Shelf("y", elem_load)
    st, r = guarded(lambda: (top.holds.append(x), top.holds.extend([y]), setattr(top, "holds", [y, x])))
    rep.case(("falsy", owner_load, elem_load))
    got = sorted((rel.source.instance.name, rel.target.instance.name) for rel in SymbolGraph().relations())
    if st == "exc":
        rep.fail("list::falsy-instances::raised", f"owner load {owner_load}, element load {elem_load}: {type(r).__name__}: {r}", {"ops": ["falsy"]})
    elif got != [("top", "x"), ("top", "y")] or [s_.name for s_ in top.holds] != ["y", "x"]:
        rep.fail("list::falsy-instances::relations", f"owner with len {owner_load}, elements with len {elem_load}: append, extend, assign recorded {got}, field {[s_.name for s_ in top.holds]}",
                 {"ops": ["falsy"], "owner_len": owner_load, "element_len": elem_load})
SymbolGraph().clear()
rep.finish(exhaustive=True)
