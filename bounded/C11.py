"""Bounded stand-in for C11: patterns (literal / nested match / match_any / match_all / select, depth <= 2) over cabinets,
drawers, handles and containers incl. value-equal twins and empty collections; oracle = a direct Python predicate."""
import itertools
from common import args, Report, guarded

from krrood.entity_query_language.quantify_entity import an
from krrood.entity_query_language.match import match, match_any, match_all, select, select_any, entity_matching, entity_selection
from krrood.entity_query_language.symbolic import UnificationDict
from krrood.entity_query_language.symbol_graph import SymbolGraph
from test.dataset.semantic_world_like_classes import Container, Handle, Cabinet, Drawer, Body, FixedConnection

a = args()
rep = Report("C11", "patterns over Cabinet/Drawer/Handle/Container: literal equality, membership of a literal in a collection attribute, nested match "
             "(type + attributes), match_any / match_all over collection attributes, select; domains with twins (equal drawer lists), empty "
             "collections, subclass-typed attributes", a.out)


def world(k):
    h = [Handle(f"H{i}") for i in range(3)]
    c = [Container(f"C{i}") for i in range(3)]
    d = [Drawer(handle=h[0], container=c[0]), Drawer(handle=h[1], container=c[1]), Drawer(handle=h[2], container=c[0]), Drawer(handle=h[0], container=c[2])]
    if k == 0:
        cabs = [Cabinet(container=c[0], drawers=[d[0], d[1]]), Cabinet(container=c[1], drawers=[d[0], d[1]]), Cabinet(container=c[2], drawers=[])]
    elif k == 1:
        cabs = [Cabinet(container=c[0], drawers=[d[0]]), Cabinet(container=c[0], drawers=[d[0]]), Cabinet(container=c[1], drawers=[d[1], d[2], d[3]]), Cabinet(container=c[2], drawers=[d[3], d[0]])]
    else:
        cabs = [Cabinet(container=c[1], drawers=[d[2]]), Cabinet(container=c[2], drawers=[d[1], d[0], d[2]])]
    return h, c, d, cabs


def ids(xs):
    return sorted(id(x) for x in xs)


PATTERNS = []


def pattern(name):
    def deco(fn):
        PATTERNS.append((name, fn))
        return fn
    return deco


@pattern("cabinet.drawers=match_any")
def _(h, c, d, cabs):
    for L in ([d[0]], [d[1], d[2]], [d[3]], [d[0], d[1], d[2], d[3]]):
        yield (f"{[d.index(x) for x in L]}", lambda: an(entity_matching(Cabinet, cabs)(drawers=match_any(L))), [x for x in cabs if any(e in x.drawers for e in L)], None)


@pattern("cabinet.drawers=match_all")
def _(h, c, d, cabs):
    for L in ([d[0]], [d[0], d[1]], [d[1], d[0]], [d[2]], [d[1], d[2], d[3]]):
        yield (f"{[d.index(x) for x in L]}", lambda: an(entity_matching(Cabinet, cabs)(drawers=match_all(L))), [x for x in cabs if set(map(id, x.drawers)) == set(map(id, L))], None)


@pattern("cabinet.drawers=literal-element")
def _(h, c, d, cabs):
    for e in d:
        yield (f"d{d.index(e)}", lambda: an(entity_matching(Cabinet, cabs)(drawers=e)), [x for x in cabs if e in x.drawers], None)


@pattern("cabinet.container=nested-match")
def _(h, c, d, cabs):
    for n in ("C0", "C1", "nope"):
        yield (n, lambda: an(entity_matching(Cabinet, cabs)(container=match(Container)(name=n))), [x for x in cabs if isinstance(x.container, Container) and x.container.name == n], None)


@pattern("cabinet.drawers=nested-match")
def _(h, c, d, cabs):
    for n in ("H0", "H2", "nope"):
        yield (n, lambda: an(entity_matching(Cabinet, cabs)(drawers=match(Drawer)(handle=match(Handle)(name=n)))),
               [x for x in cabs if any(e.handle.name == n for e in x.drawers)], None)


@pattern("drawer.handle+container")
def _(h, c, d, cabs):
    for n, m in itertools.product(("H0", "H1"), ("C0", "C2")):
        yield (f"{n},{m}", lambda: an(entity_matching(Drawer, d)(handle=match(Handle)(name=n), container=match(Container)(name=m))),
               [x for x in d if x.handle.name == n and x.container.name == m], None)


@pattern("drawer.handle=literal-object")
def _(h, c, d, cabs):
    for e in h:
        yield (e.name, lambda: an(entity_matching(Drawer, d)(handle=e)), [x for x in d if x.handle == e], None)


@pattern("drawer.handle=select")
def _(h, c, d, cabs):
    for n in ("H0", "H1"):
        hs = select(Handle)
        yield (n, lambda: an(entity_selection(Drawer, d)(handle=hs(name=n))), [x for x in d if x.handle.name == n], ("handle", hs))


@pattern("drawer.correct=literal")
def _(h, c, d, cabs):
    """None / False / True are literals like any other (equality with the attribute value)"""
    marked = [Drawer(handle=h[0], container=c[1], correct=True), Drawer(handle=h[1], container=c[2], correct=False), Drawer(handle=h[2], container=c[1], correct=None)] + list(d[:2])
    for v in (None, False, True):
        yield (repr(v), lambda: an(entity_matching(Drawer, marked)(correct=v)), [x for x in marked if x.correct is v], None)
        yield (f"{v!r}+handle", lambda: an(entity_matching(Drawer, marked)(correct=v, handle=match(Handle)(name="H0"))), [x for x in marked if x.correct is v and x.handle.name == "H0"], None)


@pattern("connection.parent=nested-subtype")
def _(h, c, d, cabs):
    """the nested type is a STRICT subtype of the declared attribute type (Body): values of a sibling type do not match, whether the
    inner part is only matched or also selected"""
    conns = [FixedConnection(parent=c[1], child=h[1]), FixedConnection(parent=Handle("C1"), child=c[0]), FixedConnection(parent=c[2], child=h[2]), FixedConnection(parent=h[0], child=c[0])]
    for n in ("C1", "C2", "H0"):
        yield (f"match:{n}", lambda: an(entity_matching(FixedConnection, conns)(parent=match(Container)(name=n))), [x for x in conns if isinstance(x.parent, Container) and x.parent.name == n], None)
    yield ("match:type-only", lambda: an(entity_matching(FixedConnection, conns)(parent=match(Container)())), [x for x in conns if isinstance(x.parent, Container)], None)


@pattern("cabinet.drawers=nested-match-on-a-field-equality-ignores")
def _(h, c, d, cabs):
    """two DISTINCT drawers that compare equal (Drawer.__eq__ ignores `correct`) in one collection: both are looked at"""
    twins = [Cabinet(container=c[0], drawers=[Drawer(handle=h[0], container=c[1], correct=False), Drawer(handle=h[0], container=c[1], correct=True)]),
             Cabinet(container=c[1], drawers=[Drawer(handle=h[1], container=c[1], correct=True), Drawer(handle=h[1], container=c[1], correct=False)]),
             Cabinet(container=c[2], drawers=[Drawer(handle=h[2], container=c[2], correct=False)])]
    for v in (True, False):
        yield (repr(v), lambda: an(entity_matching(Cabinet, twins)(drawers=match(Drawer)(correct=v))), [x for x in twins if any(e.correct is v for e in x.drawers)], None)


def two_parts_cases(h, c, d, cabs):
    """two selected parts of one element that nothing else binds: every row is ONE element's pair of parts"""
    out = []
    hs, cs = select(Handle), select(Container)
    out.append(("two-parts-of-an-unselected-root", lambda: an(entity_matching(Drawer, d)(handle=hs, container=cs)), (hs, cs), {(id(x.handle), id(x.container)) for x in d}))
    hs2, cs2 = select(Handle), select(Container)
    out.append(("two-parts-below-a-collection", lambda: an(entity_matching(Cabinet, cabs)(drawers=match(Drawer)(handle=hs2, container=cs2))), (hs2, cs2),
                {(id(x.handle), id(x.container)) for cb in cabs for x in cb.drawers}))
    return out


def subtype_select_cases(h, c):
    conns = [FixedConnection(parent=c[1], child=h[1]), FixedConnection(parent=Handle("C1"), child=c[0]), FixedConnection(parent=c[2], child=h[2]), FixedConnection(parent=h[0], child=c[0])]
    out = []
    for n in ("C1", "C2", None):
        conn, part = entity_selection(FixedConnection, conns), select(Container)
        out.append((f"select-subtype:{n}", lambda conn=conn, part=part, n=n: an(conn(parent=part(name=n) if n else part)), (conn, part),
                    {(id(x), id(x.parent)) for x in conns if isinstance(x.parent, Container) and (n is None or x.parent.name == n)}))
    return out


def deep_select_cases(h, c, d, cabs):
    """parts selected one and two nested matches below the root are reported together with the matched element"""
    out = []
    cabinet, handle = entity_selection(Cabinet, cabs), select(Handle)
    out.append(("handle-one-level-deep", lambda: an(cabinet(drawers=match(Drawer)(handle=handle(), container=match(Container)(name="C0")))), (cabinet, handle),
                {(id(cb), id(dr.handle)) for cb in cabs for dr in cb.drawers if dr.container.name == "C0"}))
    cabinet2, hname = entity_selection(Cabinet, cabs), select()
    out.append(("handle-name-two-levels-deep", lambda: an(cabinet2(drawers=match(Drawer)(container=match(Container)(name="C0"), handle=match(Handle)(name=hname)))), (cabinet2, hname),
                {(id(cb), dr.handle.name) for cb in cabs for dr in cb.drawers if dr.container.name == "C0"}))
    return out


for k in range(3):
    h, c, d, cabs = world(k)
    SymbolGraph()
    for label, build, sels, want in deep_select_cases(h, c, d, cabs) + subtype_select_cases(h, c) + two_parts_cases(h, c, d, cabs):
        st, got = guarded(lambda: list(build().evaluate()))
        rep.case((k, "deep-select", label), nontrivial=bool(want), sample={"world": k, "pattern": "deep-select", "argument": label})
        inp = {"world": k, "pattern": "deep-select", "argument": label}
        if st == "exc":
            rep.fail(f"raised::deep-select::{label}", f"world {k} {label}: {type(got).__name__}: {got}", inp)
            continue
        if any(not isinstance(r, UnificationDict) for r in got):
            rep.fail(f"select-shape::deep-select::{label}", f"world {k} {label}: a result is not a binding of the selected parts: {got[:2]!r}", inp)
            continue
        found = {tuple(r[s_] if isinstance(r[s_], str) else id(r[s_]) for s_ in sels) for r in got}
        if found != want:
            rep.fail(f"inconsistent-selection::deep-select::{label}", f"world {k} {label}: {len(found - want)} reported pairs are wrong, {len(want - found)} missing", inp)
    # the selecting forms constrain exactly like the matching ones: select_any / select_all on a scalar and on a collection attribute
    for label, sel_form, match_form in (
            ("drawer.container=any[C1,C2]", lambda: an(entity_matching(Drawer, d)(container=select_any([c[1], c[2]]))), lambda: an(entity_matching(Drawer, d)(container=match_any([c[1], c[2]])))),
            ("drawer.handle=any[H1]", lambda: an(entity_matching(Drawer, d)(handle=select_any([h[1]]))), lambda: an(entity_matching(Drawer, d)(handle=match_any([h[1]]))))):
        st_s, got_s = guarded(lambda: list(sel_form().evaluate()))
        st_m, got_m = guarded(lambda: list(match_form().evaluate()))
        rep.case((k, "select-vs-match", label), sample={"world": k, "pattern": "select-vs-match", "argument": label})
        want_n = len([x for x in d if (x.container in (c[1], c[2]) if "container" in label else x.handle is h[1])])
        if st_s == "exc" or st_m == "exc":
            rep.fail("raised::select-vs-match", f"world {k} {label}: {got_s if st_s == 'exc' else got_m!r}", {"world": k, "pattern": label})
        elif len(got_m) != want_n or len(got_s) != want_n:
            rep.fail("select-disagrees-with-match::" + label.split("=")[0], f"world {k} {label}: match_any returns {len(got_m)}, select_any {len(got_s)}, {want_n} elements satisfy", {"world": k, "pattern": label})
    for pname, gen in PATTERNS:
        for label, build, want, sel in gen(h, c, d, cabs):
            st, got = guarded(lambda: list(build().evaluate()))
            rep.case((k, pname, label), nontrivial=bool(want), sample={"world": k, "pattern": pname, "argument": label})
            inp = {"world": k, "pattern": pname, "argument": label}
            if st == "exc":
                rep.fail(f"raised::{pname}", f"world {k} {pname}({label}): {type(got).__name__}: {got}", inp)
                continue
            if sel is not None:
                attr, hs = sel
                rows = got
                bad = [r for r in rows if not isinstance(r, UnificationDict)]
                if bad:
                    rep.fail(f"select-shape::{pname}", f"world {k} {pname}({label}): rows are not UnificationDicts: {bad[:2]!r}", inp)
                    continue
                try:
                    keys = [list(r.keys()) for r in rows]
                    ents = [next(v.value for kk, v in r.data.items() if isinstance(v.value, Drawer)) for r in rows]
                    parts = [next(v.value for kk, v in r.data.items() if isinstance(v.value, Handle)) for r in rows]
                except StopIteration:
                    rep.fail(f"select-shape::{pname}", f"world {k} {pname}({label}): a row lacks the matched element or the selected part", inp)
                    continue
                if ids(ents) != ids(want):
                    rep.fail(f"wrong-elements::{pname}", f"world {k} {pname}({label}): returned {len(ents)} elements, {len(want)} satisfy the pattern", inp)
                elif any(getattr(e, attr) is not p for e, p in zip(ents, parts)):
                    rep.fail(f"inconsistent-selection::{pname}", f"world {k} {pname}({label}): a reported inner part is not the matched element's {attr}", inp)
                continue
            if set(ids(got)) != set(ids(want)):
                miss = len(set(ids(want)) - set(ids(got)))
                extra = len(set(ids(got)) - set(ids(want)))
                # are two satisfying elements indistinguishable by the value of the constrained attribute?
                attr = pname.split(".")[1].split("=")[0]
                vals = [getattr(x, attr, None) for x in want]
                twins = any(vals[i] == vals[j] for i in range(len(vals)) for j in range(i + 1, len(vals)))
                rep.fail(f"{'missing' if miss else 'extra'}::{pname}" + ("::satisfying-elements-with-equal-attribute-values" if twins and miss and not extra else ""), f"world {k} {pname}({label}): {miss} satisfying elements missing, {extra} returned elements do not satisfy "
                         f"(returned {len(got)}, expected {len(want)})", inp)
SymbolGraph().clear()
rep.finish(exhaustive=True)
