"""Bounded stand-in for C03: schedules of evaluate()/next() over query objects that share variables / attribute nodes.
Reference = the result sequence the same query text gives when it is the only query of a fresh environment and is evaluated
once.  Schedules: twice in sequence, abandon after k results then evaluate again, two live iterators of the same query stepped
alternately, two queries sharing variables stepped alternately, nested loops (outer x inner), all with list domains and with
one-shot generator domains; rule queries (refinement / alternative / next trees) evaluated twice and interleaved."""
import itertools
import copy
from common import args, Report, guarded
import eqlgen as G

a = args()
rep = Report("C03", "pairs of conditions over 2 shared object variables (13 atoms, and_/or_/not_, exists/for_all) x 3 worlds x "
             "{list, generator} domains x {separate, shared} attribute nodes x 7 schedules; rule trees (7 shapes) x 3 schedules; one query object with exists(selected, flatten(...)) nested / resumed at every cut / alternating x 3 worlds", a.out)

A2 = G.atoms(("x", "y"))
SEL = [("var", "x"), ("var", "y")]


def conditions():
    base = [A2[0], A2[1], A2[3], A2[4], A2[8], A2[9], A2[11], A2[12]]
    for e in base:
        yield e
    yield ("not", A2[8])
    yield ("and", A2[1], A2[6])
    yield ("or", A2[0], A2[9])
    yield ("or", A2[8], A2[2])
    yield ("not", ("or", A2[0], A2[9]))
    yield ("and", ("or", A2[0], A2[5]), A2[9])
    q = ("cmp", "<", ("attr", "x", "a"), ("attr", "u", "a"))
    yield ("exists", "u", q)
    yield ("forall", "u", q)
    yield ("and", A2[5], ("exists", "u", q))


CONDS = list(conditions())
if a.tier != "thorough":
    PAIRS = [(c1, c2) for i, c1 in enumerate(CONDS) for j, c2 in enumerate(CONDS) if (i * 7 + j * 3) % 6 == 0][:40]
else:
    PAIRS = list(itertools.product(CONDS, repeat=2))


def rows_of(env, kind, it, limit=None):
    out = []
    for r in it:
        out.append(tuple(G.key_of_value(r[x]) for x in env.selected_exprs) if kind == "set_of" else (G.key_of_value(r),))
        if limit is not None and len(out) >= limit:
            break
    return out


def row(env, kind, r):
    return tuple(G.key_of_value(r[x]) for x in env.selected_exprs) if kind == "set_of" else (G.key_of_value(r),)


def alone(world, cond, gens, share):
    env = G.Env(world, as_generators=gens, share_attrs=share)
    q, kind = env.query(SEL, cond)
    return [row(env, kind, r) for r in q.evaluate()]


class Two:
    """two queries built in ONE environment (they share the variables x, y, u and - with share - the attribute nodes)"""

    def __init__(self, world, c1, c2, gens, share):
        self.env = G.Env(world, as_generators=gens, share_attrs=share)
        self.q1, self.k1 = self.env.query(SEL, c1)
        self.sel1 = self.env.selected_exprs
        self.q2, self.k2 = self.env.query(SEL, c2)
        self.sel2 = self.env.selected_exprs

    def r1(self, r):
        return tuple(G.key_of_value(r[x]) for x in self.sel1)

    def r2(self, r):
        return tuple(G.key_of_value(r[x]) for x in self.sel2)


def step_alternately(its, conv):
    outs = [[] for _ in its]
    live = [True] * len(its)
    while any(live):
        for i, it in enumerate(its):
            if not live[i]:
                continue
            try:
                outs[i].append(conv[i](next(it)))
            except StopIteration:
                live[i] = False
    return outs


def schedules(world, c1, c2, gens, share, ref1, ref2):
    """yield (schedule name, observed, expected)"""
    # 1 twice in sequence
    t = Two(world, c1, c2, gens, share)
    first = [t.r1(r) for r in t.q1.evaluate()]
    second = [t.r1(r) for r in t.q1.evaluate()]
    yield "sequential-first", first, ref1
    yield "sequential-second", second, ref1
    # 2 abandon after k then again
    for k in (1, 2):
        t = Two(world, c1, c2, gens, share)
        it = iter(t.q1.evaluate())
        got = []
        for _ in range(k):
            try:
                got.append(t.r1(next(it)))
            except StopIteration:
                break
        del it
        yield f"abandon-prefix", got, ref1[:k]
        yield f"abandon-then-again", [t.r1(r) for r in t.q1.evaluate()], ref1
    # 3 two live iterators of the same query
    t = Two(world, c1, c2, gens, share)
    o = step_alternately([iter(t.q1.evaluate()), iter(t.q1.evaluate())], [t.r1, t.r1])
    yield "same-query-two-iterators[0]", o[0], ref1
    yield "same-query-two-iterators[1]", o[1], ref1
    # 4 two queries sharing variables stepped alternately
    t = Two(world, c1, c2, gens, share)
    o = step_alternately([iter(t.q1.evaluate()), iter(t.q2.evaluate())], [t.r1, t.r2])
    yield "two-queries-alternating[0]", o[0], ref1
    yield "two-queries-alternating[1]", o[1], ref2
    # 5 nested loops
    t = Two(world, c1, c2, gens, share)
    outer, inners = [], []
    for r in t.q1.evaluate():
        outer.append(t.r1(r))
        inners.append([t.r2(s) for s in t.q2.evaluate()])
    yield "nested-outer", outer, ref1
    for inner in inners[:3]:
        yield "nested-inner", inner, ref2
    # 6 the other query evaluated completely first
    t = Two(world, c1, c2, gens, share)
    list(t.q2.evaluate())
    yield "after-other-query", [t.r1(r) for r in t.q1.evaluate()], ref1


def run_pair(world_i, world, c1, c2, gens, share):
    st, refs = guarded(lambda: (alone(world, c1, gens, share), alone(world, c2, gens, share)))
    if st == "exc":
        return
    ref1, ref2 = refs
    inp = {"world": world_i, "c1": c1, "c2": c2, "generator_domains": gens, "shared_attribute_nodes": share}
    gen = schedules(world, c1, c2, gens, share, ref1, ref2)
    while True:
        st, item = guarded(lambda: next(gen))
        if st == "exc":
            if isinstance(item, StopIteration):
                break
            rep.fail(f"raised::{'generators' if gens else 'lists'}::{type(item).__name__}", f"schedule raised {type(item).__name__}: {item} ({c1} | {c2})", inp)
            break
        name, got, want = item
        rep.case((world_i, repr(c1), repr(c2), gens, share, name), nontrivial=bool(want))
        if got != want:
            order_only = sorted(got) == sorted(want)
            sig = f"{name.split('[')[0]}::{'generators' if gens else 'lists'}::{'order' if order_only else 'content'}"
            rep.fail(sig, f"{name} ({'generator' if gens else 'list'} domains, {'shared' if share else 'separate'} attribute nodes): "
                     f"query [{c1}] gave {len(got)} rows, alone on a fresh query it gives {len(want)} rows"
                     + (" (same rows, other order)" if order_only else f"; first difference at {next((i for i, (p, q) in enumerate(zip(got, want)) if p != q), min(len(got), len(want)))}"),
                     dict(inp, schedule=name))


WORLDS = G.worlds()[:3]
for wi, world in enumerate(WORLDS):
    for (c1, c2) in PAIRS:
        for gens in (False, True):
            for share in ((False, True) if a.tier == "thorough" else (False,)):
                run_pair(wi, world, c1, c2, gens, share)
    for (c1, c2) in PAIRS[:8]:
        run_pair(wi, world, c1, c2, False, True)

# ------------------------------------------------------------------------------------------- quantified queries
from krrood.entity_query_language.entity import set_of as _set_of, entity as _entity
from krrood.entity_query_language.quantify_entity import an as _an
from krrood.entity_query_language.result_quantification_constraint import AtMost, AtLeast, Exactly, Range


def quantified(world, cond, mk):
    env = G.Env(world)
    sel = [env.operand(s) for s in SEL]
    return env, sel, _an(_set_of(sel, env.build(cond)), quantification=mk)


for wi, world in enumerate(WORLDS[:2]):
    for cond in CONDS[:6]:
        st, ref = guarded(lambda: alone(world, cond, False, False))
        if st == "exc" or not ref:
            continue
        n = len(ref)
        for qname, mk in (("Exactly", Exactly(n)), ("AtMost", AtMost(n)), ("AtLeast", AtLeast(n)), ("Range", Range(AtLeast(1), AtMost(n)))):
            env, sel, q = quantified(world, cond, mk)
            conv = lambda r, sel=sel: tuple(G.key_of_value(r[x]) for x in sel)
            st, o = guarded(lambda: step_alternately([iter(q.evaluate()), iter(q.evaluate())], [conv, conv]))
            inp = {"world": wi, "cond": cond, "quantification": qname, "n": n}
            rep.case(("quantified", wi, repr(cond), qname))
            if st == "exc":
                rep.fail(f"quantified-two-iterators::raised::{type(o).__name__}", f"{qname}({n}) over a query with {n} results, two live iterators stepped alternately: "
                         f"{type(o).__name__}: {str(o)[:120]}", inp)
            elif o[0] != ref or o[1] != ref:
                rep.fail("quantified-two-iterators::content", f"{qname}({n}): iterators gave {len(o[0])} / {len(o[1])} rows, alone {n}", inp)
            env, sel, q = quantified(world, cond, mk)
            conv = lambda r, sel=sel: tuple(G.key_of_value(r[x]) for x in sel)
            it = iter(q.evaluate())
            guarded(lambda: next(it))
            st, again = guarded(lambda: [conv(r) for r in q.evaluate()])       # the first iterator is still open
            if st == "exc":
                rep.fail(f"quantified-nested::raised::{type(again).__name__}", f"{qname}({n}): a second evaluation while the first is open raised {type(again).__name__}", inp)
            elif again != ref:
                rep.fail("quantified-nested::content", f"{qname}({n}): second evaluation gave {len(again)} rows, alone {n}", inp)
            st, rest = guarded(lambda: [conv(r) for r in it])
            if st == "exc":
                rep.fail(f"quantified-resume::raised::{type(rest).__name__}", f"{qname}({n}): resuming the first iterator after another evaluation raised {type(rest).__name__}", inp)
            elif rest != ref[1:]:
                rep.fail("quantified-resume::content", f"{qname}({n}): the resumed iterator gave {len(rest)} further rows, expected {n - 1}", inp)

# ------------------------------------------------------------------------------------------- rule queries
from dataclasses import dataclass
from krrood.entity_query_language.conclusion import Add
from krrood.entity_query_language.entity import let, entity, inference
from krrood.entity_query_language.quantify_entity import an
from krrood.entity_query_language.rule import refinement, alternative, next_rule


@dataclass(eq=False)
class Item:
    a: int


@dataclass(eq=False)
class Base:
    item: Item = None


KINDS = [dataclass(eq=False)(type(f"K{i}", (Base,), {})) for i in range(4)]

RULES = {
    "base": lambda x, v: None,
    "refinement": lambda x, v: _ref(x, v),
    "alternative": lambda x, v: _alt(x, v),
    "next": lambda x, v: _next(x, v),
    "refinement+alternative": lambda x, v: (_ref(x, v), _alt(x, v)),
    "alternative+next": lambda x, v: (_alt(x, v), _next(x, v)),
    "refinement-in-refinement": lambda x, v: _refref(x, v),
}


def _ref(x, v):
    with refinement(x.a >= 2):
        Add(v, inference(KINDS[1])(item=x))


def _alt(x, v):
    with alternative(x.a >= 5, x.a < 7):
        Add(v, inference(KINDS[2])(item=x))


def _next(x, v):
    with next_rule(x.a >= 1, x.a < 3):
        Add(v, inference(KINDS[3])(item=x))


def _refref(x, v):
    with refinement(x.a >= 1):
        Add(v, inference(KINDS[1])(item=x))
        with refinement(x.a >= 3):
            Add(v, inference(KINDS[2])(item=x))


def build_rule(name, gens):
    items = [Item(i) for i in range(8)]
    x = let(Item, (i for i in items) if gens else items)
    q = an(entity(v := inference(Base)(), x.a >= 0, x.a < 5))
    with q:
        Add(v, inference(KINDS[0])(item=x))
        RULES[name](x, v)
    return q


def rr(r):
    return (type(r).__name__, r.item.a)


for name in RULES:
    for gens in (False, True):
        inp = {"rule": name, "generator_domains": gens}
        st, ref = guarded(lambda: [rr(r) for r in build_rule(name, gens).evaluate()])
        if st == "exc":
            rep.fail(f"raised::rule::{name}", f"{name}: {type(ref).__name__}: {ref}", inp)
            continue
        q = build_rule(name, gens)
        st, res = guarded(lambda: ([rr(r) for r in q.evaluate()], [rr(r) for r in q.evaluate()], [rr(r) for r in q.evaluate()]))
        rep.case(("rule", name, gens, "sequential"))
        if st == "exc":
            rep.fail(f"raised::rule-sequential::{'generators' if gens else 'lists'}", f"{name}: {type(res).__name__}: {res}", inp)
        else:
            for i, got in enumerate(res):
                if got != ref:
                    rep.fail(f"rule-sequential-{'first' if i == 0 else 'again'}::{'generators' if gens else 'lists'}::{'order' if sorted(got) == sorted(ref) else 'content'}",
                             f"rule tree '{name}' evaluation #{i + 1} of the same query object: {len(got)} inferred instances, a fresh query gives {len(ref)}", dict(inp, schedule="sequential"))
        q = build_rule(name, gens)
        st, o = guarded(lambda: step_alternately([iter(q.evaluate()), iter(q.evaluate())], [rr, rr]))
        rep.case(("rule", name, gens, "two-iterators"))
        if st == "exc":
            rep.fail(f"raised::rule-two-iterators::{'generators' if gens else 'lists'}", f"{name}: {type(o).__name__}: {o}", inp)
        else:
            for i, got in enumerate(o):
                if got != ref:
                    rep.fail(f"rule-two-iterators::{'generators' if gens else 'lists'}::{'order' if sorted(got) == sorted(ref) else 'content'}",
                             f"rule tree '{name}', two live iterators stepped alternately, iterator {i}: {len(got)} inferred instances, alone {len(ref)}", dict(inp, schedule="two-iterators"))
        for k in range(1, len(ref) + 1):
            q = build_rule(name, gens)
            it = iter(q.evaluate())
            st, _ = guarded(lambda: [next(it) for _ in range(k)])
            guarded(lambda: getattr(it, "close", lambda: None)())
            del it
            st, got = guarded(lambda: [rr(r) for r in q.evaluate()])
            rep.case(("rule", name, gens, "abandon", k))
            if st == "exc":
                rep.fail(f"raised::rule-abandon::{'generators' if gens else 'lists'}", f"{name}: {type(got).__name__}: {got}", inp)
                break
            elif got != ref:
                rep.fail(f"rule-abandon-then-again::{'generators' if gens else 'lists'}::{'order' if sorted(got) == sorted(ref) else 'content'}",
                         f"rule tree '{name}' abandoned after {k} of {len(ref)} results, then evaluated again: {got}, alone {ref}", dict(inp, schedule=f"abandon-{k}"))
                break
# every iterator created FIRST, consumed one after the other afterwards (no two are ever advanced alternately): calling evaluate()
# does nothing yet, whatever an evaluation resets it resets when it starts to be consumed
for name in RULES:
    q = build_rule(name, False)
    st, ref = guarded(lambda: [rr(r) for r in build_rule(name, False).evaluate()])
    if st == "exc":
        continue
    pending = [q.evaluate() for _ in range(3)]
    st, res = guarded(lambda: [[rr(r) for r in it_] for it_ in pending])
    rep.case(("rule", name, "created-first"))
    inp = {"rule": name, "schedule": "three iterators created first, then consumed in order"}
    if st == "exc":
        rep.fail("raised::rule-created-first", f"{name}: {type(res).__name__}: {res}", inp)
    else:
        for i, got in enumerate(res):
            if got != ref:
                rep.fail(f"rule-created-first::{'order' if sorted(got) == sorted(ref) else 'content'}",
                         f"rule tree '{name}': three iterators created first, consumed in order: iterator {i} gives {len(got)} inferred instances, a fresh query {len(ref)}", inp)
                break
# one predicate call shared by two queries in different roles (a condition below and_ in one, an operand of == in the other)
from krrood.entity_query_language.predicate import symbolic_function as _sf
from krrood.entity_query_language.entity import and_ as _and


@_sf
def remainder(v):
    return v % 2


def shared_predicate_queries():
    items = [Item(i) for i in range(6)]
    x = let(Item, items)
    call = remainder(x.a)
    return an(entity(x, _and(call, x.a >= 0))), an(entity(x, call == 0))


st, refs = guarded(lambda: [[r.a for r in q_.evaluate()] for q_ in shared_predicate_queries()])
if st == "ok":
    qa, qb = shared_predicate_queries()
    st, o = guarded(lambda: step_alternately([iter(qa.evaluate()), iter(qb.evaluate())], [lambda r: r.a, lambda r: r.a]))
    rep.case(("shared-predicate", "alternating"))
    if st == "exc":
        rep.fail("raised::shared-predicate-call", f"{type(o).__name__}: {o}", {"schedule": "alternating"})
    else:
        for i, got in enumerate(o):
            if got != refs[i]:
                rep.fail("shared-predicate-call::two-roles", f"a predicate call shared by a condition and by a comparison, iterators stepped alternately: query {i} gives {got}, alone {refs[i]}",
                         {"schedule": "alternating", "query": i})
# one comparison node in two positions of a query and in another query that is evaluated while the first is suspended
def shared_comparison_queries():
    items = [Item(2), Item(0), Item(3), Item(1)]
    others = [Item(7), Item(8)]
    x, y = let(Item, items), let(Item, others)
    c = x.a > 1
    from krrood.entity_query_language.entity import set_of as _set_of
    return an(_set_of([x, y], _and(c, y.a > 0, c))), an(entity(x, c)), x, y


st, ref = guarded(lambda: (lambda q1, q2, x, y: [(r[x].a, r[y].a) for r in q1.evaluate()])(*shared_comparison_queries()))
if st == "ok":
    q1, q2, x, y = shared_comparison_queries()
    rows = []

    def nested_run():
        for r in q1.evaluate():
            rows.append((r[x].a, r[y].a))
            list(q2.evaluate())
    st, e = guarded(nested_run)
    rep.case(("shared-comparison", "nested"))
    if st == "exc":
        rep.fail("raised::shared-comparison", f"{type(e).__name__}: {e}", {"schedule": "nested"})
    elif rows != ref:
        rep.fail("shared-comparison::nested", f"a comparison used twice in q1 and once in q2, q2 evaluated completely after every result of q1: q1 gives {rows}, alone {ref}", {"schedule": "nested"})
# one sub-expression that is the WHOLE condition of one query and an operand of a comparison in another query, evaluated one
# after the other in either order (each reference is a query built alone from fresh nodes)
def whole_condition_and_operand(kind, build):
    items = [Item(1), Item(0), Item(2), Item(0)]
    x = let(Item, items)
    node = {"attribute": lambda: x.a, "call": lambda: remainder(x.a), "variable": lambda: x}[kind]()
    qs = {}
    if "condition" in build:
        qs["condition"] = an(entity(x, node))
    if "operand" in build:
        qs["operand"] = an(entity(x, (node == 0) if kind != "variable" else (node != None)))      # noqa: E711
    return qs


for kind_ in ("attribute", "call", "variable"):
    alone = {}
    for role_ in ("condition", "operand"):
        st, r_ = guarded(lambda: [r.a for r in whole_condition_and_operand(kind_, [role_])[role_].evaluate()])
        alone[role_] = r_ if st == "ok" else None
    for order_ in (("condition", "operand"), ("operand", "condition"), ("condition", "operand", "condition")):
        if any(alone[r] is None for r in order_):
            continue
        qs_ = whole_condition_and_operand(kind_, ["condition", "operand"])
        rep.case(("whole-condition-and-operand", kind_, order_))
        for role_ in order_:
            st, got = guarded(lambda: [r.a for r in qs_[role_].evaluate()])
            if st == "exc":
                rep.fail(f"raised::whole-condition-and-operand::{kind_}", f"{type(got).__name__}: {got}", {"kind": kind_, "order": list(order_)})
                break
            if got != alone[role_]:
                rep.fail(f"whole-condition-and-operand::{kind_}::{role_}", f"one {kind_} node is the whole condition of one query and an operand in another, evaluated in the order {order_}: "
                         f"the query where it is the {role_} gives {got}, built alone {alone[role_]}", {"kind": kind_, "order": list(order_)})
                break
# a rule tree that grows between evaluations (the ripple-down workflow: evaluate, look, add an exception, evaluate again)
for name in RULES:
    if name == "base":
        continue
    inp = {"rule": name, "history": "evaluate, extend the tree, evaluate, evaluate"}
    st, ref = guarded(lambda: [rr(r) for r in build_rule(name, False).evaluate()])
    if st == "exc":
        continue
    items = [Item(i) for i in range(8)]
    x = let(Item, items)
    q = an(entity(v := inference(Base)(), x.a >= 0, x.a < 5))
    with q:
        Add(v, inference(KINDS[0])(item=x))
    st, first = guarded(lambda: [rr(r) for r in q.evaluate()])
    with q:
        RULES[name](x, v)
    st, res = guarded(lambda: ([rr(r) for r in q.evaluate()], [rr(r) for r in q.evaluate()], [rr(r) for r in q.evaluate()]))
    rep.case(("rule", name, "grown"))
    if st == "exc":
        rep.fail("raised::rule-grown", f"rule tree '{name}' extended after a first evaluation, then evaluated: {type(res).__name__}: {res}", inp)
    else:
        for i, got in enumerate(res):
            if got != ref:
                rep.fail(f"rule-grown::{'order' if sorted(got) == sorted(ref) else 'content'}",
                         f"rule tree '{name}' extended after a first evaluation: evaluation #{i + 1} afterwards gives {got}, a fresh query with the same tree {ref}", inp)
                break
# ------------------------------------------------------------------------------------------- a rule over several variables
from krrood.entity_query_language.predicate import Symbol as _Symbol


@dataclass(unsafe_hash=True)
class Part(_Symbol):
    name: str


@dataclass(unsafe_hash=True)
class Knob(Part):
    pass


@dataclass(unsafe_hash=True)
class Joint(_Symbol):
    parent: Part
    child: Part


@dataclass(unsafe_hash=True)
class RigidJoint(Joint):
    pass


@dataclass(unsafe_hash=True)
class HingeJoint(Joint):
    pass


@dataclass(unsafe_hash=True)
class Furniture(_Symbol):
    pass


@dataclass(unsafe_hash=True)
class Box(Furniture):
    knob: Knob
    part: Part


@dataclass(unsafe_hash=True)
class Flap(Furniture):
    knob: Knob
    part: Part


_knobs = [Knob(f"knob{i}") for i in range(1, 5)]
_parts = [Part(f"part{i}") for i in range(1, 5)]
_PARTS = _knobs + _parts
_JOINTS = [RigidJoint(_parts[0], _knobs[0]), RigidJoint(_parts[1], _knobs[1]), HingeJoint(_parts[2], _knobs[2]), RigidJoint(_parts[3], _knobs[3])]


def build_furniture(with_alternative):
    part = let(Part, _PARTS, name="part")
    knob = let(Knob, _PARTS, name="knob")
    rigid = let(RigidJoint, _JOINTS, name="rigid")
    hinge = let(HingeJoint, _JOINTS, name="hinge")
    query = an(entity(furniture := inference(Furniture)(), part == rigid.parent, knob == rigid.child))
    with query:
        Add(furniture, inference(Box)(knob=knob, part=part))
        if with_alternative:
            with alternative(part == hinge.parent, knob == hinge.child):
                Add(furniture, inference(Flap)(knob=knob, part=part))
    return query


def fr_(r):
    return (type(r).__name__, r.knob.name, r.part.name)


for with_alt in (False, True):
    name = "joints" + ("+alternative" if with_alt else "")
    st, ref = guarded(lambda: [fr_(r) for r in build_furniture(with_alt).evaluate()])
    if st == "exc":
        rep.fail(f"raised::rule::{name}", f"{name}: {type(ref).__name__}: {ref}", {"rule": name})
        continue
    q = build_furniture(with_alt)
    for run in range(3):
        st, got = guarded(lambda: [fr_(r) for r in q.evaluate()])
        rep.case(("rule", name, "sequential", run))
        if st == "exc" or got != ref:
            rep.fail("rule-sequential-again::lists::content", f"rule '{name}' evaluation #{run + 1}: {got if st == 'ok' else type(got).__name__}, a fresh query gives {len(ref)} results", {"rule": name, "schedule": "sequential"})
            break
    for k in range(1, len(ref) + 1):
        q = build_furniture(with_alt)
        it = q.evaluate()
        st, taken = guarded(lambda: [fr_(next(it)) for _ in range(k)])
        guarded(lambda: getattr(it, "close", lambda: None)())
        del it
        st2, again = guarded(lambda: [fr_(r) for r in q.evaluate()])
        rep.case(("rule", name, "abandon", k))
        if st == "exc" or taken != ref[:k]:
            rep.fail("rule-abandon-prefix::lists::content", f"rule '{name}': first {k} results are {taken if st == 'ok' else type(taken).__name__}", {"rule": name, "schedule": f"abandon-{k}"})
        elif st2 == "exc" or again != ref:
            rep.fail("rule-abandon-then-again::lists::content", f"rule '{name}' abandoned (closed) after {k} results, then evaluated again: "
                     f"{len(again) if st2 == 'ok' else type(again).__name__} results, alone {len(ref)}", {"rule": name, "schedule": f"abandon-{k}"})
            break

# ---- the selected variable itself under exists(...) over a flattened collection: ONE query object, two evaluations alive at once
def _exists_selected_scenarios():
    from dataclasses import dataclass, field as _field
    from typing import List
    from krrood.entity_query_language.entity import entity, let, exists, flatten
    from krrood.entity_query_language.quantify_entity import an
    from krrood.entity_query_language.predicate import Symbol

    @dataclass(eq=False)
    class PartC03(Symbol):
        weight: int

    @dataclass(eq=False)
    class BoxC03(Symbol):
        name: str
        parts: List[PartC03] = _field(default_factory=list)

    for wname, spec in (("mixed", [[1, 7], [2], [8, 9], [6], [10, 1]]), ("all-hold", [[6], [7, 8], [9]]), ("repeats", [[7, 7], [1], [7], [8, 7]])):
        boxes = [BoxC03(f"b{i}", [PartC03(w) for w in ws]) for i, ws in enumerate(spec)]

        def fresh():
            box = let(BoxC03, domain=list(boxes))
            return an(entity(box, exists(box, flatten(box.parts).weight > 5)))
        st, ref = guarded(lambda: [b.name for b in fresh().evaluate()])
        if st == "exc":
            rep.fail(f"raised::exists-selected::{wname}", f"{type(ref).__name__}: {ref}", {"world": wname}); continue
        q = fresh()
        st, pairs = guarded(lambda: [(x.name, y.name) for x in q.evaluate() for y in q.evaluate()])
        rep.case(("exists-selected", wname, "nested"))
        if st == "exc" or pairs != [(x, y) for x in ref for y in ref]:
            rep.fail("exists-selected::nested::content", f"world {wname}: nested loops over one query with exists(selected, flatten(...)) give "
                     f"{len(pairs) if st == 'ok' else type(pairs).__name__} pairs, {len(ref) ** 2} expected", {"world": wname, "schedule": "nested"})
        for k in range(1, len(ref) + 1):
            q = fresh(); it = q.evaluate()
            st, head = guarded(lambda: [next(it).name for _ in range(k)])
            st2, second = guarded(lambda: [b.name for b in q.evaluate()])
            st3, rest = guarded(lambda: [b.name for b in it])
            rep.case(("exists-selected", wname, "resumed", k))
            if "exc" in (st, st2, st3) or second != ref or head + rest != ref:
                rep.fail("exists-selected::resumed::content", f"world {wname}: iterator held after {k} results, the query evaluated again in between: "
                         f"second={second}, resumed={(head + rest) if 'exc' not in (st, st3) else 'raised'}, alone={ref}", {"world": wname, "schedule": f"resumed-{k}"})
                break
        q = fresh(); i1, i2 = iter(q.evaluate()), iter(q.evaluate()); o1, o2 = [], []
        def _alt():
            live = [(i1, o1), (i2, o2)]
            while live:
                for pair in list(live):
                    try:
                        pair[1].append(next(pair[0]).name)
                    except StopIteration:
                        live.remove(pair)
        st, _ = guarded(_alt)
        rep.case(("exists-selected", wname, "alternating"))
        if st == "exc" or o1 != ref or o2 != ref:
            rep.fail("exists-selected::alternating::content", f"world {wname}: two live iterators of one query stepped alternately give {o1} / {o2}, alone {ref}",
                     {"world": wname, "schedule": "alternating"})


_exists_selected_scenarios()
rep.finish()
