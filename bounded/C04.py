"""Bounded stand-in for C04: random object graphs over the mapped example model (flat / inherited classes, Optional scalars,
enums + datetimes, references, lists of references, two lists of the same type, self-referential Node chains / shared
parents / cycles, back references through collections, alternatively mapped classes at top level, in references, in
collections and inside other alternative mappings) with deliberate sharing; to_dao then from_dao (no database); the result
must be isomorphic: same concrete classes, equal scalars, same order in collections, same aliasing (a bijection between the
objects of the two graphs)."""
import dataclasses
import random
import datetime as _dtm
from common import args, Report, guarded

from test.dataset.example_classes import (Position, Position4D, Position5D, Orientation, Pose, Positions, DoublePositionAggregator, Node,
                                          Atom, Element, Entity, DerivedEntity, EntityAssociation, AlternativeMappingAggregator,
                                          Reference, Backreference, ItemWithBackreference, ContainerGeneration, Vector, Rotation,
                                          Transformation, Shape, Shapes, MoreShapes, PositionsSubclassWithAnotherPosition)
from test.dataset.ormatic_interface import *  # noqa: the generated DAO classes register themselves
from krrood.ormatic.dao import to_dao

a = args()
rng = random.Random(a.seed)
rep = Report("C04", "object graphs of <= 12 objects over 20 mapped example classes with random sharing (p=0.4), Node chains / shared parents / "
             "2- and 3-cycles, container back references, alternatively mapped objects alone / in references / in collections / nested; "
             "to_dao -> from_dao in memory; isomorphism incl. aliasing", a.out)


# ------------------------------------------------------------------------------------------------ generator
class Gen:
    def __init__(self, rng, share):
        self.rng, self.share = rng, share
        self.pool = {}

    def pick(self, kind, make):
        lst = self.pool.setdefault(kind, [])
        if lst and self.rng.random() < self.share:
            return self.rng.choice(lst)
        o = make()
        lst.append(o)
        return o

    def f(self):
        return self.rng.choice([0.0, 1.0, -2.5, 3.25, 1e9])

    def position(self):
        def mk():
            k = self.rng.randrange(3)
            if k == 0:
                return Position(self.f(), self.f(), self.f())
            if k == 1:
                return Position4D(self.f(), self.f(), self.f(), self.f())
            return Position5D(self.f(), self.f(), self.f(), self.f(), self.f())
        return self.pick("position", mk)

    def orientation(self):
        return self.pick("orientation", lambda: Orientation(self.f(), self.f(), self.f(), self.rng.choice([None, 0.0, 1.0])))

    def pose(self):
        return self.pick("pose", lambda: Pose(self.position(), self.orientation()))

    def positions(self):
        def mk():
            ps = [self.position() for _ in range(self.rng.randrange(0, 4))]
            strs = [self.rng.choice(["", "a", "b"]) for _ in range(self.rng.randrange(0, 3))]
            if self.rng.random() < 0.3:
                return PositionsSubclassWithAnotherPosition(ps, strs, self.position())
            return Positions(ps, strs)
        return self.pick("positions", mk)

    def double(self):
        return DoublePositionAggregator([self.position() for _ in range(self.rng.randrange(0, 3))],
                                        [self.position() for _ in range(self.rng.randrange(0, 3))])

    def node(self):
        n = self.rng.randrange(1, 5)
        nodes = [Node() for _ in range(n)]
        shape = self.rng.choice(["chain", "shared-parent", "cycle", "self"])
        if shape == "chain":
            for i in range(1, n):
                nodes[i - 1].parent = nodes[i]
        elif shape == "shared-parent":
            for i in range(1, n):
                nodes[i].parent = nodes[0]
        elif shape == "cycle":
            for i in range(n):
                nodes[i].parent = nodes[(i + 1) % n]
        else:
            nodes[0].parent = nodes[0]
        if shape == "shared-parent":
            return Holder(nodes)
        return self.rng.choice(nodes) if shape == "cycle" else nodes[0]          # a cycle is entered anywhere

    def atom(self):
        return Atom(self.rng.choice(list(Element)), self.rng.randrange(3), self.f(), _dtm.datetime(2020, 1, 1 + self.rng.randrange(5)))

    def entity(self):
        def mk():
            if self.rng.random() < 0.4:
                return DerivedEntity(self.rng.choice(["d1", "d2"]), description=self.rng.choice(["x", "y"]))     # below an alternatively mapped parent
            return Entity(self.rng.choice(["e1", "e2", ""]))
        return self.pick("entity", mk)

    def assoc(self):
        return EntityAssociation(self.entity(), self.rng.choice([None, ["x"], ["x", "y"], []]))

    def alt_aggregator(self):
        return AlternativeMappingAggregator([self.entity() for _ in range(self.rng.randrange(0, 3))],
                                            [self.entity() for _ in range(self.rng.randrange(0, 3))])

    def reference(self):
        r = Reference(self.rng.randrange(5))
        if self.rng.random() < 0.7:
            b = Backreference({1: 1, 2: 2} if self.rng.random() < 0.5 else {}, r)
            r.backreference = b
            if self.rng.random() < 0.4:
                return b                            # the cycle is entered at the alternatively mapped object
        return r

    def container(self):
        items = [ItemWithBackreference(self.rng.randrange(4)) for _ in range(self.rng.randrange(0, 4))]
        if items and self.rng.random() < 0.3:
            items.append(items[0])          # the same item twice in the collection
        c = ContainerGeneration(items)
        if items and self.rng.random() < 0.5:
            return self.rng.choice(items)           # the cycle through the collection is entered at one of its elements
        return c

    def shapes(self):
        def shape():
            return self.pick("shape", lambda: Shape(self.rng.choice(["s", "t"]), Transformation(self.pick("vector", lambda: Vector(self.f())), Rotation(self.f()))))
        inner = [Shapes([shape() for _ in range(self.rng.randrange(0, 3))]) for _ in range(self.rng.randrange(1, 3))]
        if self.rng.random() < 0.5:
            return MoreShapes(inner + inner[:1])
        return inner[0]


class Holder:
    """not a mapped class: several roots converted with ONE state (a parent shared by several children)"""

    def __init__(self, roots):
        self.roots = roots


KINDS = ["position", "orientation", "pose", "positions", "double", "node", "atom", "entity", "assoc", "alt_aggregator", "reference", "container", "shapes"]


# ------------------------------------------------------------------------------------------------ isomorphism
def iso(x, y, fwd, bwd, path, problems, depth=0):
    if len(problems) > 3 or depth > 200:
        return
    if dataclasses.is_dataclass(x) and not isinstance(x, type):
        if id(x) in fwd:
            if fwd[id(x)] is not y:
                problems.append(f"{path}: an object referenced from several places became two objects")
            return
        if y is not None and id(y) in bwd:
            problems.append(f"{path}: two distinct objects became one object")
            return
        fwd[id(x)] = y
        bwd[id(y)] = x
        if type(x).__name__ == "Rotation" and y is None:
            return          # the dataset's RotationMapped.create_from_dao deliberately returns None: the mapping is what the user wrote
        if type(x) is not type(y):
            problems.append(f"{path}: {type(x).__name__} came back as {type(y).__name__}")
            return
        for f in dataclasses.fields(x):
            if f.name.startswith("_") or f.name == "attribute_that_shouldnt_appear_at_all":
                continue
            if type(x).__name__ == "Backreference" and f.name == "unmappable":
                if dict(getattr(x, f.name)) != dict(getattr(y, f.name)):
                    problems.append(f"{path}.{f.name}: {getattr(x, f.name)!r} != {getattr(y, f.name)!r}")
                continue
            iso(getattr(x, f.name), getattr(y, f.name, "<missing>"), fwd, bwd, f"{path}.{f.name}", problems, depth + 1)
        return
    if isinstance(x, (list, tuple)):
        if not isinstance(y, (list, tuple)) or len(x) != len(y):
            problems.append(f"{path}: collection {x!r} came back as {y!r}")
            return
        for i, (p, q) in enumerate(zip(x, y)):
            iso(p, q, fwd, bwd, f"{path}[{i}]", problems, depth + 1)
        return
    if x != y or type(x) is not type(y):
        if x is None and y == [] or (isinstance(x, float) and isinstance(y, (int, float)) and x == y):
            return
        problems.append(f"{path}: {x!r} came back as {y!r}")


def roundtrip(root):
    from krrood.ormatic.dao import ToDAOState, FromDAOState
    if isinstance(root, Holder):
        st, fs = ToDAOState(), FromDAOState()
        daos = [to_dao(r, state=st) for r in root.roots]
        return Holder([d.from_dao(state=fs) for d in daos])
    return to_dao(root).from_dao()


N = {"quick": 1500, "thorough": 30000}.get(a.tier, 1500)
for i in range(N):
    kind = KINDS[i % len(KINDS)]
    g = Gen(rng, share=rng.choice([0.0, 0.4, 0.8]))
    root = getattr(g, kind)()
    st, back = guarded(lambda: roundtrip(root))
    rep.case((kind, i), sample={"kind": kind} if i < 3 else None)
    inp = {"kind": kind, "root": repr(root)[:500] if kind not in ("node", "reference", "container") else kind, "seed": a.seed, "index": i}
    if st == "exc":
        rep.fail(f"raised::{kind}::{type(back).__name__}", f"{kind}: round trip raised {type(back).__name__}: {str(back)[:200]}", inp)
        continue
    problems = []
    if isinstance(root, Holder):
        fwd, bwd = {}, {}
        for j, (p, q) in enumerate(zip(root.roots, back.roots)):
            iso(p, q, fwd, bwd, f"root{j}", problems)
    else:
        iso(root, back, {}, {}, "root", problems)
    if problems:
        what = problems[0]
        sig = "aliasing" if "objects" in what or "object" in what.split(":")[-1] else ("type" if "came back as" in what and "collection" not in what and "." not in what.split(":")[0][-3:] else "value")
        rep.fail(f"not-isomorphic::{kind}::{sig}", f"{kind}: {what}", inp)
# ---- functions are alternatively mapped by (module, owning class, name): same-named functions of several classes of one module
from test.dataset import example_classes as _ex
FUNCS = [_ex.module_level_function, _ex.CallableWrapper.custom_instance_method, _ex.CallableWrapper.custom_static_method,
         _ex.CustomEntity.create_from_dao, _ex.VectorMapped.create_from_dao, _ex.TransformationMapped.create_from_dao,
         _ex.CustomEntity.create_instance, _ex.VectorMapped.create_instance]
FUNCS = [getattr(f, "__func__", f) for f in FUNCS]
for order_i in range(6 if a.tier == "quick" else 60):
    order = list(FUNCS)
    rng.shuffle(order)
    for f in order:
        st, back = guarded(lambda: to_dao(_ex.CallableWrapper(f)).from_dao())
        rep.case(("function", order_i, f.__qualname__), sample={"kind": "function", "function": f.__qualname__} if order_i == 0 else None)
        inp = {"kind": "function", "function": f.__qualname__, "converted_before": [g_.__qualname__ for g_ in order[:order.index(f)]]}
        if st == "exc":
            rep.fail(f"raised::function::{type(back).__name__}", f"CallableWrapper({f.__qualname__}): round trip raised {type(back).__name__}: {str(back)[:200]}", inp)
        elif getattr(back.func, "__func__", back.func) is not f:
            rep.fail("not-isomorphic::function::value", f"CallableWrapper({f.__qualname__}) came back with {getattr(back.func, '__qualname__', back.func)!r} "
                     f"(converted before: {inp['converted_before']})", inp)
rep.finish()
