"""Bounded stand-in for C02: conjunctive / else-if fragment (and_, comparisons, predicates, negated atoms, or_ only between
conditions over the same variables); the MULTISET of results must equal the multiset of satisfying assignments, and
the(...) must succeed exactly when there is one."""
import collections
import itertools
import multiprocessing
from common import args, Report, guarded
import eqlgen as G
from krrood.entity_query_language.entity import entity, set_of
from krrood.entity_query_language.quantify_entity import the
from krrood.entity_query_language.failures import MultipleSolutionFound, NoSolutionFound

a = args()
rep = Report("C02", "fragment conditions of depth <= 3: atoms and negated atoms over x, y and an int variable, and_ chains, or_ between "
             "conditions over the same variable set; 4 worlds; selections of all query variables; multiset comparison; the()", a.out)
A2 = G.atoms(("x", "y"))
AI = G.int_atoms()
AP = G.partial_order_atoms()      # values that are only partially ordered (sets): not (a <= b) is not (a > b)


def lits(atoms):
    for e in atoms:
        yield e
        yield ("not", e)


def same_vars(e1, e2):
    return G.free_vars(e1) == G.free_vars(e2)


def conditions():
    L = list(lits(A2)) + list(lits(AI))
    yield from L
    TA, TB = ("truth", ("attr", "x", "a")), ("truth", ("attr", "x", "b"))
    for t_ in (TA, TB):
        yield t_
        yield ("not", t_)
        for c_ in (("cmp", "==", t_[1], ("attr", "y", "b")), ("cmp", ">=", t_[1], ("const", 0))):
            yield ("and", ("not", t_), c_)
            yield ("and", t_, c_)
            yield ("and", c_, ("not", t_))
    for p in lits(AP):
        yield p
        yield ("and", p, A2[0])
        yield ("and", A2[5], p)
    for p, q in itertools.product(AP, repeat=2):
        if p is not q:
            yield ("or", ("not", p), q)
    pairs = [(p, q) for p, q in itertools.product(L, repeat=2) if p is not q]
    for p, q in pairs:
        yield ("and", p, q)
        if same_vars(p, q):
            yield ("or", p, q)
    # three-conjunct chains below an else-if: a MIDDLE conjunct that fails must still let the alternative be tried
    X = [e for e in lits(A2[:4])]
    for p_, q_, r_ in itertools.product(X[:4], X[2:6], X[4:8]):
        if len({repr(p_), repr(q_), repr(r_)}) == 3:
            for d_ in (X[1], X[6]):
                yield ("or", ("and", ("and", p_, q_), r_), d_)
                yield ("or", d_, ("and", ("and", p_, q_), r_))
    base = list(lits(A2[:5]))
    for p, q, r in itertools.product(base, repeat=3):
        if p is q or q is r or p is r:
            continue
        if hash((repr(p), repr(q), repr(r))) % (23 if a.tier == "quick" else 5):
            continue
        yield ("and", ("and", p, q), r)
        if same_vars(p, q):
            yield ("and", ("or", p, q), r)
        if same_vars(q, r) :
            yield ("and", p, ("or", q, r))
        if same_vars(p, q) and same_vars(q, r):
            yield ("or", ("or", p, q), r)
            yield ("or", ("and", p, q), r)


def work(job):
    wi, cond, share = job
    domains = G.worlds()[wi]
    sel = tuple(("var", v) for v in sorted(G.free_vars(cond)))
    if share == "project":        # only the first variable is selected: still one result per satisfying assignment of ALL variables
        sel, share = sel[:1], False
    env = G.Env(domains, share_attrs=share)
    st, got = guarded(lambda: G.run_query(env, sel, cond))
    want = G.oracle_rows(sel, cond, domains)
    # the(): succeeds iff exactly one satisfying assignment
    env2 = G.Env(domains, share_attrs=share)
    q, kind = env2.query(sel, cond)
    from krrood.entity_query_language.symbolic import The
    tq = The(q._child_)
    st_the, r_the = guarded(lambda: tq.evaluate())
    the_outcome = "ok" if st_the == "ok" else type(r_the).__name__
    return wi, cond, sel, share, st, (repr(got) if st == "exc" else got), want, the_outcome


jobs = [(wi, c, share) for wi in range(len(G.worlds())) for c in conditions() if wi < 4 or "n" in G.free_vars(c) for share in ((False, True) if c[0] in ("and", "or") else (False,))]
jobs += [(wi, c, "project") for wi in range(4) for c in conditions() if len(G.free_vars(c)) > 1]
import zlib
def always(c):
    """single literals and every condition with a predicate call are never sampled away"""
    return c[0] not in ("and", "or") or "'pred'" in repr(c) or "'truth'" in repr(c) or (c[0] == "or" and (c[1][0] == "and" and c[1][1][0] == "and" or c[2][0] == "and" and c[2][1][0] == "and"))


jobs = [j for j in jobs if a.tier == "thorough" or always(j[1]) or zlib.crc32(repr(j).encode()) % 3 == (a.seed % 3)]
with multiprocessing.get_context("fork").Pool(16) as pool:
    for wi, cond, sel, share, st, got, want, the_outcome in pool.imap_unordered(work, jobs, chunksize=32):
        shape = G.shape_signature(cond) + ("#shared-attribute-nodes" if share else "") + ("#one-variable-selected" if len(sel) < len(G.free_vars(cond)) else "")
        rep.case((wi, repr(cond), share), nontrivial=bool(want), sample={"world": wi, "condition": repr(cond)})
        inp = {"world": wi, "condition": cond, "selected": sel, "shared_attribute_nodes": share}
        if st == "exc":
            rep.fail(f"raised::{shape}", f"world {wi} cond {cond!r}: {got}", inp)
            continue
        cg, cw = collections.Counter(got), collections.Counter(want)
        if cg != cw:
            dup = sum((cg - cw).values())
            drop = sum((cw - cg).values())
            kind = "duplicated" if dup and not drop else ("dropped" if drop and not dup else "wrong-multiplicity")
            rep.fail(f"{kind}::{shape}", f"world {wi} cond {cond!r}: {dup} results too many, {drop} missing of {len(want)} satisfying assignments", inp)
            continue
        expect = "ok" if len(want) == 1 else ("NoSolutionFound" if not want else "MultipleSolutionFound")
        if the_outcome != expect:
            rep.fail(f"the::{shape}", f"world {wi} cond {cond!r}: {len(want)} satisfying assignments but the() gave {the_outcome}", inp)
rep.finish(exhaustive=(a.tier == "thorough"))
