"""Bounded stand-in for C10: instrumented one-shot generator domains, properties and predicates write an event log.
 (a) building the query and calling evaluate() logs nothing;  (b) the first k results are a prefix of the full result
 sequence;  (c) after k results the leading variable's generator has been advanced no further than the element that
 produced the k-th result (single-variable queries: exactly)."""
import itertools
from dataclasses import dataclass
from common import args, Report, guarded

from krrood.entity_query_language.entity import let, entity, set_of, and_, or_, not_, contains, in_, exists, for_all, flatten
from krrood.entity_query_language.quantify_entity import an
from krrood.entity_query_language.predicate import symbolic_function

from krrood.entity_query_language.predicate import Symbol as _Symbol


@dataclass(eq=False)
class Knob(_Symbol):
    name: str


@dataclass(eq=False)
class Door(_Symbol):
    knob: Knob



a = args()
rep = Report("C10", "query shapes (atoms, and_/or_/not_, exists, two variables, attribute chains, index with a user-defined key, method call with user arguments, a symbolic function, contains, flatten over a lazily produced inner iterable) x one-shot generator "
             "domains of 4-5 elements x result quantification (none, AtLeast, AtMost, Range) x k = 0..4 results pulled; event log of domain pulls, property reads and predicate calls", a.out)
LOG = []


class Obj:
    def __init__(self, name, v, items=()):
        self._name, self._v, self._items = name, v, list(items)

    @property
    def v(self):
        LOG.append(("read", self._name, "v"))
        return self._v

    @property
    def items(self):
        LOG.append(("read", self._name, "items"))
        return self._items

    @property
    def lazy(self):
        """an inner iterable that is produced on demand"""
        LOG.append(("read", self._name, "lazy"))

        def produce():
            for j, item in enumerate(self._items):
                LOG.append(("pull-inner", self._name, j))
                yield item
        return produce()

    @property
    def table(self):
        LOG.append(("read", self._name, "table"))
        return {KEY: self._v}

    def above(self, probe, limit=None):
        LOG.append(("call", "above", self._name))
        return self._v > probe.v

    def __bool__(self):
        LOG.append(("bool", self._name))
        return True

    def __repr__(self):
        return self._name


class Key:
    """a user-defined dictionary key: hashing / comparing / printing it is user code"""

    def __hash__(self):
        LOG.append(("hash", "key"))
        return 7

    def __eq__(self, other):
        LOG.append(("eq", "key"))
        return self is other

    def __repr__(self):
        LOG.append(("repr", "key"))
        return "Key"


KEY = Key()


def gen(name, objs):
    for i, o in enumerate(objs):
        LOG.append(("pull", name, i))
        yield o


@symbolic_function
def small(p):
    LOG.append(("call", "small", p))
    return p < 3


class Probe:
    """a literal whose truth value / iteration is observable"""

    def __init__(self, v):
        self.v = v

    def __bool__(self):
        LOG.append(("bool", "literal"))
        return True

    def __eq__(self, other):
        LOG.append(("eq", "literal"))
        return self.v == other

    def __hash__(self):
        return hash(self.v)

    def __repr__(self):
        LOG.append(("repr", "literal"))
        return f"Probe({self.v})"


def make_domains():
    xs = [Obj(f"x{i}", v, items=[v, v + 1]) for i, v in enumerate([1, 5, 2, 7, 0])]
    ys = [Obj(f"y{i}", v) for i, v in enumerate([2, 1, 6, 3])]
    return xs, ys


SHAPES = {
    "x.v<3": lambda x, y: ([x], x.v < 3, lambda xo, yo: xo._v < 3),
    "x.v>=1 and x.v<6": lambda x, y: ([x], and_(x.v >= 1, x.v < 6), lambda xo, yo: 1 <= xo._v < 6),
    "x.v<2 or x.v>5": lambda x, y: ([x], or_(x.v < 2, x.v > 5), lambda xo, yo: xo._v < 2 or xo._v > 5),
    "not x.v<3": lambda x, y: ([x], not_(x.v < 3), lambda xo, yo: not xo._v < 3),
    "small(x.v)": lambda x, y: ([x], small(x.v), lambda xo, yo: xo._v < 3),
    "contains(x.items, 2)": lambda x, y: ([x], contains(x.items, 2), lambda xo, yo: 2 in xo._items),
    "x.v == Probe(5)": lambda x, y: ([x], x.v == Probe(5), lambda xo, yo: xo._v == 5),
    "x.v<y.v": lambda x, y: ([x, y], x.v < y.v, lambda xo, yo: xo._v < yo._v),
    "x.v==y.v": lambda x, y: ([x, y], x.v == y.v, lambda xo, yo: xo._v == yo._v),
    "x.v<3 and y.v>x.v": lambda x, y: ([x, y], and_(x.v < 3, y.v > x.v), lambda xo, yo: xo._v < 3 and yo._v > xo._v),
    "exists(x, x.v<3)": lambda x, y: ([x], exists(x, x.v < 3), lambda xo, yo: xo._v < 3),
    "x.table[KEY]<3": lambda x, y: ([x], x.table[KEY] < 3, lambda xo, yo: xo._v < 3),
    "x.above(Probe(2))": lambda x, y: ([x], x.above(Probe(2)), lambda xo, yo: xo._v > 2),
    "x.above(Probe(2), limit=Probe(9))": lambda x, y: ([x], x.above(Probe(2), limit=Probe(9)), lambda xo, yo: xo._v > 2),
    "no-condition": lambda x, y: ([x], None, lambda xo, yo: True),
}

from krrood.entity_query_language.result_quantification_constraint import AtLeast, AtMost, Range
OUTER = {"x.v<3 and y.v>x.v": lambda xo: xo._v < 3}
QUANTS = {"none": lambda: None, "AtLeast(1)": lambda: AtLeast(1), "AtMost(6)": lambda: AtMost(6), "Range(1,20)": lambda: Range(AtLeast(1), AtMost(20))}


def needed_inner(xs, ys, pred, outer, k):
    """how far a nested-loop evaluation has advanced the second domain when the k-th row is found"""
    n, far = 0, 0
    for xo in xs:
        if not outer(xo):
            continue
        for j, yo in enumerate(ys):
            far = max(far, j + 1)
            if pred(xo, yo):
                n += 1
                if n == k:
                    return far
    return len(ys)


for (sname, mk), (qname, mkq) in itertools.product(SHAPES.items(), QUANTS.items()):
    if qname != "none":
        sname_q = f"{sname} [{qname}]"
    else:
        sname_q = sname
    # reference run (full evaluation, fresh query)
    for k in range(0, 5):
        del LOG[:]
        xs, ys = make_domains()
        x = let(Obj, gen("x", xs), name="x")
        y = let(Obj, gen("y", ys), name="y")
        st, built = guarded(lambda: mk(x, y))
        inp = {"shape": sname_q, "k": k}
        rep.case((sname_q, k), sample=inp)
        if st == "exc":
            rep.fail(f"raised::{sname}", f"{sname}: building raised {type(built).__name__}: {built}", inp)
            break
        sel, cond, pred = built
        qc = mkq()
        kw = {} if qc is None else {"quantification": qc}
        q = an(entity(sel[0], cond) if len(sel) == 1 else set_of(sel, cond), **kw) if cond is not None else an(entity(sel[0]), **kw)
        it = q.evaluate()
        if LOG:
            rep.fail(f"eager-construction::{sname}", f"{sname}: user code / domains touched while building the query: {LOG[:4]}", inp)
            break
        it = iter(it)
        got = []
        st, r = guarded(lambda: [got.append(next(it)) for _ in range(k)])
        if st == "exc" and not isinstance(r, StopIteration):
            rep.fail(f"raised::{sname}", f"{sname}: pulling {k} results raised {type(r).__name__}: {r}", inp)
            break
        pulls_x = [e for e in LOG if e[:2] == ("pull", "x")]
        pulls_y = [e for e in LOG if e[:2] == ("pull", "y")]
        # expected results in nested-loop order
        if len(sel) == 1:
            full = [xo for xo in xs if pred(xo, None)] if sname not in ("x.v<y.v",) else None
        else:
            full = [(xo, yo) for xo in xs for yo in ys if pred(xo, yo)]
        if len(sel) == 1:
            want = full[:k]
            if got[:len(want)] != want[:len(got)] or (len(got) < min(k, len(full))):
                rep.fail(f"not-a-prefix::{sname}", f"{sname}: first {k} results {got} are not the prefix {want} of the full result sequence", inp)
                break
            need = (xs.index(want[-1]) + 1) if (want and len(got) == k) else (len(xs) if k > len(full) else 0)
            if k <= len(full) and len(pulls_x) > need:
                rep.fail(f"over-pull::{sname}", f"{sname_q}: {k} results pulled {len(pulls_x)} elements of the domain generator, {need} suffice", inp)
                break
        else:
            rows = [(r_[x], r_[y]) for r_ in got]
            want = full[:k]
            if rows != want[:len(rows)] or len(rows) < min(k, len(full)):
                rep.fail(f"not-a-prefix::{sname}", f"{sname}: first {k} rows {rows} are not the prefix {want}", inp)
                break
            if rows and k <= len(full):
                need = xs.index(rows[-1][0]) + 1
                if len(pulls_x) > need:
                    rep.fail(f"over-pull::{sname}", f"{sname_q}: {k} rows pulled {len(pulls_x)} elements of the leading domain, {need} suffice", inp)
                    break
                if sname in ("x.v<y.v", "x.v==y.v", "x.v<3 and y.v>x.v"):
                    need_y = needed_inner(xs, ys, pred, OUTER.get(sname, lambda xo: True), k)
                    if len(pulls_y) > need_y:
                        rep.fail(f"over-pull-inner::{sname}", f"{sname_q}: {k} rows pulled {len(pulls_y)} elements of the second domain, {need_y} suffice", inp)
                        break
        if k == 0 and LOG:
            rep.fail(f"eager-evaluate::{sname}", f"{sname}: evaluate() without next() logged {LOG[:4]}", inp)
            break
# a second variable that the first results never reach must not be touched (not even by the announcement of the evaluation);
# and a pattern whose keyword value is a variable over a one-shot generator is built without advancing it
from krrood.entity_query_language.match import entity_matching
for label, mk_cond, n_free in (("x.v<9 or y.v==1", lambda x, y: or_(x.v < 9, y.v == 1), 5), ("x.v>100 and y.v==x.v", lambda x, y: and_(x.v > 100, y.v == x.v), 0)):
    for k in range(0, 4):
        del LOG[:]
        xs, ys = make_domains()
        x = let(Obj, gen("x", xs), name="x")
        y = let(Obj, gen("y", ys), name="y")
        q = an(entity(x, mk_cond(x, y)))
        it = iter(q.evaluate())
        got = []
        st, r = guarded(lambda: [got.append(next(it)) for _ in range(k)])
        inp = {"shape": label, "k": k}
        rep.case((label, k), sample=inp)
        pulls_y = [e for e in LOG if e[:2] == ("pull", "y")]
        if k <= n_free and len(got) == k and pulls_y:
            rep.fail(f"over-pull-unreached::{label}", f"{label}: {k} results need the first variable only, but {len(pulls_y)} elements of the second domain were pulled", inp)
            break
knobs = [Knob(f"K{i}") for i in range(5)]
doors = [Door(kn) for kn in knobs]
for variant in ("variable-as-keyword-value", "variable-over-groups"):
    del LOG[:]
    inp = {"shape": f"entity_matching(Door, gen)(knob=<{variant}>)"}
    rep.case(("match", variant), sample=inp)
    if variant == "variable-as-keyword-value":
        val = let(Knob, gen("knobs", [knobs[3], knobs[1]]), name="allowed")
    else:
        val = let(list, gen("groups", [[knobs[4]], [knobs[1], knobs[2]]]), name="allowed")
    st, q = guarded(lambda: an(entity_matching(Door, gen("doors", doors))(knob=val)))
    if st == "exc":
        rep.fail(f"raised::match::{variant}", f"{inp['shape']}: {type(q).__name__}: {q}", inp)
        continue
    if LOG:
        rep.fail(f"eager-construction::match::{variant}", f"{inp['shape']}: building the pattern advanced a domain generator: {LOG[:4]}", inp)
        continue
    it = iter(q.evaluate())
    st, first = guarded(lambda: next(it))
    pulls = [e for e in LOG if e[0] == "pull" and e[1] in ("knobs", "groups")]
    if st == "ok" and len(pulls) > 1:
        rep.fail(f"over-pull::match::{variant}", f"{inp['shape']}: the first result pulled {len(pulls)} elements of the value variable's domain, 1 suffices", inp)
# for_all over a lazily produced quantified domain: once no candidate is left, the remaining values cannot change the outcome
from krrood.entity_query_language.entity import for_all as _for_all
for limits in ([1000, 1001, 1002, 1003, 1004, 1005], [0, 1, 2, 6, 7, 8, 9], [0, 0, 0, 0, 0, 0, 0], [3, 9, 1, 1]):
    del LOG[:]
    xs, _ = make_domains()
    x = let(Obj, xs, name="x")
    u = let(Obj, gen("u", [Obj(f"u{i}", v) for i, v in enumerate(limits)]), name="u")
    q = an(entity(x, _for_all(u, x.v > u.v)))
    inp = {"shape": "for_all(u, x.v > u.v)", "limits": limits}
    rep.case(("for_all", tuple(limits)), sample=inp)
    st, got = guarded(lambda: list(q.evaluate()))
    if st == "exc":
        rep.fail("raised::for_all", f"for_all over {limits}: {type(got).__name__}: {got}", inp)
        continue
    want = [xo for xo in xs if all(xo._v > l for l in limits)]
    cut = next((n for n in range(1, len(limits) + 1) if not any(all(xo._v > l for l in limits[:n]) for xo in xs)), len(limits))
    pulls = [e for e in LOG if e[:2] == ("pull", "u")]
    if got != want:
        rep.fail("not-a-prefix::for_all", f"for_all over {limits}: got {got}, want {want}", inp)
    elif len(pulls) > cut:
        rep.fail("over-pull::for_all", f"for_all(u, x.v > u.v) with u from a generator over {limits}: {len(pulls)} values of u were pulled, after {cut} no candidate is left", inp)
# flatten over a lazily produced inner iterable: the k-th flattened value needs k inner pulls, not the whole inner iterable
for k in range(0, 7):
    del LOG[:]
    xs, ys = make_domains()
    x = let(Obj, gen("x", xs), name="x")
    inp = {"shape": "flatten(x.lazy)", "k": k}
    rep.case(("flatten(x.lazy)", k), sample=inp)
    st, q = guarded(lambda: an(entity(flatten(x.lazy))))
    if st == "exc":
        rep.fail("raised::flatten", f"flatten(x.lazy): building raised {type(q).__name__}: {q}", inp)
        break
    if LOG:
        rep.fail("eager-construction::flatten", f"flatten(x.lazy): user code ran while building: {LOG[:4]}", inp)
        break
    it = iter(q.evaluate())
    got = []
    st, r = guarded(lambda: [got.append(next(it)) for _ in range(k)])
    if st == "exc" and not isinstance(r, StopIteration):
        rep.fail("raised::flatten", f"flatten(x.lazy): pulling {k} values raised {type(r).__name__}: {r}", inp)
        break
    full = [item for xo in xs for item in xo._items]
    if got != full[:k]:
        rep.fail("not-a-prefix::flatten", f"flatten(x.lazy): first {k} values {got} are not the prefix {full[:k]}", inp)
        break
    inner = [e for e in LOG if e[0] == "pull-inner"]
    if len(inner) > k:
        rep.fail("over-pull-inner::flatten", f"flatten(x.lazy): {k} values pulled {len(inner)} elements of the lazily produced inner iterables, {k} suffice", inp)
        break
    outer = [e for e in LOG if e[:2] == ("pull", "x")]
    need = (k + 1) // 2 if k else 0
    if len(outer) > need:
        rep.fail("over-pull::flatten", f"flatten(x.lazy): {k} values pulled {len(outer)} elements of the domain generator, {need} suffice", inp)
        break
rep.finish(exhaustive=True)
