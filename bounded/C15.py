"""Bounded stand-in for C15: every order of small assertion sets over a population of the university dataset (2 persons,
3 companies, a CEO role of person 0), compared with an independent naive fixpoint of the declared semantics
(HeadOf < WorksFor < MemberOf, MemberOf <-> Member inverse, super-properties on the role taker, SubOrganizationOf transitive).
Both the objects' fields and SymbolGraph().relations() must equal the closure."""
import itertools
import random
from common import args, Report, guarded

from test.dataset.university_ontology_like_classes import Company, Person, CEO
from krrood.entity_query_language.symbol_graph import SymbolGraph

a = args()
rng = random.Random(a.seed)
rep = Report("C15", "assertion sets of size 1..4 (quick) / ..5 (thorough) drawn from works_for=, head_of=, member_of.append / =[..], "
             "members.add / ={..}, sub_organization_of.append / =[..] over 2 persons, 3 companies, 1 CEO role; every order (<= 120); "
             "chains, diamonds and cycles of sub-organisations; oracle = naive fixpoint", a.out)

NP, NC = 2, 3
from dataclasses import dataclass as _dataclass


@_dataclass
class InterimCEO(CEO):
    """a subclass of a role class is a role of the same role taker"""

    def __hash__(self):
        return hash(self.person)


ROLE = [CEO]


def population():
    SymbolGraph().clear()
    SymbolGraph()
    ps = [Person(name=f"p{i}") for i in range(NP)]
    cs = [Company(name=f"c{i}") for i in range(NC)]
    ceo = ROLE[0](person=ps[0])
    return ps, cs, ceo


def apply(assertion, ps, cs, ceo):
    k = assertion[0]
    if k == "works_for":
        ps[assertion[1]].works_for = cs[assertion[2]]
    elif k == "head_of":
        ceo.head_of = cs[assertion[1]]
    elif k == "member_of.append":
        ps[assertion[1]].member_of.append(cs[assertion[2]])
    elif k == "member_of=":
        ps[assertion[1]].member_of = [cs[i] for i in assertion[2]]
    elif k == "members.add":
        cs[assertion[1]].members.add(ps[assertion[2]])
    elif k == "members.add.ceo":
        cs[assertion[1]].members.add(ceo)
    elif k == "members=":
        cs[assertion[1]].members = {ps[i] for i in assertion[2]}
    elif k == "sub.append":
        cs[assertion[1]].sub_organization_of.append(cs[assertion[2]])
    elif k == "sub=":
        cs[assertion[1]].sub_organization_of = [cs[i] for i in assertion[2]]
    else:
        raise ValueError(assertion)


def asserted_facts(assertion):
    k = assertion[0]
    if k == "works_for":
        return [("works_for", ("p", assertion[1]), ("c", assertion[2]))]
    if k == "head_of":
        return [("head_of", ("e", 0), ("c", assertion[1]))]
    if k == "member_of.append":
        return [("member_of", ("p", assertion[1]), ("c", assertion[2]))]
    if k == "member_of=":
        return [("member_of", ("p", assertion[1]), ("c", i)) for i in assertion[2]]
    if k == "members.add":
        return [("members", ("c", assertion[1]), ("p", assertion[2]))]
    if k == "members.add.ceo":
        return [("members", ("c", assertion[1]), ("e", 0))]
    if k == "members=":
        return [("members", ("c", assertion[1]), ("p", i)) for i in assertion[2]]
    if k == "sub.append":
        return [("sub", ("c", assertion[1]), ("c", assertion[2]))]
    if k == "sub=":
        return [("sub", ("c", assertion[1]), ("c", i)) for i in assertion[2]]


def closure(facts):
    """naive fixpoint of the declared semantics (the CEO role e0 is played by p0)"""
    facts = set(facts)
    taker = {("e", 0): ("p", 0)}
    while True:
        new = set()
        for (r, s, o) in facts:
            if r == "head_of":
                new.add(("works_for", taker[s], o))          # super-property on the role taker
                new.add(("member_of", taker[s], o))
                new.add(("members", o, s))                    # inverse (HeadOf inherits Member as its inverse)
            if r == "works_for":
                new.add(("member_of", s, o))
                new.add(("members", o, s))
            if r == "member_of":
                new.add(("members", o, s))
            if r == "members":
                if o[0] == "p":
                    new.add(("member_of", o, s))
                else:
                    new.add(("member_of", taker[o], s))      # inverse lives on the role taker
            if r == "sub":
                for (r2, s2, o2) in facts:
                    if r2 == "sub" and s2 == o:
                        new.add(("sub", s, o2))
        if new <= facts:
            return facts
        facts |= new


def observed(ps, cs, ceo):
    name = {id(p): ("p", i) for i, p in enumerate(ps)}
    name.update({id(c): ("c", i) for i, c in enumerate(cs)})
    name[id(ceo)] = ("e", 0)
    fields = set()
    for i, p in enumerate(ps):
        if p.works_for is not None:
            fields.add(("works_for", ("p", i), name[id(p.works_for)]))
        for c in p.member_of:
            fields.add(("member_of", ("p", i), name[id(c)]))
    for i, c in enumerate(cs):
        for m in c.members:
            fields.add(("members", ("c", i), name[id(m)]))
        for s in c.sub_organization_of:
            fields.add(("sub", ("c", i), name[id(s)]))
    if ceo.head_of is not None:
        fields.add(("head_of", ("e", 0), name[id(ceo.head_of)]))
    graph = set()
    fname = {"works_for": "works_for", "member_of": "member_of", "members": "members", "sub_organization_of": "sub", "head_of": "head_of"}
    dup = False
    seen = []
    for rel in SymbolGraph().relations():
        s, t = rel.source.instance, rel.target.instance
        if id(s) not in name or id(t) not in name:
            continue
        f = fname.get(rel.wrapped_field.public_name)
        if f is None:
            continue
        key = (f, name[id(s)], name[id(t)])
        if key in seen:
            dup = True
        seen.append(key)
        graph.add(key)
    # element multiplicity in list fields (an inferred value must not be appended twice)
    mult = any(len(p.member_of) != len(set(map(id, p.member_of))) for p in ps) or \
        any(len(c.sub_organization_of) != len(set(map(id, c.sub_organization_of))) for c in cs)
    return fields, graph, dup, mult


def consistent(aset, single_valued=True):
    """monotone histories only: a single-valued field gets one value (directly or by inference), a container assignment is
    the only write to its field.  single_valued=False: only the container part (the GRAPH is still the closure when a
    single-valued field is overwritten: nothing is retracted from it, only the field shows the last value)"""
    wf = {}
    for x in aset:
        if x[0] == "works_for":
            if wf.setdefault(x[1], x[2]) != x[2] and single_valued:
                return False
        if x[0] == "head_of":
            if wf.setdefault(0, x[1]) != x[1] and single_valued:
                return False
    if sum(1 for x in aset if x[0] == "head_of") > 1 and single_valued:
        return False
    # closure may also infer works_for: only from head_of (handled above)
    writes = {}
    for x in aset:
        if x[0] in ("member_of.append", "member_of="):
            writes.setdefault(("member_of", x[1]), []).append(x[0])
        if x[0] in ("members.add", "members=", "members.add.ceo"):
            writes.setdefault(("members", x[1]), []).append(x[0])
        if x[0] in ("sub.append", "sub="):
            writes.setdefault(("sub", x[1]), []).append(x[0])
    for k, ws in writes.items():
        if any(w.endswith("=") for w in ws) and len(ws) > 1:
            return False
    return True


POOL = [("works_for", p, c) for p in range(NP) for c in range(2)] + [("head_of", c) for c in range(2)] + \
       [("member_of.append", p, c) for p in range(NP) for c in range(NC)] + [("member_of=", 1, (0, 2)), ("member_of=", 0, (1,))] + \
       [("members.add", c, p) for c in range(NC) for p in range(NP)] + [("members=", 2, (0, 1))] + [("members.add.ceo", c) for c in range(2)] + \
       [("sub.append", x, y) for x in range(NC) for y in range(NC)] + [("sub=", 0, (1, 2)), ("sub=", 2, (0,))]


def order_is_monotone(order):
    """a container assignment clears the field first: it must be the first time the field receives anything, asserted OR
    inferred (otherwise the assignment retracts inferred content from the field but not from the graph - outside the statement).
    Content that is inferred into the field during or after the assignment is fine."""
    facts = []
    for x in order:
        if x[0].endswith("="):
            rel = {"member_of=": "member_of", "members=": "members", "sub=": "sub"}[x[0]]
            subj = ("p" if rel == "member_of" else "c", x[1])
            if any(f[0] == rel and f[1] == subj for f in closure(facts)):
                return False
        facts += asserted_facts(x)
    return True


def check_set(aset, graph_only=False):
    ROLE[0] = InterimCEO if (len(aset) + sum(len(repr(x)) for x in aset)) % 3 == 0 else CEO       # a third of the sets with the role SUBclass
    want = closure([f for x in aset for f in asserted_facts(x)])
    orders = [o for o in itertools.permutations(aset) if order_is_monotone(o)]
    if len(orders) > 120:
        orders = rng.sample(orders, 120)
    for order in orders:
        ps, cs, ceo = population()
        st, r = guarded(lambda: [apply(x, ps, cs, ceo) for x in order])
        inp = {"order": list(order), "role_class": ROLE[0].__name__}
        rep.case((tuple(sorted(map(repr, aset))), order), nontrivial=len(want) > len(aset))
        kinds = "+".join(sorted({x[0].split(".")[0].rstrip("=") for x in aset}))
        if st == "exc":
            rep.fail(f"raised::{kinds}::{type(r).__name__}", f"{list(order)} raised {type(r).__name__}: {r}", inp)
            return
        fields, graph, dup, mult = observed(ps, cs, ceo)
        if graph_only:
            if graph != want:
                missing, extra = sorted(want - graph), sorted(graph - want)
                rep.fail(f"graph::{'missing' if missing else 'extra'}::overwritten-single-valued-field::{kinds}",
                         f"after {list(order)} (a single-valued field is overwritten: only the graph is compared) the graph misses {missing[:3]} and has extra {extra[:3]}", inp)
                return
            continue
        if fields != want:
            missing, extra = sorted(want - fields), sorted(fields - want)
            rep.fail(f"fields::{'missing' if missing else 'extra'}::{kinds}", f"after {list(order)} the fields miss {missing[:3]} and have extra {extra[:3]}", inp)
            return
        if graph != want:
            missing, extra = sorted(want - graph), sorted(graph - want)
            rep.fail(f"graph::{'missing' if missing else 'extra'}::{kinds}", f"after {list(order)} the graph misses {missing[:3]} and has extra {extra[:3]}", inp)
            return
        if dup:
            rep.fail(f"graph::duplicate-relation::{kinds}", f"after {list(order)} a relation is in the graph twice", inp)
            return
        # (a user who appends an element an inference already put into a list field gets it twice: plain list semantics, C16)


MAXK = 5 if a.tier == "thorough" else 4
N_SETS = {"quick": 260, "thorough": 1200}.get(a.tier, 260)
scripted = [
    [("sub.append", 0, 1), ("sub.append", 1, 2)],
    [("sub.append", 0, 1), ("sub.append", 1, 2), ("sub.append", 2, 0)],                       # cycle
    [("sub.append", 0, 1), ("sub.append", 0, 2), ("sub.append", 1, 2)],                       # diamond-ish
    [("sub.append", 0, 0)],
    [("head_of", 0)], [("head_of", 1), ("member_of.append", 0, 2)], [("head_of", 0), ("works_for", 0, 0)],
    [("works_for", 0, 0), ("works_for", 1, 0), ("members.add", 0, 1)],
    [("members=", 2, (0, 1)), ("works_for", 0, 1)], [("member_of=", 1, (0, 2)), ("works_for", 0, 0)],
    [("sub=", 0, (1, 2)), ("sub.append", 1, 2)],
    [("sub.append", 1, 2), ("sub=", 0, (1,))], [("sub=", 1, (2,)), ("sub=", 0, (1,))], [("sub.append", 2, 0), ("sub=", 0, (1,)), ("sub.append", 1, 2)],
    [("head_of", 0), ("members=", 1, (1,))], [("works_for", 0, 2), ("members=", 2, (1,))], [("member_of=", 0, (1,)), ("members.add", 2, 0)],
]
scripted += [[("members.add.ceo", 0)], [("members.add.ceo", 1), ("works_for", 1, 1)], [("members.add.ceo", 0), ("head_of", 1)],
             [("works_for", 0, 0), ("head_of", 1)], [("head_of", 0), ("works_for", 0, 1)], [("works_for", 1, 0), ("works_for", 1, 1)],
             [("works_for", 0, 1), ("head_of", 0), ("member_of.append", 0, 2)]]
for aset in scripted:
    if consistent(aset):
        check_set(aset)
    elif consistent(aset, single_valued=False):
        check_set(aset, graph_only=True)
done = 0
tries = 0
while done < N_SETS and tries < 50 * N_SETS:
    tries += 1
    k = rng.randrange(1, MAXK + 1)
    aset = rng.sample(POOL, k)
    if not consistent(aset):
        if consistent(aset, single_valued=False) and tries % 4 == 0:
            check_set(aset, graph_only=True)
        continue
    check_set(aset)
    done += 1
# ---- values handed to the constructor are assertions like any other (the dataclass __init__ assigns the managed fields)
def population_with(ctor):
    """companies first (c_i may name earlier companies as its super-organisations), then persons (member_of / works_for at
    construction), then the CEO role"""
    SymbolGraph().clear()
    SymbolGraph()
    cs = []
    for i in range(NC):
        subs = [cs[j] for (k, x, j) in ctor if k == "sub" and x == i]
        cs.append(Company(name=f"c{i}", sub_organization_of=subs) if subs else Company(name=f"c{i}"))
    ps = []
    for i in range(NP):
        mem = [cs[j] for (k, x, j) in ctor if k == "member_of" and x == i]
        wf = [cs[j] for (k, x, j) in ctor if k == "works_for" and x == i]
        kw = {}
        if mem:
            kw["member_of"] = mem
        if wf:
            kw["works_for"] = wf[0]
        ps.append(Person(name=f"p{i}", **kw))
    return ps, cs, CEO(person=ps[0])


CTORS = [[("sub", 1, 0)], [("sub", 2, 1), ("sub", 1, 0)], [("sub", 2, 0), ("sub", 2, 1)], [("member_of", 0, 1)], [("member_of", 1, 0), ("member_of", 1, 2)],
         [("works_for", 0, 2)], [("sub", 1, 0), ("member_of", 0, 1)]]
LATER = [[], [("sub.append", 0, 2)], [("sub.append", 2, 1)], [("sub.append", 0, 1), ("sub.append", 1, 2)], [("members.add", 0, 1)], [("head_of", 1)],
         [("member_of.append", 0, 2)], [("sub.append", 2, 0), ("members.add", 2, 1)]]
for ctor in CTORS:
    for later in LATER:
        base = [(k, ("c" if k == "sub" else "p", x), ("c", j)) for (k, x, j) in ctor]
        if not consistent([("works_for", x, j) for (k, x, j) in ctor if k == "works_for"] + later):
            continue
        want = closure(base + [f for x in later for f in asserted_facts(x)])
        for order in itertools.permutations(later):
            st, made = guarded(lambda: population_with(ctor))
            inp = {"constructed_with": ctor, "order": list(order)}
            rep.case(("ctor", repr(ctor), order), nontrivial=True)
            if st == "exc":
                rep.fail(f"raised::constructor[{'+'.join(sorted({k for k, _, _ in ctor}))}]::{type(made).__name__}", f"constructing with {ctor} raised {type(made).__name__}: {made}", inp)
                break
            ps, cs, ceo = made
            st, r = guarded(lambda: [apply(x, ps, cs, ceo) for x in order])
            if st == "exc":
                rep.fail(f"raised::constructor+later::{type(r).__name__}", f"constructed with {ctor}, then {list(order)} raised {type(r).__name__}: {r}", inp)
                break
            fields, graph, dup, mult = observed(ps, cs, ceo)
            if fields != want or graph != want:
                which = "fields" if fields != want else "graph"
                got = fields if fields != want else graph
                rep.fail(f"{which}::{'missing' if want - got else 'extra'}::constructor-values",
                         f"objects constructed with {ctor}, then {list(order)}: the {which} miss {sorted(want - got)[:3]} and have extra {sorted(got - want)[:3]}", inp)
                break
# ---- a second ontology: a sub-property OF the transitive property (division_of < sub_organization_of), four units
from dataclasses import dataclass, field
from typing_extensions import List
from krrood.entity_query_language.predicate import Symbol
from krrood.ontomatic.property_descriptor.mixins import TransitiveProperty
from krrood.ontomatic.property_descriptor.property_descriptor import PropertyDescriptor


@dataclass
class Unit(Symbol):
    name: str
    division_of: List["Unit"] = field(default_factory=list)
    part_of: List["Unit"] = field(default_factory=list)

    def __hash__(self):
        return hash(self.name)


@dataclass
class PartOf(PropertyDescriptor, TransitiveProperty):
    ...


@dataclass
class DivisionOf(PartOf):
    ...


Unit.division_of = DivisionOf(Unit, "division_of")
Unit.part_of = PartOf(Unit, "part_of")
NU = 4


def unit_closure(facts):
    facts = set(facts)
    while True:
        new = {("part", s, o) for (r, s, o) in facts if r == "div"}
        # DivisionOf is a subclass of the transitive PartOf: it is transitive itself
        new |= {(r, s, o2) for (r, s, o) in facts for (r2, s2, o2) in facts if r2 == r and s2 == o}
        if new <= facts:
            return facts
        facts |= new


UPOOL = [("div", i, j) for i in range(NU) for j in range(NU) if i != j] + [("part", i, j) for i in range(NU) for j in range(NU) if i != j]
usets = [[("div", 0, 1), ("part", 1, 2)], [("part", 1, 2), ("div", 0, 1), ("part", 2, 3)], [("div", 0, 1), ("div", 1, 2)], [("div", 0, 1), ("div", 1, 2), ("div", 2, 3)],
         [("part", 0, 1), ("div", 1, 2), ("part", 2, 3)], [("div", 2, 3), ("part", 0, 1), ("part", 1, 2)]]
for _ in range(40 if a.tier == "quick" else 300):
    cand = rng.sample(UPOOL, rng.randrange(2, 5))
    usets.append(cand)
for aset in usets:
    want = unit_closure(aset)
    for order in itertools.permutations(aset):
        SymbolGraph().clear()
        SymbolGraph()
        us = [Unit(f"u{i}") for i in range(NU)]

        def do(x):
            if x[0] == "div":
                us[x[1]].division_of.append(us[x[2]])
            else:
                us[x[1]].part_of.append(us[x[2]])
        st, r = guarded(lambda: [do(x) for x in order])
        inp = {"ontology": "division_of < part_of (transitive)", "order": list(order)}
        rep.case(("unit", tuple(sorted(aset)), order), nontrivial=len(want) > len(aset))
        if st == "exc":
            rep.fail(f"raised::sub-property-of-transitive::{type(r).__name__}", f"{list(order)} raised {type(r).__name__}: {r}", inp)
            break
        idx = {id(u): i for i, u in enumerate(us)}
        fields = {("div", i, idx[id(v)]) for i, u in enumerate(us) for v in u.division_of} | \
                 {("part", i, idx[id(v)]) for i, u in enumerate(us) for v in u.part_of}
        graph = {({"division_of": "div", "part_of": "part"}[rel.wrapped_field.public_name], idx[id(rel.source.instance)], idx[id(rel.target.instance)])
                 for rel in SymbolGraph().relations() if id(rel.source.instance) in idx and id(rel.target.instance) in idx}
        if fields != want or graph != want:
            which, got = ("fields", fields) if fields != want else ("graph", graph)
            rep.fail(f"{which}::{'missing' if want - got else 'extra'}::sub-property-of-transitive",
                     f"division_of < part_of (transitive): after {list(order)} the {which} miss {sorted(want - got)[:3]} and have extra {sorted(got - want)[:3]}", inp)
            break
SymbolGraph().clear()
rep.finish()
