"""Bounded stand-in for C14 (garbage-prefix driver): an assertion sequence run on a fresh graph must have the same
observable effect as the same sequence run after a prefix that created, related and dropped instances (so node indices
and object ids are recycled)."""
import gc
import itertools
from common import args, Report, guarded

from test.dataset.university_ontology_like_classes import Company, Person, CEO
from krrood.entity_query_language.symbol_graph import SymbolGraph

a = args()
rep = Report("C14", "garbage prefixes (0-3 dead persons x 0-2 dead companies, related by works_for / members / member_of / none, "
             "collected and swept or not) x creation orders of the new instances x 6 assertion sequences; oracle = same sequence on a fresh graph", a.out)


def fresh_graph():
    SymbolGraph().clear()
    SymbolGraph()


def observe(objs):
    out = {"fields": {}, "relations": set()}
    for n, o in objs.items():
        if isinstance(o, Person):
            out["fields"][n] = (o.works_for.name if o.works_for else None, sorted(c.name for c in o.member_of))
        elif isinstance(o, Company):
            out["fields"][n] = (sorted(p.name for p in o.members), sorted(c.name for c in o.sub_organization_of))
    for r in SymbolGraph().relations():
        s, t = r.source.instance, r.target.instance
        if s is not None and t is not None and any(s is o for o in objs.values()) and any(t is o for o in objs.values()):
            out["relations"].add((getattr(s, "name", type(s).__name__), r.wrapped_field.name, getattr(t, "name", type(t).__name__)))
    out["relations"] = sorted(out["relations"])
    g = SymbolGraph()
    out["bookkeeping"] = (len(g._instance_index), sum(len(v) for v in g._relation_index.values()), len(list(g.relations())), len(g.wrapped_instances))
    return out


SEQS = {
    "works_for": lambda o: setattr(o["p"], "works_for", o["c"]),
    "members.add": lambda o: o["c"].members.add(o["p"]),
    "member_of.append": lambda o: o["p"].member_of.append(o["c"]),
    "works_for;members.add(q)": lambda o: (setattr(o["p"], "works_for", o["c"]), o["c"].members.add(o["q"])),
    "sub_org chain": lambda o: (setattr(o["c"], "sub_organization_of", [o["d"]]), o["d"].sub_organization_of.append(o["c2"])),
    "members assign": lambda o: setattr(o["c"], "members", {o["p"], o["q"]}),
}
ORDERS = [("p", "c", "q", "d", "c2"), ("c", "p", "d", "q", "c2"), ("c2", "d", "c", "q", "p"), ("q", "p", "c2", "c", "d")]
MAKE = {"p": lambda: Person(name="p"), "q": lambda: Person(name="q"), "c": lambda: Company(name="c"), "d": lambda: Company(name="d"), "c2": lambda: Company(name="c2")}


def prefix(np_, nc, how, collect, sweep):
    ps = [Person(name=f"dead_p{i}") for i in range(np_)]
    cs = [Company(name=f"dead_c{i}") for i in range(nc)]
    for i, p in enumerate(ps):
        if cs:
            c = cs[i % len(cs)]
            if how == "works_for":
                p.works_for = c
            elif how == "members":
                c.members.add(p)
            elif how == "member_of":
                p.member_of.append(c)
    if len(cs) > 1 and how != "none":
        cs[0].sub_organization_of = [cs[1]]
    del ps, cs
    try:
        del p, c
    except NameError:
        pass
    if collect:
        gc.collect()
    if sweep is True:
        SymbolGraph().remove_dead_instances()


def run(seq_name, order, pre):
    fresh_graph()
    if pre is not None:
        prefix(*pre)
    objs = {}
    for n in order:
        objs[n] = MAKE[n]()
    if pre is not None and pre[4] == "late":
        SymbolGraph().remove_dead_instances()      # the sweep happens after the new instances took over ids / indices
    SEQS[seq_name](objs)
    o = observe(objs)
    return o


prefixes = [None]
for np_, nc in itertools.product(range(0, 4), range(0, 3)):
    if np_ + nc == 0:
        continue
    for how in ("works_for", "members", "member_of", "none"):
        for collect, sweep in ((True, True), (True, False), (False, False), (True, "late")):
            prefixes.append((np_, nc, how, collect, sweep))
if a.tier == "quick":
    prefixes = [p for i, p in enumerate(prefixes) if p is None or (p[0] <= 2 and p[1] <= 1)]
    ORDERS = ORDERS[:2]

for seq_name in SEQS:
    for order in ORDERS:
        ref = run(seq_name, order, None)
        for pre in prefixes[1:]:
            st, got = guarded(lambda: run(seq_name, order, pre))
            rep.case((seq_name, order, pre), sample={"sequence": seq_name, "creation_order": order, "prefix": pre})
            sig = f"{seq_name.split(';')[0].split('.')[0]}::after-{'late-swept' if pre[4] == 'late' else ('swept' if pre[4] else ('collected' if pre[3] else 'uncollected'))}-prefix"
            if st == "exc":
                rep.fail(sig + "::raised", f"{seq_name} order={order} prefix={pre}: {type(got).__name__}: {got}", {"sequence": seq_name, "order": order, "prefix": pre})
                continue
            if got["fields"] != ref["fields"] or got["relations"] != ref["relations"]:
                rep.fail(sig, f"{seq_name} order={order} prefix(persons,companies,how,collect,sweep)={pre}: fields {got['fields']} relations {got['relations']}; on a fresh graph: fields {ref['fields']} relations {ref['relations']}",
                         {"sequence": seq_name, "order": order, "prefix": pre})
            elif pre[3] and pre[4] and got["bookkeeping"] != ref["bookkeeping"]:
                rep.fail(sig + "::bookkeeping", f"{seq_name} order={order} prefix={pre}: (instance index, relation index pairs, edges, nodes) = {got['bookkeeping']}; fresh graph: {ref['bookkeeping']}",
                         {"sequence": seq_name, "order": order, "prefix": pre})
# ---- a dead, not yet swept instance whose id has been taken over by a new instance before the sweep runs
def id_reuse_scenario(seq_name, related):
    fresh_graph()
    keep = Company(name="keep")
    dead = Company(name="dead")
    if related:
        keep.sub_organization_of = [dead]
        keep.sub_organization_of = []          # releases the target; the graph edge stays until the sweep
    dead_id = id(dead)
    del dead
    gc.collect()
    hit, others = None, []
    for i in range(20000):
        o = Company(name="c")
        if id(o) == dead_id:
            hit = o
            break
        others.append(o)
    if hit is None:
        return None
    del others
    gc.collect()
    SymbolGraph().remove_dead_instances()
    objs = {"c": hit, "keep": keep}
    for n in ("p", "q", "d", "c2"):
        objs[n] = MAKE[n]()
    SEQS[seq_name](objs)
    return observe({k: v for k, v in objs.items() if k != "keep"})


for seq_name in SEQS:
    ref = run(seq_name, ("c", "p", "q", "d", "c2"), None)
    for related in (False, True):
        st, got = guarded(lambda: id_reuse_scenario(seq_name, related))
        if st == "ok" and got is None:
            continue            # CPython did not hand out the address again: inconclusive, not counted
        rep.case(("id-reuse", seq_name, related), sample={"sequence": seq_name, "scenario": "id reuse before sweep", "related": related})
        sig = f"{seq_name.split(';')[0].split('.')[0]}::id-reuse-before-sweep"
        if st == "exc":
            rep.fail(sig + "::raised", f"{seq_name} after an unswept dead instance's id was reused (related={related}): {type(got).__name__}: {got}", {"sequence": seq_name})
        elif got["fields"] != ref["fields"] or got["relations"] != ref["relations"]:
            rep.fail(sig, f"{seq_name} after an unswept dead instance's id was reused (related={related}): fields {got['fields']} relations {got['relations']}; fresh graph: {ref['fields']} {ref['relations']}", {"sequence": seq_name})
        elif got["bookkeeping"][3] != ref["bookkeeping"][3] + 1:
            rep.fail(sig + "::bookkeeping", f"{seq_name} after an unswept dead instance's id was reused (related={related}): {got['bookkeeping'][3]} graph nodes, expected {ref['bookkeeping'][3] + 1} (the 5 new instances and `keep`)", {"sequence": seq_name})
# ---- BOTH end points of a new relation sit at addresses of dead, related, not yet swept instances
def dense_dead_pair_scenario():
    fresh_graph()
    old_companies = [Company(name=f"OldCo{i}") for i in range(30)]
    old_people = [Person(name=f"Old{i}") for i in range(300)]
    for p in old_people:
        for c in old_companies:
            p.member_of.append(c)
    dead_people, dead_companies = {id(p) for p in old_people}, {id(c) for c in old_companies}
    del old_people, old_companies, p, c
    gc.collect()
    person = company = None
    spare = []
    for i in range(4000):
        o = Person(name="Alice")
        if id(o) in dead_people:
            person = o
            break
        spare.append(o)
    for i in range(4000):
        o = Company(name="ACME")
        if id(o) in dead_companies:
            company = o
            break
        spare.append(o)
    if person is None or company is None:
        return None
    person.member_of.append(company)
    rels = sorted((getattr(r.source.instance, "name", "<dead>"), r.wrapped_field.name, getattr(r.target.instance, "name", "<dead>"))
                  for r in SymbolGraph().relations() if r.source.instance is person or r.target.instance is person
                  or r.source.instance is company or r.target.instance is company)
    return {"members": sorted(getattr(m, "name", "?") for m in company.members), "member_of": [getattr(c, "name", "?") for c in person.member_of], "relations": rels}


st, got = guarded(dense_dead_pair_scenario)
if not (st == "ok" and got is None):
    rep.case(("dense-dead-pair",), sample={"scenario": "new person and company at the addresses of dead, related, unswept instances"})
    want = {"members": ["Alice"], "member_of": ["ACME"], "relations": [("ACME", "members", "Alice"), ("Alice", "member_of", "ACME")]}
    if st == "exc":
        rep.fail("member_of::both-ids-reused-before-sweep::raised", f"{type(got).__name__}: {got}", {"scenario": "dense-dead-pair"})
    elif got != want:
        rep.fail("member_of::both-ids-reused-before-sweep", f"person.member_of.append(company) with both objects at addresses of dead, related, unswept instances: {got}; on a fresh graph: {want}",
                 {"scenario": "dense-dead-pair"})
# ---- an edge between a DEAD (collected, not yet swept) instance and a live one: asserting a relation on the live one
def dead_neighbour_scenario(direction, sweep):
    fresh_graph()
    a, b, c = Company(name="a"), Company(name="b"), Company(name="c")
    if direction == "dead-source":
        a.sub_organization_of.append(b)       # a -> b, then a dies
    else:
        p = Person(name="p")
        p.works_for = b                        # p -> b (and b.members <- p), then p dies
        del p
    del a
    gc.collect()
    if sweep:
        SymbolGraph().remove_dead_instances()
    b.sub_organization_of.append(c)
    objs = {"b": b, "c": c}
    return observe(objs)["fields"], observe(objs)["relations"]


for direction in ("dead-source", "dead-person"):
    st0, want = guarded(lambda: dead_neighbour_scenario(direction, True))
    st, got = guarded(lambda: dead_neighbour_scenario(direction, False))
    rep.case(("dead-neighbour", direction), sample={"scenario": "a related instance died and is not swept yet", "direction": direction})
    if st == "exc":
        rep.fail(f"sub_org::dead-unswept-neighbour::raised::{type(got).__name__}", f"{direction}: a dead, unswept neighbour of b; b.sub_organization_of.append(c) raised {type(got).__name__}: {got}",
                 {"scenario": "dead-neighbour", "direction": direction})
    elif st0 == "ok" and got != want:
        rep.fail("sub_org::dead-unswept-neighbour", f"{direction}: {got}; after a sweep: {want}", {"scenario": "dead-neighbour", "direction": direction})
# ---- a dead instance was related to a SURVIVING one; after the sweep a new instance (taking over the freed node index) is related to
# the same survivor; and: a relation first inferred, then asserted explicitly, between instances that all die and are replaced
def recycle_scenario(kind, prefix):
    fresh_graph()
    if kind == "survivor":
        b, c = Company(name="b"), Company(name="c")
        b.sub_organization_of.append(c)
        if prefix:
            dead = [Company(name=f"dead{i}") for i in range(3)]
            for d_ in dead:
                d_.sub_organization_of.append(b)
            del dead, d_
            gc.collect()
            SymbolGraph().remove_dead_instances()
        new = Company(name="new")
        new.sub_organization_of.append(b)
        objs = {"new": new, "b": b, "c": c}
    else:
        g = SymbolGraph()
        idx = lambda inst: g.get_wrapped_instance(inst).index
        p = c = None
        if prefix:
            def past():
                c0 = Company(name="old_c")
                p0 = Person(name="old_p")
                ceo0 = CEO(person=p0)
                ceo0.head_of = c0                 # infers works_for / member_of for the role taker
                p0.works_for = c0                 # ... then the same relation is asserted explicitly
                return idx(p0), idx(c0)
            old = past()
            gc.collect()
            g.remove_dead_instances()
            # the new person and company must sit exactly on the node indices of the old ones: try the creation orders
            for order in itertools.permutations(["person", "company", "bystander"]):
                made = {k: (Company(name="c") if k == "company" else Person(name="p" if k == "person" else "bystander")) for k in order}
                if (idx(made["person"]), idx(made["company"])) == old:
                    p, c = made["person"], made["company"]
                    break
                del made
                gc.collect()
                g.remove_dead_instances()
            if p is None:
                return None
        else:
            p, c = Person(name="p"), Company(name="c")
        p.works_for = c
        objs = {"p": p, "c": c}
    o = observe(objs)
    return o["fields"], o["relations"]


for kind in ("survivor", "explicit-after-inferred"):
    st0, want = guarded(lambda: recycle_scenario(kind, False))
    st, got = guarded(lambda: recycle_scenario(kind, True))
    rep.case(("recycle", kind), sample={"scenario": "recycled node indices", "kind": kind})
    if st == "exc":
        rep.fail(f"recycled-indices::{kind}::raised::{type(got).__name__}", f"{kind}: {type(got).__name__}: {got}", {"scenario": "recycle", "kind": kind})
    elif st0 == "ok" and got is not None and got != want:
        rep.fail(f"recycled-indices::{kind}", f"{kind}: after the prefix {got}; on a fresh graph {want}", {"scenario": "recycle", "kind": kind})
# ---- a sweep happens while a LIVE, related instance is falsy (its class has __len__): nothing of it may be swept
from dataclasses import dataclass, field
from typing_extensions import List
from krrood.entity_query_language.predicate import Symbol
from krrood.ontomatic.property_descriptor.mixins import TransitiveProperty
from krrood.ontomatic.property_descriptor.property_descriptor import PropertyDescriptor


@dataclass
class Department(Symbol):
    name: str
    staff: int = 0
    part_of: List["Department"] = field(default_factory=list)

    def __len__(self):
        return self.staff

    def __hash__(self):
        return hash(self.name)


@dataclass
class DepartmentPartOf(PropertyDescriptor, TransitiveProperty):
    ...


Department.part_of = DepartmentPartOf(Department, "part_of")


def falsy_live_scenario(sweep, dead):
    fresh_graph()
    def make_garbage():
        garbage = [Department(name=f"g{i}", staff=1) for i in range(dead)]
        for i in range(len(garbage) - 1):
            garbage[i].part_of.append(garbage[i + 1])
    make_garbage()
    lab, institute, faculty = Department("lab"), Department("institute"), Department("faculty", staff=3)
    lab.part_of.append(institute)                 # both end points are empty departments (falsy) right now
    gc.collect()
    if sweep:
        SymbolGraph().remove_dead_instances()
    institute.part_of.append(faculty)
    ds = {"lab": lab, "institute": institute, "faculty": faculty}
    rels = sorted((r.source.instance.name, r.target.instance.name) for r in SymbolGraph().relations()
                  if r.source.instance is not None and r.target.instance is not None and any(r.source.instance is d for d in ds.values()))
    return {"fields": {n: sorted(x.name for x in d.part_of) for n, d in ds.items()}, "relations": rels,
            "nodes": len([w for w in SymbolGraph().wrapped_instances if w.instance is not None])}


for dead in (0, 2):
    st0, want = guarded(lambda: falsy_live_scenario(False, 0))
    st, got = guarded(lambda: falsy_live_scenario(True, dead))
    rep.case(("falsy-live", dead), sample={"scenario": "sweep while live related instances are falsy", "dead": dead})
    if st == "exc":
        rep.fail("part_of::sweep-while-falsy::raised", f"{type(got).__name__}: {got}", {"scenario": "falsy-live", "dead": dead})
    elif st0 == "ok" and got != want:
        rep.fail("part_of::sweep-while-falsy", f"lab part_of institute, sweep (both are empty departments: falsy), institute part_of faculty: {got}; without the sweep: {want}",
                 {"scenario": "falsy-live", "dead": dead})
fresh_graph()
rep.finish(exhaustive=True)
