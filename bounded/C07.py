"""Bounded stand-in for C07: EQL queries over mapped example classes (Position / Position4D, Orientation with an Optional
column, Pose with two references, Body / FixedConnection / PrismaticConnection for joins) x random database contents.
Every query is evaluated in memory over the objects and, through eql_to_sql, on an in-memory SQLite database holding exactly
those objects (persisted with to_dao).  Outcomes: accepted and same entities | rejected with EQLTranslationError | VIOLATION:
accepted with different entities, or failing with another exception; the(...) must fail in both worlds for the same queries."""
import itertools
import random
from common import args, Report, guarded

import sqlalchemy
from sqlalchemy.orm import Session, configure_mappers
from sqlalchemy.exc import MultipleResultsFound, NoResultFound

from test.dataset.example_classes import Position, Position4D, Orientation, Pose
from test.dataset.semantic_world_like_classes import World, Body, FixedConnection, PrismaticConnection
from test.dataset.ormatic_interface import Base
from krrood.entity_query_language.entity import let, entity, and_, or_, not_, in_, contains, exists
from krrood.entity_query_language.quantify_entity import an, the
from krrood.entity_query_language.failures import MultipleSolutionFound, NoSolutionFound
from krrood.entity_query_language.symbol_graph import SymbolGraph
from krrood.ormatic.dao import to_dao, ToDAOState
from krrood.ormatic.eql_interface import eql_to_sql, EQLTranslationError

a = args()
rng = random.Random(a.seed)
rep = Report("C07", "query shapes: comparisons (== != < <= > >=) of attributes / attribute chains with literals, in_ / contains with literal lists, "
             "and_ / or_ nesting to depth 2, Optional column vs None, subclass-typed variable, relationship-equality joins between two variables, "
             "scalar comparison between two variables, not_ / exists (must be rejected); x 3 random database contents each; an(...) and the(...)", a.out)
configure_mappers()


def make_world(rng):
    """objects + database; returns (session, objects by class, dao_of)"""
    engine = sqlalchemy.create_engine("sqlite://")
    Base.metadata.create_all(engine)
    session = Session(engine)
    vals = [0.0, 1.0, 2.0, 3.0]
    positions = [Position(rng.choice(vals), rng.choice(vals), rng.choice(vals)) for _ in range(rng.randrange(2, 5))]
    positions += [Position4D(rng.choice(vals), rng.choice(vals), rng.choice(vals), rng.choice(vals)) for _ in range(rng.randrange(0, 3))]
    orients = [Orientation(rng.choice(vals), 0.0, 0.0, rng.choice([None, 1.0, 2.0])) for _ in range(3)]
    poses = [Pose(rng.choice(positions), rng.choice(orients)) for _ in range(rng.randrange(2, 5))]
    # two worlds: a connection, its parent and its child may each live in a different one (paths over two relationships,
    # connection.parent.world, must follow the PARENT's world)
    world, world_2 = World(1), World(2)
    bodies = [Body(f"b{i}", world=(world if i < 2 else world_2)) for i in range(4)]
    world.bodies, world_2.bodies = bodies[:2], bodies[2:]
    conns = []
    for _ in range(rng.randrange(2, 5)):
        cls_ = rng.choice([FixedConnection, PrismaticConnection])
        p, c = rng.sample(bodies, 2)
        conns.append(cls_(p, c, world=rng.choice([world, world_2])))
    world.connections = [c for c in conns if c.world is world]
    world_2.connections = [c for c in conns if c.world is world_2]
    state = ToDAOState()
    roots = positions + orients + poses + [world, world_2]
    daos = [to_dao(o, state=state) for o in roots]
    session.add_all(daos)
    session.commit()
    dao_of = lambda o: state.memo[id(o)]
    return session, dict(Position=positions, Position4D=[p for p in positions if isinstance(p, Position4D)], Orientation=orients, Pose=poses,
                         FixedConnection=[c for c in conns if isinstance(c, FixedConnection)],
                         PrismaticConnection=[c for c in conns if isinstance(c, PrismaticConnection)], Body=bodies), dao_of, engine


# ------------------------------------------------------------------------------------------------ query shapes
OPS = {"==": lambda l, r: l == r, "!=": lambda l, r: l != r, "<": lambda l, r: l < r, "<=": lambda l, r: l <= r, ">": lambda l, r: l > r, ">=": lambda l, r: l >= r}


def shapes():
    """name -> builder(objs) -> (selected variable, condition or None, kind)"""
    S = {}
    for op in OPS:
        S[f"position.x {op} 1"] = lambda o, op=op: (p := let(Position, o["Position"]), OPS[op](p.x, 1.0))
        S[f"pose.position.z {op} 2"] = lambda o, op=op: (p := let(Pose, o["Pose"]), OPS[op](p.position.z, 2.0))
    S["position.x == 1 and position.y > 0"] = lambda o: (p := let(Position, o["Position"]), and_(p.x == 1.0, p.y > 0.0))
    S["position.x == 1 or position.z == 3"] = lambda o: (p := let(Position, o["Position"]), or_(p.x == 1.0, p.z == 3.0))
    S["(x==1 or y==2) and z<3"] = lambda o: (p := let(Position, o["Position"]), and_(or_(p.x == 1.0, p.y == 2.0), p.z < 3.0))
    S["x==0 or (y==1 and z==2)"] = lambda o: (p := let(Position, o["Position"]), or_(p.x == 0.0, and_(p.y == 1.0, p.z == 2.0)))
    S["in_(position.x, [0, 2])"] = lambda o: (p := let(Position, o["Position"]), in_(p.x, [0.0, 2.0]))
    S["contains([1, 3], position.y)"] = lambda o: (p := let(Position, o["Position"]), contains([1.0, 3.0], p.y))
    S["in_(position.x, [])"] = lambda o: (p := let(Position, o["Position"]), in_(p.x, []))
    S["position4d.w > 1"] = lambda o: (p := let(Position4D, o["Position4D"]), p.w > 1.0)
    S["position4d.x == 1 (inherited column)"] = lambda o: (p := let(Position4D, o["Position4D"]), p.x == 1.0)
    S["orientation.w == None"] = lambda o: (p := let(Orientation, o["Orientation"]), p.w == None)  # noqa: E711
    S["orientation.w != 1"] = lambda o: (p := let(Orientation, o["Orientation"]), p.w != 1.0)
    S["orientation.w > 1"] = lambda o: (p := let(Orientation, o["Orientation"]), p.w > 1.0)
    S["pose.position.x == 1 and pose.orientation.x == 2"] = lambda o: (p := let(Pose, o["Pose"]), and_(p.position.x == 1.0, p.orientation.x == 2.0))
    S["pose.position.x == 1 or pose.orientation.w == 1"] = lambda o: (p := let(Pose, o["Pose"]), or_(p.position.x == 1.0, p.orientation.w == 1.0))
    S["pose.position.x == pose.position.y (same variable)"] = lambda o: (p := let(Pose, o["Pose"]), p.position.x == p.position.y)
    S["position.x == position.y (same variable)"] = lambda o: (p := let(Position, o["Position"]), p.x == p.y)
    S["fixed.parent == prismatic.child (join)"] = lambda o: (f := let(FixedConnection, o["FixedConnection"]), f.parent == let(PrismaticConnection, o["PrismaticConnection"]).child)
    S["fixed.child == prismatic.parent (join)"] = lambda o: (f := let(FixedConnection, o["FixedConnection"]), f.child == let(PrismaticConnection, o["PrismaticConnection"]).parent)
    # the same joins written the other way round (the SELECTED variable on the right of ==), and with a literal on the left of an ordering
    S["prismatic.child == fixed.parent (join, selected on the right)"] = lambda o: (f := let(FixedConnection, o["FixedConnection"]), let(PrismaticConnection, o["PrismaticConnection"]).child == f.parent)
    S["prismatic.parent == fixed.child (join, selected on the right)"] = lambda o: (f := let(FixedConnection, o["FixedConnection"]), let(PrismaticConnection, o["PrismaticConnection"]).parent == f.child)
    S["fixed.parent == prismatic.parent (join, same attribute)"] = lambda o: (f := let(FixedConnection, o["FixedConnection"]), f.parent == let(PrismaticConnection, o["PrismaticConnection"]).parent)
    for op in ("<", "<=", ">", ">="):
        S[f"literal {op} position.z (value on the left)"] = lambda o, op=op: (p := let(Position, o["Position"]), OPS[op](let(float, [2.0]), p.z))
    S["in_(body.name, ['b0 and more'])"] = lambda o: (b := let(Body, o["Body"]), in_(b.name, ["b0 and more"]))
    S["in_(body.name, ['b1'])"] = lambda o: (b := let(Body, o["Body"]), in_(b.name, ["b1"]))
    S["fixed.parent.name == b0 and fixed.child.name == b1 (two paths to one table)"] = lambda o: (f := let(FixedConnection, o["FixedConnection"]), and_(f.parent.name == "b0", f.child.name == "b1"))
    S["fixed.parent.name == b0 or fixed.child.name == b0 (two paths to one table)"] = lambda o: (f := let(FixedConnection, o["FixedConnection"]), or_(f.parent.name == "b0", f.child.name == "b0"))
    for k_ in ("FixedConnection", "PrismaticConnection"):
        from test.dataset import semantic_world_like_classes as _swl
        C_ = getattr(_swl, k_)
        for w_ in (1, 2):
            S[f"{k_}.parent.world.id == {w_} (two relationships)"] = lambda o, C_=C_, k_=k_, w_=w_: (f := let(C_, o[k_]), f.parent.world.id == w_)
            S[f"{k_}.child.world.id == {w_} (two relationships)"] = lambda o, C_=C_, k_=k_, w_=w_: (f := let(C_, o[k_]), f.child.world.id == w_)
        S[f"{k_}.parent.world.id == 2 and .child.world.id == 1"] = lambda o, C_=C_, k_=k_: (f := let(C_, o[k_]), and_(f.parent.world.id == 2, f.child.world.id == 1))
        S[f"{k_}.parent.world.id != .world.id"] = lambda o, C_=C_, k_=k_: (f := let(C_, o[k_]), f.parent.world.id != f.world.id)
        S[f"{k_}.world.id == 1 (one relationship)"] = lambda o, C_=C_, k_=k_: (f := let(C_, o[k_]), f.world.id == 1)
    S["prismatic.parent.name != prismatic.child.name"] = lambda o: (f := let(PrismaticConnection, o["PrismaticConnection"]), f.parent.name != f.child.name)
    S["x != z and x == q.z (two variables of one type)"] = lambda o: (p := let(Position, o["Position"]), and_(p.x != p.z, p.x == let(Position, o["Position"]).z))
    S["(x==1 and y==2) or z==3"] = lambda o: (p := let(Position, o["Position"]), or_(and_(p.x == 1.0, p.y == 2.0), p.z == 3.0))
    S["z==3 and (x==1 or y==2)"] = lambda o: (p := let(Position, o["Position"]), and_(p.z == 3.0, or_(p.x == 1.0, p.y == 2.0)))
    S["x == 99 (no row)"] = lambda o: (p := let(Position, o["Position"]), p.x == 99.0)
    S["p.x == q.y (two variables, scalars)"] = lambda o: (p := let(Position, o["Position"]), p.x == let(Position, o["Position"]).y)
    S["p.x < q.x (two variables, scalars)"] = lambda o: (p := let(Position, o["Position"]), p.x < let(Position, o["Position"]).x)
    S["pose.position.x == orientation.x (two variables)"] = lambda o: (p := let(Pose, o["Pose"]), p.position.x == let(Orientation, o["Orientation"]).x)
    S["not_(position.x == 1)"] = lambda o: (p := let(Position, o["Position"]), not_(p.x == 1.0))
    S["not_(x==1 and y==2)"] = lambda o: (p := let(Position, o["Position"]), not_(and_(p.x == 1.0, p.y == 2.0)))
    S["exists(q, q.x > p.x)"] = lambda o: (p := let(Position, o["Position"]), exists(q := let(Position, o["Position"]), q.x > p.x))
    # string containment: in memory this is Python's exact (case-sensitive, no wildcards) substring test
    S["contains('b0 B1 b_', body.name) (literal contains attribute)"] = lambda o: (b := let(Body, o["Body"]), contains("b0 B1 b_", b.name))
    S["contains(body.name, 'b') (attribute contains literal)"] = lambda o: (b := let(Body, o["Body"]), contains(b.name, "b"))
    S["contains(body.name, 'B') (attribute contains literal, other case)"] = lambda o: (b := let(Body, o["Body"]), contains(b.name, "B"))
    S["contains(body.name, '_') (attribute contains a LIKE wildcard)"] = lambda o: (b := let(Body, o["Body"]), contains(b.name, "_"))
    S["contains(body.name, '') (empty text)"] = lambda o: (b := let(Body, o["Body"]), contains(b.name, ""))
    S["not contains(body.name, '1')"] = lambda o: (b := let(Body, o["Body"]), not_(contains(b.name, "1")))
    S["in_(body.name, 'b0 B1') (attribute in literal string)"] = lambda o: (b := let(Body, o["Body"]), in_(b.name, "b0 B1"))
    S["no condition"] = lambda o: (p := let(Position, o["Position"]), None)
    return S


def ids(objs, dao_of):
    return sorted(id(dao_of(o)) for o in objs)


N_WORLDS = {"quick": 3, "thorough": 40}.get(a.tier, 3)
SHAPES = shapes()
for wi in range(N_WORLDS):
    SymbolGraph().clear()
    SymbolGraph()
    session, objs, dao_of, engine = make_world(rng)
    try:
        for name, build in SHAPES.items():
            for quant in ("an", "the"):
                inp = {"query": name, "quantifier": quant, "world": wi, "seed": a.seed}
                st, built = guarded(lambda: build(objs))
                if st == "exc":
                    continue
                var, cond = built
                mk = an if quant == "an" else the
                q = mk(entity(var, cond)) if cond is not None else mk(entity(var))
                # in memory
                if quant == "an":
                    st_m, mem = guarded(lambda: [r for r in q.evaluate()])
                else:
                    st_m, mem = guarded(lambda: [q.evaluate()])
                mem_fail = st_m == "exc"
                if mem_fail and not isinstance(mem, (MultipleSolutionFound, NoSolutionFound)):
                    continue                                  # the in-memory engine itself cannot evaluate it: not C07's subject
                q2 = mk(entity(*build(objs)[:1], *([build(objs)[1]] if False else []))) if False else q
                st_t, tr = guarded(lambda: eql_to_sql(q, session))
                rep.case((name, quant, wi), sample=inp if wi == 0 and quant == "an" else None)
                if st_t == "exc":
                    if isinstance(tr, EQLTranslationError):
                        continue                              # rejected: fine
                    rep.fail(f"translation-raises-other::{name}::{type(tr).__name__}", f"{quant}({name}): translation raised {type(tr).__name__} "
                             f"instead of an EQLTranslationError: {str(tr)[:160]}", inp)
                    continue
                st_s, rows = guarded(lambda: tr.evaluate())
                if quant == "the":
                    sql_fail = st_s == "exc" and isinstance(rows, (MultipleResultsFound, NoResultFound))
                    if st_s == "exc" and not sql_fail:
                        rep.fail(f"execution-raises::{name}::{type(rows).__name__}", f"the({name}): executing the statement raised {type(rows).__name__}: {str(rows)[:160]}", inp)
                        continue
                    if sql_fail != mem_fail:
                        rep.fail(f"the-disagrees::{name}", f"the({name}): in memory {'fails' if mem_fail else 'succeeds'}, on the database {'fails' if sql_fail else 'succeeds'}", inp)
                        continue
                    if not mem_fail and id(rows) != id(dao_of(mem[0])):
                        rep.fail(f"different-entities::{name}", f"the({name}): the database returns another entity than in-memory evaluation", inp)
                    continue
                if st_s == "exc":
                    rep.fail(f"execution-raises::{name}::{type(rows).__name__}", f"an({name}): executing the statement raised {type(rows).__name__}: {str(rows)[:160]}", inp)
                    continue
                got = sorted(id(r) for r in rows)
                want = ids(mem, dao_of)
                if got != want:
                    kind = "multiplicity" if sorted(set(got)) == sorted(set(want)) else "content"
                    rep.fail(f"different-entities::{name}::{kind}", f"an({name}): the database returns {len(got)} rows ({len(set(got))} distinct), in-memory evaluation {len(want)} "
                             f"({len(set(want))} distinct); statement: {str(tr.sql_query)[:200]}", inp)
    finally:
        session.close()
        engine.dispose()
SymbolGraph().clear()
rep.finish()
