"""Shared generator + brute-force first-order oracle for EQL queries (bounded stand-ins of C01, C02, C03, C10).

Expressions are tuples; `build` turns one into a real krrood expression over real variables, `holds` evaluates it under an
assignment by ordinary first-order reading (written from the property text, not from the code)."""
import itertools
import operator
from dataclasses import dataclass, field

from krrood.entity_query_language.entity import and_, or_, not_, contains, in_, entity, set_of, let, exists, for_all, flatten
from krrood.entity_query_language.quantify_entity import an, the
from krrood.entity_query_language.predicate import symbolic_function


@dataclass(eq=False)
class P:
    a: int
    b: int
    items: list = field(default_factory=list)
    name: str = ""

    @property
    def tags(self):
        """a partially ordered value (frozenset): <= is the subset relation"""
        return frozenset(self.items)

    def __repr__(self):
        return f"P{self.name}(a={self.a},b={self.b},items={self.items})"


OPS = {"==": operator.eq, "!=": operator.ne, "<": operator.lt, ">=": operator.ge, "<=": operator.le, ">": operator.gt}


@symbolic_function
def bigger(p, q):
    return p > q


def plain_bigger(p, q):
    return p > q


# ---------------------------------------------------------------- operands / conditions
def operand_value(o, asg):
    k = o[0]
    if k == "var":
        return asg[o[1]]
    if k == "attr":
        return getattr(asg[o[1]], o[2])
    if k == "const":
        return o[1]
    if k == "idx":
        return operand_value(o[1], asg)[o[2]]
    if k == "fn":          # the result of a symbolic function used as a value
        return plain_bigger(operand_value(o[1], asg), operand_value(o[2], asg))
    raise ValueError(o)


def holds(e, asg, domains):
    k = e[0]
    if k == "cmp":
        return bool(OPS[e[1]](operand_value(e[2], asg), operand_value(e[3], asg)))
    if k == "contains":
        return operand_value(e[2], asg) in operand_value(e[1], asg)
    if k == "pred":
        return bool(plain_bigger(operand_value(e[1], asg), operand_value(e[2], asg)))
    if k == "truth":        # a bare operand written as a condition: its truth value
        return bool(operand_value(e[1], asg))
    if k == "eqsub":      # operand == an(entity(u, cond)): the operand is one of the u that satisfy cond (under the outer assignment)
        return any(holds(e[3], {**asg, e[2]: v}, domains) and operand_value(e[1], asg) == v for v in domains[e[2]])
    if k == "and":
        return holds(e[1], asg, domains) and holds(e[2], asg, domains)
    if k == "or":
        return holds(e[1], asg, domains) or holds(e[2], asg, domains)
    if k == "not":
        return not holds(e[1], asg, domains)
    if k == "exists":
        return any(holds(e[2], {**asg, e[1]: v}, domains) for v in domains[e[1]])
    if k == "forall":
        return all(holds(e[2], {**asg, e[1]: v}, domains) for v in domains[e[1]])
    if k == "true":
        return True
    raise ValueError(e)


def operand_vars(o):
    if o[0] in ("var", "attr"):
        return {o[1]}
    if o[0] == "idx":
        return operand_vars(o[1])
    if o[0] == "fn":
        return operand_vars(o[1]) | operand_vars(o[2])
    return set()


def free_vars(e):
    k = e[0]
    if k == "cmp":
        return operand_vars(e[2]) | operand_vars(e[3])
    if k in ("contains", "pred"):
        return operand_vars(e[1]) | operand_vars(e[2])
    if k == "truth":
        return operand_vars(e[1])
    if k == "eqsub":
        return operand_vars(e[1]) | (free_vars(e[3]) - {e[2]})
    if k in ("and", "or"):
        return free_vars(e[1]) | free_vars(e[2])
    if k == "not":
        return free_vars(e[1])
    if k in ("exists", "forall"):
        return free_vars(e[2]) - {e[1]}
    return set()


def all_vars(e):
    k = e[0]
    if k in ("exists", "forall"):
        return all_vars(e[2]) | {e[1]}
    if k == "eqsub":
        return operand_vars(e[1]) | all_vars(e[3]) | {e[2]}
    if k in ("and", "or"):
        return all_vars(e[1]) | all_vars(e[2])
    if k == "not":
        return all_vars(e[1])
    return free_vars(e)


def skeleton(e):
    k = e[0]
    if k in ("cmp", "contains", "pred"):
        vs = sorted(free_vars(e))
        kind = {"cmp": "cmp", "contains": "in", "pred": "pred"}[k]
        ints = any(v.startswith("n") for v in vs)
        return f"{kind}[{','.join(vs)}]" + ("#int" if ints else "")
    if k == "truth":
        return f"truth[{','.join(sorted(operand_vars(e[1])))}]"
    if k == "eqsub":
        return f"eq-subquery[{','.join(sorted(operand_vars(e[1])))}]({e[2]};{skeleton(e[3])})"
    if k in ("and", "or"):
        return f"{k}({skeleton(e[1])},{skeleton(e[2])})"
    if k == "not":
        return f"not({skeleton(e[1])})"
    if k in ("exists", "forall"):
        return f"{k}({e[1]};{skeleton(e[2])})"
    return k


def shape_signature(e):
    """Abstracts variable names to sharing patterns: not(or(A[x],A[y])) and not(or(A[y],A[x])) coincide."""
    s = skeleton(e)
    names = []
    out = ""
    i = 0
    import re
    def repl(m):
        v = m.group(0)
        if v not in names:
            names.append(v)
        return "v%d" % names.index(v) if not v.startswith("n") else "n%d" % names.index(v)
    return re.sub(r"\b[xyzun]\d?\b", repl, s)


# ---------------------------------------------------------------- building real queries
class Env:
    def __init__(self, domains, as_generators=False, share_attrs=False, share_conds=False):
        self.domains = domains
        self.share_conds = share_conds      # `p = pred(x.a, y.b)` written once and used in several positions of the condition
        self.cond_cache = {}
        self.share_attrs = share_attrs      # `a = x.a` written once and used in several conditions (one node, several positions)
        self.attr_cache = {}
        self.vars = {}
        for name, dom in domains.items():
            typ = int if name.startswith("n") else P
            src = (v for v in list(dom)) if as_generators else list(dom)
            self.vars[name] = let(typ, src, name=name)

    def operand(self, o):
        k = o[0]
        if k == "var":
            return self.vars[o[1]]
        if k == "attr":
            if self.share_attrs:
                if (o[1], o[2]) not in self.attr_cache:
                    self.attr_cache[(o[1], o[2])] = getattr(self.vars[o[1]], o[2])
                return self.attr_cache[(o[1], o[2])]
            return getattr(self.vars[o[1]], o[2])
        if k == "const":
            return o[1]
        if k == "idx":
            return self.operand(o[1])[o[2]]
        if k == "fn":
            return bigger(self.operand(o[1]), self.operand(o[2]))
        raise ValueError(o)

    def build(self, e):
        k = e[0]
        if self.share_conds and k in ("cmp", "contains", "pred"):
            if e not in self.cond_cache:
                self.share_conds = False
                try:
                    self.cond_cache[e] = self.build(e)
                finally:
                    self.share_conds = True
            return self.cond_cache[e]
        if k == "cmp":
            l, r = self.operand(e[2]), self.operand(e[3])
            return OPS[e[1]](l, r)
        if k == "contains":
            return contains(self.operand(e[1]), self.operand(e[2]))
        if k == "pred":
            return bigger(self.operand(e[1]), self.operand(e[2]))
        if k == "truth":
            return self.operand(e[1])
        if k == "eqsub":
            return self.operand(e[1]) == an(entity(self.vars[e[2]], self.build(e[3])))
        if k == "and":
            return and_(self.build(e[1]), self.build(e[2]))
        if k == "or":
            return or_(self.build(e[1]), self.build(e[2]))
        if k == "not":
            return not_(self.build(e[1]))
        if k == "exists":
            return exists(self.vars[e[1]], self.build(e[2]))
        if k == "forall":
            return for_all(self.vars[e[1]], self.build(e[2]))
        raise ValueError(e)

    def query(self, selected, cond):
        conds = [] if cond is None else [self.build(cond)]
        if len(selected) == 1 and selected[0][0] == "var":
            return an(entity(self.vars[selected[0][1]], *conds)), "entity"
        self.selected_exprs = [self.operand(s) for s in selected]
        return an(set_of(self.selected_exprs, *conds)), "set_of"


def key_of_value(v):
    return ("obj", id(v)) if isinstance(v, P) else ("val", repr(v))


def oracle_rows(selected, cond, domains):
    """All satisfying total assignments of the query's (non-quantified) variables, projected on the selection."""
    qvars = sorted(set().union(*[operand_vars(s) for s in selected]) | (free_vars(cond) if cond else set()))
    rows = []
    for combo in itertools.product(*[domains[v] for v in qvars]):
        asg = dict(zip(qvars, combo))
        if cond is None or holds(cond, asg, domains):
            rows.append(tuple(key_of_value(operand_value(s, asg)) for s in selected))
    return rows


def run_query(env, selected, cond):
    q, kind = env.query(selected, cond)
    rows = []
    for r in q.evaluate():
        if kind == "entity":
            rows.append((key_of_value(r),))
        else:
            rows.append(tuple(key_of_value(r[x]) for x in env.selected_exprs))
    return rows


# ---------------------------------------------------------------- worlds and atoms
def worlds():
    """Domain contents: value-equal twins, falsy attribute values, empty collections, an empty domain."""
    def mk(specs):
        return [P(a, b, list(items), name=str(i)) for i, (a, b, items) in enumerate(specs)]
    w1 = mk([(0, 1, [0]), (1, 1, []), (2, 0, [1, 2])])
    w2 = mk([(0, 0, []), (0, 0, []), (1, 2, [0, 1])])       # twins
    w3 = mk([(1, 0, [1])])
    return [
        {"x": w1, "y": w1, "z": w1, "u": w1, "n": [0, 1, 2, 3]},
        {"x": w2, "y": w1[:2], "z": w2, "u": w2[1:], "n": [0, 1]},
        {"x": w1, "y": w3, "z": w1, "u": [], "n": [2, 0]},
        {"x": w3, "y": w2, "z": [], "u": w1, "n": [0]},
        # distinct elements with colliding hashes / equal values: hash(-1) == hash(-2), 1 == True (used for int conditions only)
        {"x": w3, "y": w3, "z": w3, "u": w3, "n": [-2, -1, 1, True, 0]},
    ]


def atoms(vars_=("x", "y")):
    out = []
    for v in vars_:
        out += [("cmp", "==", ("attr", v, "a"), ("const", 0)), ("cmp", "<", ("attr", v, "a"), ("const", 2)),
                ("cmp", ">=", ("attr", v, "b"), ("const", 1)), ("contains", ("attr", v, "items"), ("const", 1))]
    if len(vars_) > 1:
        a, b = vars_[0], vars_[1]
        out += [("cmp", "==", ("attr", a, "a"), ("attr", b, "b")), ("cmp", "<", ("attr", a, "a"), ("attr", b, "a")),
                ("contains", ("attr", b, "items"), ("attr", a, "a")), ("pred", ("attr", a, "a"), ("attr", b, "b")),
                ("cmp", "!=", ("var", a), ("var", b)),
                ("pred", ("attr", a, "a"), ("attr", a, "b")), ("cmp", "<", ("attr", b, "b"), ("attr", b, "a"))]
    return out


def partial_order_atoms():
    return [("cmp", "<=", ("attr", "x", "tags"), ("attr", "y", "tags")), ("cmp", "<", ("attr", "x", "tags"), ("attr", "y", "tags")),
            ("cmp", ">=", ("attr", "x", "tags"), ("attr", "y", "tags")), ("cmp", ">", ("attr", "y", "tags"), ("attr", "x", "tags"))]


def int_atoms():
    return [("cmp", ">=", ("var", "n"), ("const", 0)), ("cmp", "<", ("var", "n"), ("const", 3)), ("cmp", "==", ("var", "n"), ("const", 0)),
            ("cmp", "!=", ("var", "n"), ("const", 2))]
