"""Bounded stand-in for C20 (weak-reference census): create / relate / query / discard loops; after dropping every user
reference and gc.collect() the harness's weak references must be dead and the sizes of krrood's process-wide structures
must be back to their values before the loop."""
import gc
import itertools
import weakref
from dataclasses import dataclass
from common import args, Report, guarded

from test.dataset.university_ontology_like_classes import Company, Person, CEO
from krrood.entity_query_language.symbol_graph import SymbolGraph
from krrood.entity_query_language.predicate import Symbol
from krrood.entity_query_language.symbolic import SymbolicExpression
from krrood.entity_query_language.rxnode import RWXNode
from krrood.entity_query_language.entity import entity, let, and_
from krrood.entity_query_language.quantify_entity import an

a = args()
rep = Report("C20", "scenarios of <= 6 steps from [create persons/companies, relate (works_for / members / member_of), build a query with an explicit or "
             "implicit domain, evaluate it fully / partially, drop everything]; weak-reference census + sizes of the process-wide structures", a.out)


def root_sizes():
    g = SymbolGraph()
    return {
        "graph nodes": len(g.wrapped_instances),
        "graph edges": len(list(g.relations())),
        "_instance_index": len(g._instance_index),
        "_relation_index pairs": sum(len(v) for v in g._relation_index.values()),
        "_class_to_wrapped_instances": sum(len(v) for v in g._class_to_wrapped_instances.values()),
        "_id_expression_map_": len(SymbolicExpression._id_expression_map_),
        "expression graph nodes": RWXNode._graph.num_nodes(),
        "expression stack": len(SymbolicExpression._symbolic_expression_stack_),
    }


def scenario(relate, query, consume):
    """returns (weakrefs, description)"""
    ps = [Person(name=f"p{i}") for i in range(3)]
    cs = [Company(name=f"c{i}") for i in range(2)]
    refs = [weakref.ref(o) for o in ps + cs]
    if relate == "works_for":
        ps[0].works_for = cs[0]
        ps[1].works_for = cs[0]
    elif relate == "members":
        cs[1].members.add(ps[2])
    elif relate == "sub_org":
        cs[0].sub_organization_of = [cs[1]]
    elif relate == "self-loop":
        cs[0].sub_organization_of.append(cs[0])          # an instance related to itself (the only pair of that field)
    elif relate == "role":
        # a relation asserted on a ROLE of a person (inferred on the role taker), then the role is dropped with the rest
        ceo = CEO(person=ps[0])
        refs.append(weakref.ref(ceo))
        ceo.head_of = cs[1]
        del ceo
    elif relate == "read-back":
        # the managed fields are also READ (containers and single values), not only written
        cs[1].members.add(ps[2])
        ps[1].member_of.append(cs[0])
        seen = [len(cs[1].members), len(ps[1].member_of), ps[2].works_for, list(cs[0].members), cs[0].sub_organization_of]
        del seen
    elif relate == "two-kinds-on-one-pair":
        ps[0].works_for = cs[0]          # asserts WorksFor and infers MemberOf on the same ordered pair
        ps[0].member_of.append(cs[0])
    q = None
    if query == "explicit-domain":
        v = let(Person, ps)
        q = an(entity(v, v.name != "zzz"))
    elif query == "implicit-domain":
        v = let(Person, None)
        q = an(entity(v, v.name != "zzz"))
    elif query == "two-variables":
        v = let(Person, ps)
        w = let(Company, cs)
        q = an(entity(v, v.works_for == w))
    if q is not None:
        if consume == "all":
            res = list(q.evaluate())
            del res
        elif consume == "first":
            it = iter(q.evaluate())
            r = next(it, None)
            del r, it
        elif consume == "none":
            pass
    del ps, cs, q
    try:
        del v
        del w
    except NameError:
        pass
    return refs


def late_sweep_history(n, relate):
    """create / relate / drop n times with collections in between but NO sweep until the end (freed addresses and node
    indices are reused while dead wrappers are still registered)"""
    refs = []
    for i in range(n):
        p = Person(name=f"lp{i}")
        c = Company(name=f"lc{i}")
        refs += [weakref.ref(p), weakref.ref(c)]
        if relate == "works_for":
            p.works_for = c
        elif relate == "members":
            c.members.add(p)
        del p, c
        gc.collect()
    return refs


RELATES = ["none", "works_for", "members", "sub_org", "self-loop", "role", "read-back", "two-kinds-on-one-pair"]
# ---- histories WITHOUT queries on a fresh graph, each kind alone and first: nothing of an earlier scenario (the listed
# expression-registry finding keeps instances of query scenarios alive) shares an index entry with the instances under test, so
# e.g. the self pair really is the only pair of its field when it is swept.  The sweep must not raise and must leave nothing.
for relate in RELATES:
    for repeat in range(3):
        if repeat == 0:
            SymbolGraph().clear()
            SymbolGraph()
        refs = scenario(relate, "no-query", "all")
        gc.collect()
        inp = {"relate": relate, "query": "no-query", "consume": "all", "fresh_graph": True, "repeat": repeat}
        rep.case(("fresh", relate, repeat), sample=inp)
        try:
            SymbolGraph().remove_dead_instances()
        except Exception as e:
            rep.fail(f"sweep-raises::no-query::{relate}", f"fresh graph, relate={relate}, round {repeat}: remove_dead_instances() raised {type(e).__name__}: {e}", inp)
            break
        gc.collect()
        alive = sum(1 for r in refs if r() is not None)
        if alive:
            rep.fail(f"kept-alive::no-query::fresh::{relate}", f"fresh graph, relate={relate}: {alive} of {len(refs)} instances still alive", inp)
        g_ = SymbolGraph()
        left = {"graph nodes": len(g_.wrapped_instances), "graph edges": len(list(g_.relations())), "_instance_index": len(g_._instance_index),
                "_relation_index pairs": sum(len(v) for v in g_._relation_index.values()),
                "_class_to_wrapped_instances": sum(len(v) for v in g_._class_to_wrapped_instances.values())}
        left = {k: v for k, v in left.items() if v}
        if left:
            rep.fail(f"bookkeeping-grows::no-query::fresh::{'+'.join(sorted(left))}", f"fresh graph, relate={relate}, round {repeat}: left behind {left}", inp)
        del g_
SymbolGraph().clear()
SymbolGraph()
# warm-up so that lazily created structures exist before the baseline is taken
scenario("works_for", "explicit-domain", "all")
gc.collect()
SymbolGraph().remove_dead_instances()

for relate, query, consume in itertools.product(RELATES, ["no-query", "explicit-domain", "implicit-domain", "two-variables"], ["all", "first", "none"]):
    if query == "no-query" and consume != "all":
        continue
    gc.collect()
    SymbolGraph().remove_dead_instances()
    before = root_sizes()
    refs = scenario(relate, query, consume)
    gc.collect()
    SymbolGraph().remove_dead_instances()
    gc.collect()
    after = root_sizes()
    alive = sum(1 for r in refs if r() is not None)
    rep.case((relate, query, consume), sample={"relate": relate, "query": query, "consume": consume})
    inp = {"relate": relate, "query": query, "consume": consume}
    qkind = "no-query" if query == "no-query" else ("built-not-evaluated" if consume == "none" else "evaluated")
    if alive:
        rep.fail(f"kept-alive::{qkind}::{query}", f"relate={relate} query={query} consume={consume}: {alive} of {len(refs)} instances are still alive after every user reference was dropped", inp)
    grown = {k: (before[k], after[k]) for k in before if after[k] > before[k]}
    graph_keys = [k for k in grown if not k.startswith(("_id_expression", "expression"))]
    expr_keys = [k for k in grown if k.startswith(("_id_expression", "expression"))]
    if graph_keys:
        rep.fail(f"bookkeeping-grows::{qkind}::{'+'.join(sorted(graph_keys))}", f"relate={relate} query={query} consume={consume}: {dict((k, grown[k]) for k in graph_keys)}", inp)
    if expr_keys:
        rep.fail(f"expression-registry-grows::{qkind}", f"relate={relate} query={query} consume={consume}: {dict((k, grown[k]) for k in expr_keys)}", inp)
# ---- a LONG-LIVED owner: members are added, removed again through the ordinary set / list API, and dropped by the program
KEEPER = Company(name="keeper")
for how in ("discard", "remove", "pop", "clear", "-=", "list-remove", "list-pop", "del-item"):
    gc.collect()
    SymbolGraph().remove_dead_instances()
    before = root_sizes()
    ps_ = [Person(name=f"member{i}") for i in range(3)]
    refs = [weakref.ref(x_) for x_ in ps_]
    p_ = None
    if how.startswith(("list", "del")):
        holder = Person(name="holder")
        others = [Company(name=f"tmp{i}") for i in range(3)]
        refs = [weakref.ref(o_) for o_ in others] + [weakref.ref(holder)]
        for o_ in others:
            holder.member_of.append(o_)
        if how == "list-remove":
            for o_ in others:
                holder.member_of.remove(o_)
        elif how == "list-pop":
            while len(holder.member_of):
                holder.member_of.pop()
        else:
            del holder.member_of[:]
        del others, o_, holder
    else:
        for p_ in ps_:
            KEEPER.members.add(p_)
        if how == "discard":
            for p_ in ps_:
                KEEPER.members.discard(p_)
        elif how == "remove":
            for p_ in ps_:
                KEEPER.members.remove(p_)
        elif how == "pop":
            while len(KEEPER.members):
                KEEPER.members.pop()
        elif how == "clear":
            KEEPER.members.clear()
        else:
            KEEPER.members -= set(ps_)
    del ps_, p_
    gc.collect()
    SymbolGraph().remove_dead_instances()
    gc.collect()
    after = root_sizes()
    alive = sum(1 for r in refs if r() is not None)
    inp = {"history": "long-lived owner", "removed_with": how}
    rep.case(("long-lived-owner", how), sample=inp)
    if alive:
        rep.fail(f"kept-alive::no-query::removed-from-a-long-lived-container::{how}", f"members added to a long-lived company, removed with {how}, dropped: {alive} of {len(refs)} are still alive", inp)
    grown = {k: (before[k], after[k]) for k in before if after[k] > before[k] and not k.startswith(("_id_expression", "expression"))}
    if grown and not alive:
        rep.fail(f"bookkeeping-grows::no-query::removed-from-a-long-lived-container::{how}", f"removed with {how}: {grown}", inp)
for relate in ("none", "works_for", "members"):
    for n in (5, 40):
        gc.collect()
        SymbolGraph().remove_dead_instances()
        before = root_sizes()
        refs = late_sweep_history(n, relate)
        gc.collect()
        SymbolGraph().remove_dead_instances()
        gc.collect()
        after = root_sizes()
        alive = sum(1 for r in refs if r() is not None)
        inp = {"history": "late-sweep", "relate": relate, "n": n}
        rep.case(("late-sweep", relate, n), sample=inp)
        if alive:
            rep.fail("kept-alive::no-query::late-sweep", f"late sweep relate={relate} n={n}: {alive} of {len(refs)} instances are still alive", inp)
        grown = {k: (before[k], after[k]) for k in before if after[k] > before[k] and not k.startswith(("_id_expression", "expression"))}
        if grown:
            rep.fail(f"bookkeeping-grows::no-query::late-sweep::{'+'.join(sorted(grown))}", f"late sweep relate={relate} n={n}: {grown}", inp)
SymbolGraph().clear()
rep.finish(exhaustive=True)
