"""Bounded stand-in for C08: rule trees built with refinement / alternative / next_rule in nested with-blocks over one
variable, vs a reference ripple-down-rules interpreter applied to every element of the domain."""
import itertools
from dataclasses import dataclass
from common import args, Report, guarded

from krrood.entity_query_language.conclusion import Add
from krrood.entity_query_language.entity import let, entity, inference
from krrood.entity_query_language.quantify_entity import an
from krrood.entity_query_language.rule import refinement, alternative, next_rule


@dataclass(eq=False)
class Item:
    a: int


@dataclass(eq=False)
class Base:
    item: Item = None


KINDS = []
for i in range(8):
    KINDS.append(dataclass(eq=False)(type(f"K{i}", (Base,), {})))

a_ = args()
rep = Report("C08", "rule trees over one variable: base rule, refinement chains of depth <= 3, alternative chains of length <= 3 at every level, "
             "next_rule, nested combinations up to 5 branches; conditions are thresholds on an int attribute; domain 0..6; reference RDR interpreter", a_.out)

# a rule: dict(cond=(lo, hi) meaning lo <= x.a < hi, kind=int, ref=rule|None, alts=[rules], nexts=[rules])


def R(lo, hi, ref=None, alts=(), nexts=(), sib=None):
    """sib: a SECOND refinement written after `ref` at the same level (sibling exceptions of one rule; the later one is asked first)"""
    return {"cond": (lo, hi), "ref": ref, "alts": list(alts), "nexts": list(nexts), "sib": sib}


def number(rule, counter):
    rule["kind"] = next(counter)
    if rule["ref"]:
        number(rule["ref"], counter)
    if rule.get("sib"):
        number(rule["sib"], counter)
    for r in rule["alts"] + rule["nexts"]:
        number(r, counter)


def holds(rule, x):
    lo, hi = rule["cond"]
    return lo <= x < hi


def ref_eval(rule, x):
    """reference: conclusions for element x of the chain headed by `rule` (rule, then its alternatives in order), plus nexts."""
    out = []
    fired = False
    for r in [rule] + rule["alts"]:
        if holds(r, x):
            fired = True
            if r is rule or True:
                inner = ref_eval_single(r, x)
                out += inner
            break
    for nx in rule["nexts"]:
        out += ref_eval(nx, x)[0]
    return out, fired


def ref_eval_single(r, x):
    """r's condition holds: the deepest refinement whose conditions also hold overrides (a refinement is itself the head of an
    else-if chain of the alternatives written inside its block)."""
    if r["ref"] is not None:
        inner, fired = ref_eval(r["ref"], x)
        if fired:
            return inner
    else:
        inner = []
    if r.get("sib") is not None:          # the exception written second is asked when the first does not hold
        inner2, fired2 = ref_eval(r["sib"], x)
        if fired2:
            return inner2
        inner = inner + inner2
    return [(r["kind"], x)] + [c for c in inner]      # nexts of an unfired refinement still add


def build(rule, x, v, top=False):
    """emit the with-blocks for `rule` whose own condition context is already open"""
    Add(v, inference(KINDS[rule["kind"]])(item=x))
    if rule["ref"] is not None:
        r = rule["ref"]
        with refinement(x.a >= r["cond"][0], x.a < r["cond"][1]):
            build(r, x, v)
    if rule.get("sib") is not None:
        r2 = rule["sib"]
        with refinement(x.a >= r2["cond"][0], x.a < r2["cond"][1]):
            build(r2, x, v)
    for alt in rule["alts"]:
        with alternative(x.a >= alt["cond"][0], x.a < alt["cond"][1]):
            build_inner(alt, x, v)
    for nx in rule["nexts"]:
        with next_rule(x.a >= nx["cond"][0], x.a < nx["cond"][1]):
            build(nx, x, v)


def build_inner(rule, x, v):
    # an alternative's own alternatives belong to the chain head in this driver (alts of alts are not generated)
    Add(v, inference(KINDS[rule["kind"]])(item=x))
    if rule["ref"] is not None:
        r = rule["ref"]
        with refinement(x.a >= r["cond"][0], x.a < r["cond"][1]):
            build(r, x, v)


def build_branches(rule, x, v):
    """the branches of `rule` without its own conclusion"""
    if rule["ref"] is not None:
        r = rule["ref"]
        with refinement(x.a >= r["cond"][0], x.a < r["cond"][1]):
            build(r, x, v)
    if rule.get("sib") is not None:
        r2 = rule["sib"]
        with refinement(x.a >= r2["cond"][0], x.a < r2["cond"][1]):
            build(r2, x, v)
    for alt in rule["alts"]:
        with alternative(x.a >= alt["cond"][0], x.a < alt["cond"][1]):
            build_inner(alt, x, v)
    for nx in rule["nexts"]:
        with next_rule(x.a >= nx["cond"][0], x.a < nx["cond"][1]):
            build(nx, x, v)


def run(tree, dom, mode="one-block"):
    """mode: one-block | branches-then-conclusion (two `with query:` blocks, the base rule's conclusion written in the second) |
    conclusion-then-branches (two blocks) | second-variable (the base rule also ranges over a variable the conclusions do not mention)"""
    items = [Item(a) for a in dom]
    x = let(Item, items)
    lo, hi = tree["cond"]
    if mode == "second-variable":
        z = let(Item, [Item(100), Item(101)])
        q = an(entity(v := inference(Base)(), x.a >= lo, x.a < hi, z.a >= 100))
    else:
        q = an(entity(v := inference(Base)(), x.a >= lo, x.a < hi))
    if mode in ("one-block", "second-variable"):
        with q:
            build(tree, x, v, top=True)
    elif mode == "branches-then-conclusion":
        with q:
            build_branches(tree, x, v)
        with q:
            Add(v, inference(KINDS[tree["kind"]])(item=x))
    else:
        with q:
            Add(v, inference(KINDS[tree["kind"]])(item=x))
        with q:
            build_branches(tree, x, v)
    got = []
    for r in q.evaluate():
        got.append((int(type(r).__name__[1:]), r.item.a))
    return sorted(set(got)) if mode == "second-variable" else sorted(got)


def expected(tree, dom):
    out = []
    for a in dom:
        out += ref_eval(tree, a)[0]
    return sorted(out)


def shape_name(rule):
    s = "R"
    if rule["ref"]:
        s += "[ref:" + shape_name(rule["ref"]) + "]"
    if rule.get("sib"):
        s += "[sibling-ref:" + shape_name(rule["sib"]) + "]"
    if rule["alts"]:
        s += "[alts:" + ",".join(shape_name(r) for r in rule["alts"]) + "]"
    if rule["nexts"]:
        s += "[next:" + ",".join(shape_name(r) for r in rule["nexts"]) + "]"
    return s


def trees():
    # base covers [0,5); refinements / alternatives with overlapping thresholds
    yield R(0, 5)
    yield R(0, 5, ref=R(2, 9))
    yield R(0, 5, ref=R(2, 9, ref=R(3, 9)))
    yield R(0, 5, ref=R(1, 9, ref=R(2, 9, ref=R(4, 9))))
    # sibling refinements of one rule (two exceptions written one after the other)
    yield R(0, 6, ref=R(0, 2), sib=R(4, 9))
    yield R(0, 6, ref=R(1, 4), sib=R(3, 9))
    yield R(0, 6, ref=R(4, 9), sib=R(0, 2), alts=[R(0, 9)])
    yield R(0, 3, alts=[R(0, 5)])
    yield R(0, 2, alts=[R(0, 4), R(0, 6)])
    yield R(0, 2, alts=[R(0, 4), R(0, 5), R(0, 7)])
    yield R(0, 2, alts=[R(3, 5), R(1, 7)])
    yield R(0, 5, nexts=[R(1, 3)])
    yield R(0, 3, nexts=[R(2, 6)])
    yield R(0, 5, ref=R(2, 9), alts=[R(0, 7)])
    yield R(0, 4, ref=R(2, 9, alts=[R(1, 9)]))
    yield R(0, 4, ref=R(3, 9, alts=[R(1, 9), R(0, 9)]))
    yield R(0, 3, alts=[R(0, 6, ref=R(4, 9))])
    yield R(0, 3, alts=[R(0, 5, ref=R(4, 9)), R(0, 7)])
    yield R(0, 5, ref=R(2, 9), nexts=[R(0, 2)])
    yield R(0, 5, ref=R(1, 9, ref=R(3, 9)), alts=[R(0, 7)], nexts=[R(4, 6)])
    yield R(0, 4, nexts=[R(0, 9, ref=R(2, 9))])
    # also-if chains of two, next rules inside refinements / alternatives, mixed chains
    yield R(0, 5, nexts=[R(1, 3), R(2, 6)])
    yield R(0, 6, nexts=[R(0, 3), R(0, 3)])
    yield R(0, 5, ref=R(2, 9, nexts=[R(3, 9)]))
    yield R(0, 6, ref=R(1, 9, nexts=[R(2, 5), R(4, 9)]))
    yield R(0, 3, alts=[R(0, 6, nexts=[R(4, 9)])])
    yield R(0, 3, nexts=[R(1, 5)], alts=[R(0, 6)])
    yield R(0, 3, alts=[R(2, 6)], nexts=[R(1, 5), R(5, 7)])
    yield R(0, 6, ref=R(2, 9, alts=[R(1, 9)], nexts=[R(3, 5)]))     # (a next rule that fires where its refinement chain does not is ambiguous: not generated)
    yield R(0, 7, nexts=[R(0, 4, ref=R(2, 9), nexts=[R(1, 3)])])
    if a_.tier == "thorough":
        for l1, l2, l3 in itertools.product(range(0, 4), repeat=3):
            yield R(0, 5, ref=R(l1, 9, ref=R(l2, 9)), alts=[R(0, 6 + (l3 % 2))])
            yield R(0, 2, alts=[R(0, 3 + l1 % 2), R(0, 5), R(l3, 7)])


for tree in trees():
    import copy
    t = copy.deepcopy(tree)
    number(t, itertools.count())
    for dom in ([0, 1, 2, 3, 4, 5, 6], [6, 4, 4, 1], []):
        st, got = guarded(lambda: run(t, dom))
        want = expected(t, dom)
        shape = shape_name(t)
        rep.case((repr(tree), tuple(dom)), nontrivial=bool(want), sample={"tree": repr(tree), "domain": dom})
        inp = {"tree": tree, "domain": dom}
        if st == "exc":
            rep.fail(f"raised::{shape}", f"tree {tree} over {dom}: {type(got).__name__}: {got}", inp)
        elif got != want:
            rep.fail(f"selection::{shape}", f"tree {tree} over {dom}: concluded {got}, reference {want}", inp)
    # the same tree written in two `with query:` blocks, and with a base rule over a second variable the conclusions do not mention
    dom = [0, 1, 2, 3, 4, 5, 6]
    for mode in ("branches-then-conclusion", "conclusion-then-branches", "second-variable"):
        if mode != "second-variable" and not (t["ref"] or t["alts"] or t["nexts"]):
            continue
        st, got = guarded(lambda: run(t, dom, mode))
        want = sorted(set(expected(t, dom))) if mode == "second-variable" else expected(t, dom)
        rep.case((repr(tree), mode), nontrivial=bool(want), sample={"tree": repr(tree), "written": mode})
        inp = {"tree": tree, "domain": dom, "written": mode}
        if st == "exc":
            rep.fail(f"raised::{mode}::{shape_name(t)}", f"tree {tree} ({mode}): {type(got).__name__}: {got}", inp)
        elif got != want:
            rep.fail(f"selection::{mode}::{shape_name(t)}", f"tree {tree} written as {mode}: concluded {got}, reference {want}", inp)
# ---- the base rule is a bare predicate / symbolic function call (no comparison): its truth still decides which branch is taken
from krrood.entity_query_language.predicate import HasType, symbolic_function


@dataclass(eq=False)
class SubItem(Item):
    pass


@symbolic_function
def is_even(v):
    return v % 2 == 0


for label, mk_base, holds_base in (("HasType(x, SubItem)", lambda x: HasType(x, SubItem), lambda it: isinstance(it, SubItem)),
                                   ("is_even(x.a)", lambda x: is_even(x.a), lambda it: it.a % 2 == 0)):
    for branch in ("alternative", "next_rule", "refinement"):
        items = [SubItem(0), Item(1), SubItem(2), Item(3), SubItem(5)]
        x = let(Item, items)
        q = an(entity(v := inference(Base)(), mk_base(x)))
        with q:
            Add(v, inference(KINDS[0])(item=x))
            with {"alternative": alternative, "next_rule": next_rule, "refinement": refinement}[branch](x.a >= 2):
                Add(v, inference(KINDS[1])(item=x))
        st, got = guarded(lambda: sorted((int(type(r).__name__[1:]), r.item.a) for r in q.evaluate()))
        want = []
        for it in items:
            b, c = holds_base(it), it.a >= 2
            if branch == "alternative":
                want += [(0, it.a)] if b else ([(1, it.a)] if c else [])
            elif branch == "next_rule":
                want += ([(0, it.a)] if b else []) + ([(1, it.a)] if c else [])
            else:
                want += ([(1, it.a)] if c else [(0, it.a)]) if b else []
        want = sorted(want)
        rep.case(("predicate-base", label, branch), nontrivial=True, sample={"base": label, "branch": branch})
        inp = {"base": label, "branch": branch}
        if st == "exc":
            rep.fail(f"raised::predicate-base::{branch}", f"base rule {label} with a {branch}: {type(got).__name__}: {got}", inp)
        elif got != want:
            rep.fail(f"selection::predicate-base::{branch}", f"base rule {label} with a {branch}(x.a >= 2): concluded {got}, reference {want}", inp)
rep.finish(exhaustive=False)
