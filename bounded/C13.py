"""Bounded stand-in for C13 (census driver): histories of create / drop / collect / query over a class hierarchy with a
diamond; after every query the result must equal the harness's own weak-reference census (instances created since the
graph was (re)created), each once."""
import gc
import itertools
import multiprocessing
import zlib
import weakref
from dataclasses import dataclass, make_dataclass
from common import args, Report, guarded

from krrood.entity_query_language.predicate import Symbol
from krrood.entity_query_language.symbol_graph import SymbolGraph
from krrood.entity_query_language.entity import entity, let
from krrood.entity_query_language.quantify_entity import an


@dataclass(eq=False)
class A(Symbol):
    tag: int = 0


@dataclass(eq=False)
class B(A):
    pass


@dataclass(eq=False)
class C(A):
    pass


@dataclass(eq=False)
class D(B, C):
    pass


@dataclass
class V(Symbol):          # value-equal twins (dataclass equality)
    v: int = 0

    def __hash__(self):
        return id(self)


@dataclass(eq=False)
class F(A):               # live instances are FALSY (an empty container / a switched-off flag is still an instance)
    def __bool__(self):
        return False

    def __len__(self):
        return 0


CLASSES = {"A": A, "B": B, "C": C, "D": D, "V": V, "F": F}
a = args()
DEPTH = 5 if a.tier == "quick" else 6
rep = Report("C13", f"all histories of <= {DEPTH} operations from [create A|B|C|D|V, drop oldest, drop newest, collect, query A, query B, query V, "
             "clear graph] (pruned: at most 4 creations), census comparison after every query", a.out)
OPS = ["create A", "create B", "create D", "create V", "drop oldest", "drop newest", "collect", "query A", "query B", "query V", "clear"]
# longer scripted histories (index reuse after a death between two others, subclasses defined after the graph exists)
SCENARIOS = [
    ["create B", "create B", "create B", "drop middle", "query A", "create B", "drop newest", "query A", "query B"],
    ["create A", "create A", "create A", "create A", "drop middle", "drop middle", "query A", "create A", "create A", "drop newest", "query A"],
    ["create B", "query A", "define L(B)", "create L", "query A", "query B", "query L"],
    ["query A", "define L(A)", "create L", "query A", "define M(L)", "create M", "query A", "query L"],
    ["create D", "define L(D)", "create L", "query A", "query B", "drop newest", "query A"],
    ["create A", "clear", "define L(B)", "create L", "create B", "query A", "query B"],
    ["create V", "create V", "drop oldest", "query V", "create V", "query V", "drop oldest", "query V"],
    ["create B", "drop oldest", "create B", "query A", "drop oldest", "create B", "create B", "query B"],
    ["create A", "create B", "create D", "drop oldest", "collect", "create A", "query A", "drop middle", "query A", "query B"],
    ["create F", "query A", "create F", "create B", "query A", "query F", "drop oldest", "query A"],
    ["create B", "declare A", "create B", "create D", "evaluate", "query A"],
    ["create B", "create B", "declare B", "drop oldest", "evaluate"],
    ["declare A", "create A", "create F", "evaluate", "create B", "evaluate"],
    ["declare A", "evaluate", "create A", "evaluate", "create B", "evaluate"],          # first evaluated while no instance exists
    ["declare B", "evaluate", "create A", "evaluate", "create D", "evaluate", "drop newest", "evaluate"],
    ["declare A", "clear", "create A", "create B", "evaluate"],                             # the graph is re-created between let() and the first evaluation
    ["create V", "declare-with-condition A", "create A", "evaluate", "create B", "create A", "evaluate", "drop oldest", "evaluate"],
    ["declare-with-condition B", "evaluate", "create V", "create B", "evaluate", "create D", "evaluate"],
    ["clear-no-recreate", "create A", "create B", "query A"],
    ["create A", "clear-no-recreate", "create B", "create B", "query A", "query B"],
]


def run(history):
    SymbolGraph().clear()
    SymbolGraph()
    held = []          # strong refs held by the "user"
    census = []        # (weakref, class) of everything created since the last clear
    n = 0
    classes = dict(CLASSES)
    for step, op in enumerate(history):
        if op.startswith("define"):
            name, base = op.split()[1].rstrip(")").split("(")
            run.counter = getattr(run, "counter", 0) + 1
            classes[name] = make_dataclass(f"{name}_{run.counter}", [("tag", int, 0)], bases=(classes[base],), eq=False)
            continue
        if op.startswith("create"):
            cls = classes[op.split()[1]]
            o = cls(n) if cls is not V else cls(0)
            n += 1
            held.append(o)
            census.append((weakref.ref(o), cls))
            del o
        elif op == "drop oldest" and held:
            held.pop(0)
        elif op == "drop newest" and held:
            held.pop()
        elif op == "drop middle" and len(held) > 2:
            held.pop(1)
        elif op == "collect":
            gc.collect()
        elif op == "clear":
            SymbolGraph().clear()
            SymbolGraph()
            census = []
        elif op == "clear-no-recreate":
            SymbolGraph().clear()       # the next instance creation has to bring the graph back by itself
            census = []
        elif op.startswith("declare-with-condition"):
            # the selected variable occurs in NO condition; the condition is over another domain-less variable
            declared_cls = classes[op.split()[1]]
            other = let(V, None)
            declared = an(entity(let(declared_cls, None), other.v >= 0))
            declared_needs = V
        elif op.startswith("declare"):
            declared_cls = classes[op.split()[1]]
            declared = an(entity(let(declared_cls, None)))        # evaluated later: the range is taken at EVALUATION time
            declared_needs = None
        elif op == "evaluate":
            gc.collect()
            st, got = guarded(lambda: list(declared.evaluate()))
            # the census is taken AFTER the evaluation: an instance the user dropped may have been kept alive by what the earlier
            # evaluation of this query object cached, and dies when the new evaluation starts (the results only hold instances that
            # were alive anyway)
            gc.collect()
            want = [r() for r, c in census if r() is not None and issubclass(c, declared_cls)]
            if declared_needs is not None and not [1 for r, c in census if r() is not None and issubclass(c, declared_needs)]:
                want = []
            if st == "exc":
                if not want and isinstance(got, ValueError):
                    continue
                return f"step {step} {op}: raised {type(got).__name__}: {got}", "raised"
            if declared_needs is not None:
                got = list({id(o_): o_ for o_ in got}.values())          # one row per (selected, other) pair: compare the selected instances
            if sorted(map(id, got)) != sorted(map(id, want)):
                kind = "duplicate" if len(got) > len(set(map(id, got))) else ("missing" if len(got) < len(want) else "wrong")
                return f"step {step} evaluate (declared earlier): got {got!r}, census {want!r}", kind + "-declared-earlier"
            del got, want
        elif op.startswith("query"):
            cls = classes[op.split()[1]]
            gc.collect()       # the census is taken over what exists now
            want = [r() for r, c in census if r() is not None and issubclass(c, cls)]
            st, got = guarded(lambda: list(an(entity(let(cls, None))).evaluate()))
            if st == "exc":
                if not want and isinstance(got, ValueError):
                    continue   # krrood cannot evaluate a variable with an empty domain: outside C13 (documented), not counted
                return f"step {step} {op}: raised {type(got).__name__}: {got}", "raised"
            if sorted(map(id, got)) != sorted(map(id, want)):
                kind = "duplicate" if len(got) > len(set(map(id, got))) else ("missing" if len(got) < len(want) else "wrong")
                return f"step {step} {op}: got {got!r}, census {want!r}", kind
            del got, want
    return None, None


def histories():
    for h in SCENARIOS:
        yield tuple(h)
    for d in range(1, DEPTH + 1):
        for h in itertools.product(OPS, repeat=d):
            if not h[-1].startswith("query"):
                continue
            if sum(1 for o in h if o.startswith("create")) > 4:
                continue
            if d == DEPTH and (zlib.crc32(repr(h).encode()) + a.seed) % (80 if a.tier == "quick" else 32):
                continue
            yield h


def work(h):
    return h, run(h)


with multiprocessing.get_context("fork").Pool(16) as pool:
    for h, (msg, kind) in pool.imap_unordered(work, histories(), chunksize=64):
        rep.case(h, nontrivial=any(o.startswith("create") for o in h), sample={"history": list(h)})
        if msg:
            rep.fail(f"census::{kind}::{'after-clear' if 'clear' in h else 'no-clear'}", f"history {list(h)}: {msg}", {"history": list(h)})
SymbolGraph().clear()
rep.finish(exhaustive=False)
