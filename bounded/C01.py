"""Bounded stand-in for C01 (never counted as proved): expression shapes x domain contents, result set vs brute-force
first-order oracle; every row of a multi-expression selection must be one consistent assignment."""
import itertools
import multiprocessing
import zlib
from common import args, Report, guarded
import eqlgen as G

a = args()
rep = Report("C01", "conditions of depth <= 2 (quick) / 3 (thorough, sampled) over 9 atoms on two object variables + 4 atoms on an int "
             "variable, and_/or_/not_, exists/for_all over a third variable; 4 worlds (twins, falsy values, empty collections, "
             "empty domain); selections: one variable, two variables, variable+attribute; set comparison with the oracle", a.out)

A2 = G.atoms(("x", "y"))
AI = G.int_atoms()
AP = G.partial_order_atoms()


def conditions():
    base = A2 + AI
    for e in base:
        yield e
        yield ("not", e)
    for e1, e2 in itertools.product(A2, repeat=2):
        if e1 is e2:
            continue
        for k in ("and", "or"):
            yield (k, e1, e2)
            yield ("not", (k, e1, e2))
    for e1, e2 in itertools.product(AI, repeat=2):
        if e1 is not e2:
            yield ("and", e1, e2)
            yield ("or", e1, e2)
            yield ("not", ("or", e1, e2))
    for e1 in A2[:3]:
        for e2 in AI[:2]:
            yield ("and", e1, e2)
            yield ("or", e2, e1)
    # one condition in several positions: (p and c1) or (not p and c2), p and not p, ...
    for p_ in (A2[0], A2[3], A2[11], A2[13]):        # comparisons, a membership test and two predicate calls
        for c1, c2 in ((A2[1], A2[2]), (A2[2], A2[5] if len(A2) > 5 else A2[1])):
            yield ("or", ("and", p_, c1), ("and", ("not", p_), c2))
            yield ("or", ("and", ("not", p_), c1), ("and", p_, c2))
            yield ("and", ("or", p_, c1), ("or", ("not", p_), c2))
    # a bare attribute as a condition (its truth value), alone and next to comparisons of the SAME attribute (in the shared-node
    # mode one Attribute object then sits in condition and in operand position)
    TA, TB, TY = ("truth", ("attr", "x", "a")), ("truth", ("attr", "x", "b")), ("truth", ("attr", "y", "a"))
    for t_ in (TA, TB):
        yield t_
        yield ("not", t_)
        for c_ in (("cmp", "==", t_[1], ("attr", "y", "b")), ("cmp", ">=", t_[1], ("const", 0)), ("cmp", "<", ("attr", "y", "a"), t_[1])):
            yield ("and", ("not", t_), c_)
            yield ("and", t_, c_)
            yield ("or", t_, c_)
            yield ("and", c_, ("not", t_))
    yield ("and", TA, ("not", TY))
    yield ("or", ("and", TA, TB), ("not", TA))
    # the (possibly falsy) result of a symbolic function as an OPERAND of a comparison
    FN = ("fn", ("attr", "x", "a"), ("attr", "y", "b"))
    FN1 = ("fn", ("attr", "x", "a"), ("attr", "x", "b"))
    for f_ in (FN, FN1):
        for c_ in (("cmp", "==", f_, ("const", False)), ("cmp", "!=", f_, ("const", True)), ("cmp", "==", f_, ("const", True))):
            yield c_
            yield ("not", c_)
            yield ("and", A2[1], c_)
    # a nested sub-query as an operand, correlated with a variable of the enclosing query or not
    SUBS = [("eqsub", ("var", "x"), "u", ("cmp", "==", ("attr", "u", "a"), ("attr", "y", "b"))),
            ("eqsub", ("var", "x"), "u", ("cmp", "<", ("attr", "u", "a"), ("attr", "y", "a"))),
            ("eqsub", ("var", "x"), "u", ("cmp", "<", ("attr", "u", "a"), ("const", 2))),
            ("eqsub", ("var", "y"), "u", ("contains", ("attr", "u", "items"), ("attr", "x", "a"))),
            # the WHOLE condition of the nested query is a bare (possibly falsy) operand / its negation / a predicate
            ("eqsub", ("var", "x"), "u", ("truth", ("attr", "u", "a"))),
            ("eqsub", ("var", "x"), "u", ("truth", ("attr", "u", "b"))),
            ("eqsub", ("var", "y"), "u", ("not", ("truth", ("attr", "u", "a"))))]
    for sq in SUBS:
        yield sq
        yield ("and", sq, A2[1])
        yield ("and", A2[6], sq)
    # quantified conditionals over u
    QA = [("cmp", "<", ("attr", "x", "a"), ("attr", "u", "a")), ("cmp", "==", ("attr", "x", "b"), ("attr", "u", "b")),
          ("contains", ("attr", "u", "items"), ("attr", "x", "a")), ("cmp", ">=", ("attr", "x", "a"), ("attr", "u", "a"))]
    for p in AP:                      # partially ordered values: not (a <= b) is not (a > b)
        yield p
        yield ("not", p)
        yield ("and", ("not", p), A2[0])
    for q in QA:
        for atom in (A2[0], A2[2], A2[3]):   # a quantified conditional on either side of a disjunction / conjunction
            yield ("or", ("exists", "u", q), atom)
            yield ("or", atom, ("exists", "u", q))
            yield ("or", ("forall", "u", q), atom)
            yield ("or", atom, ("forall", "u", q))
            yield ("not", ("or", ("forall", "u", q), atom))
    for q in QA:
        yield ("exists", "u", q)
        yield ("forall", "u", q)
        yield ("not", ("exists", "u", q))
        yield ("and", ("exists", "u", q), A2[1])
        yield ("and", A2[2], ("forall", "u", q))
    if a.tier == "thorough":
        pool = [("and", p, q) for p, q in itertools.product(A2[:6], repeat=2) if p is not q] + [("or", p, q) for p, q in itertools.product(A2[:6], repeat=2) if p is not q]
        for e1 in pool:
            for e2 in A2[4:]:
                for k in ("and", "or"):
                    if (zlib.crc32(repr((k, e1, e2)).encode()) + a.seed) % 6 == 0:
                        yield (k, e1, e2)
                        yield ("not", (k, e1, e2))


def selections(cond):
    fv = sorted(G.free_vars(cond)) if cond else []
    if "n" in fv:
        yield (("var", "n"),)
        others = [v for v in fv if v != "n"]
        if others:
            yield (("var", "n"), ("var", others[0]))
        return
    yield (("var", "x"),)
    if "y" in fv:
        yield (("var", "y"),)
        yield (("var", "x"), ("var", "y"))
    yield (("var", "x"), ("attr", "x", "a"))


def work(job):
    wi, cond, sel, share = job
    domains = G.worlds()[wi]
    env = G.Env(domains, share_attrs=(share is True), share_conds=(share == "conds"))
    st, got = guarded(lambda: G.run_query(env, sel, cond))
    want = G.oracle_rows(sel, cond, domains)
    return wi, cond, sel, share, st, (repr(got) if st == "exc" else got), want


jobs = []
for wi in range(len(G.worlds())):
    for cond in itertools.chain([None], conditions()):
        if wi == 4 and (cond is None or "n" not in G.free_vars(cond)):
            continue
        for sel in selections(cond):
            jobs.append((wi, cond, sel, False))
            if cond is not None and cond[0] in ("and", "or", "not"):
                jobs.append((wi, cond, sel, True))
                if len(repr(cond)) != len(repr(cond).replace("'not'", "")) and cond[0] in ("and", "or") and cond[1][0] in ("and", "or"):
                    jobs.append((wi, cond, sel, "conds"))
seen = set()
with multiprocessing.get_context("fork").Pool(16) as pool:
    for wi, cond, sel, share, st, got, want in pool.imap_unordered(work, jobs, chunksize=32):
        sig_shape = (G.shape_signature(cond) if cond else "no-condition") + ("#shared-condition-nodes" if share == "conds" else "#shared-attribute-nodes" if share else "")
        selk = "+".join(s[0] for s in sel)
        rep.case((wi, repr(cond), sel, share), nontrivial=bool(want), sample={"world": wi, "condition": repr(cond), "selected": sel})
        inp = {"world": wi, "condition": cond, "selected": sel, "shared_attribute_nodes": share}
        if st == "exc":
            rep.fail(f"raised::{sig_shape}::{selk}", f"world {wi} cond {cond!r} selecting {sel}: {got}", inp)
            continue
        gs, ws = set(got), set(want)
        if gs != ws:
            kind = "unsound" if gs - ws else "incomplete"
            rep.fail(f"{kind}::{sig_shape}::{selk}", f"world {wi} cond {cond!r} selecting {sel}: returned {len(gs - ws)} rows that do not satisfy, misses {len(ws - gs)} of {len(ws)} satisfying rows",
                     inp)
rep.finish(exhaustive=(a.tier == "thorough"))
