"""Bounded stand-in for C18: values of the grammar (leaves incl. unicode / extreme numbers, UUIDs, the test suite's
Animal/Dog/Bulldog/Cat subclasses, nested lists up to depth 3) through REAL json.dumps / json.loads; plus native validation
of the assumed json / uuid contracts."""
import itertools
import json
import random
import uuid
from common import args, Report, guarded

from krrood.adapters.json_serializer import to_json, from_json, JSON_TYPE_NAME, SubclassJSONSerializer
from krrood.utils import get_full_class_name
from test.test_utils.test_json_serializer import Animal, Dog, Bulldog, Cat

from dataclasses import dataclass


@dataclass
class Puppy(Dog):
    """inherits to_json / _from_json from Dog (tag: __main__.Puppy)"""


@dataclass
class FrenchBulldog(Bulldog):
    pass


@dataclass
class Route(Animal):
    """a serialisable object that is also iterable and sized: still ONE object, not a list"""

    def __iter__(self):
        return iter([self.name, self.age])

    def __len__(self):
        return 2


@dataclass
class Basket(Animal):
    """a serialisable object that is FALSY when it holds nothing (it defines __len__): an object like any other"""
    items: int = 0

    def __len__(self):
        return self.items

    def to_json(self):
        return {**super().to_json(), "name": self.name, "age": self.age, "items": self.items}

    @classmethod
    def _from_json(cls, data, **kwargs):
        return cls(data["name"], data["age"], data["items"])


@dataclass
class Switch(Animal):
    """... or because it defines __bool__"""
    on: bool = False

    def __bool__(self):
        return self.on

    def to_json(self):
        return {**super().to_json(), "name": self.name, "age": self.age, "on": self.on}

    @classmethod
    def _from_json(cls, data, **kwargs):
        return cls(data["name"], data["age"], data["on"])


# user-registered external types that are related by inheritance, base registered first: each keeps its own pair
import datetime
import fractions
from krrood.adapters.json_serializer import JSONSerializableTypeRegistry
JSONSerializableTypeRegistry().register(datetime.date, lambda o: {JSON_TYPE_NAME: "datetime.date", "value": o.isoformat()},
                                        lambda d: datetime.date.fromisoformat(d["value"]))
JSONSerializableTypeRegistry().register(datetime.datetime, lambda o: {JSON_TYPE_NAME: "datetime.datetime", "value": o.isoformat()},
                                        lambda d: datetime.datetime.fromisoformat(d["value"]))

# registered types with falsy values
JSONSerializableTypeRegistry().register(fractions.Fraction, lambda o: {JSON_TYPE_NAME: "fractions.Fraction", "value": [o.numerator, o.denominator]},
                                        lambda d: fractions.Fraction(*d["value"]))
JSONSerializableTypeRegistry().register(datetime.timedelta, lambda o: {JSON_TYPE_NAME: "datetime.timedelta", "value": o.total_seconds()},
                                        lambda d: datetime.timedelta(seconds=d["value"]))


@dataclass
class Sensor(SubclassJSONSerializer):
    """payload fields called like the keys a dispatcher might look at"""
    type: str
    json_type: str = "x"

    def to_json(self):
        return {**super().to_json(), "type": self.type, "json_type": self.json_type, "class": "Dog"}

    @classmethod
    def _from_json(cls, data, **kwargs):
        return cls(data["type"], data["json_type"])


# two modules that define serialisable classes with the same simple names
import os as _os, sys as _sys, tempfile as _tempfile, importlib as _importlib
_TMP = _tempfile.mkdtemp(prefix="c18_")
_sys.path.insert(0, _TMP)
for _m in ("c18_shapes_a", "c18_shapes_b"):
    with open(_os.path.join(_TMP, _m + ".py"), "w") as _f:
        _f.write("from dataclasses import dataclass\nfrom krrood.adapters.json_serializer import SubclassJSONSerializer\n\n\n@dataclass\nclass Point(SubclassJSONSerializer):\n    x: int\n\n"
                 "    def to_json(self):\n        return {**super().to_json(), 'x': self.x}\n\n    @classmethod\n    def _from_json(cls, data, **kwargs):\n        return cls(data['x'])\n\n\n"
                 "@dataclass\nclass NamedPoint(Point):\n    pass\n")
_A, _B = _importlib.import_module("c18_shapes_a"), _importlib.import_module("c18_shapes_b")

a = args()
rng = random.Random(a.seed)
rep = Report("C18", "leaves (None, bools, ints up to 10**300, floats incl. inf/-inf/1e-320/-0.0, unicode and escape-laden strings), "
             "UUIDs, Animal/Dog/Bulldog/Cat objects, and every list nesting of them up to depth 3 / width 3; real json text", a.out)

LEAVES = [None, True, False, 0, -1, 1, 2 ** 63, -2 ** 64, 10 ** 300, 0.0, -0.0, 1.5, 1e308, 1e-320, float("inf"), float("-inf"),
          "", "a", "é", "日本語", "\u0000", "퟿", "\"quoted\"", "back\\slash", "line\nbreak", "\U0001F600", " ", "null", "true", "1",
          "__json_type__", "krrood.adapters.json_serializer.SubclassJSONSerializer", "Infinity", "-Infinity", "NaN", "inf", "nan", "None", "[]"]
OBJECTS = [uuid.UUID(int=0), uuid.UUID("12345678-1234-5678-1234-567812345678"), uuid.uuid4(),
           Sensor("camera"), Sensor("test.test_utils.test_json_serializer.Dog", "krrood.adapters.json_serializer.SubclassJSONSerializer"),
           _A.Point(1), _B.Point(2), _A.NamedPoint(3), _B.NamedPoint(4), _A.Point(5),
           Basket("empty", 1, 0), Basket("full", 1, 3), Switch("off", 1, False), Switch("on", 1, True),
           fractions.Fraction(0), fractions.Fraction(1, 3), datetime.timedelta(0), datetime.timedelta(seconds=90),
           Route("r", 5), datetime.date(2020, 2, 29), datetime.datetime(2020, 2, 29, 12, 30, 1),
           Puppy("p", 0, "lab"), FrenchBulldog("f", 1, "fb", True), Animal("a", 1), Dog("d", 2, "lab"), Dog("d", 0), Bulldog("b", 3, "bull", False), Bulldog("", 0), Cat("c", 4, 7), Cat("é", -1)]


def exact_equal(x, y):
    if type(x) is not type(y):
        return False
    if isinstance(x, (Animal, Sensor, _A.Point, _B.Point)):
        return type(x) is type(y) and vars(x) == vars(y)
    if isinstance(x, list):
        return len(x) == len(y) and all(exact_equal(p, q) for p, q in zip(x, y))
    if isinstance(x, float):
        return x == y and str(x) == str(y)      # distinguishes -0.0 / 0.0
    return x == y


def roundtrip(v):
    return from_json(json.loads(json.dumps(to_json(v))))


def check(v, kind):
    st, r = guarded(lambda: roundtrip(v))
    rep.case(repr(v)[:200], sample={"value": repr(v)[:120]})
    if st == "exc":
        rep.fail(f"roundtrip::{kind}::raised", f"{v!r}: {type(r).__name__}: {r}", {"value": repr(v)})
    elif not exact_equal(r, v):
        rep.fail(f"roundtrip::{kind}", f"{v!r} came back as {r!r} ({type(r).__name__})", {"value": repr(v)})


for v in LEAVES:
    check(v, "leaf")
for o in OBJECTS:
    check(o, "object")
    j = to_json(o)
    if j.get(JSON_TYPE_NAME) != get_full_class_name(type(o)):
        rep.fail("tag", f"{o!r}: serialised form carries {j.get(JSON_TYPE_NAME)!r}, expected {get_full_class_name(type(o))!r}", {"value": repr(o)})
ATOMS = LEAVES[:8] + LEAVES[16:20] + [o for o in OBJECTS if not isinstance(o, uuid.UUID)][:18] + OBJECTS[:2]
# every ordered pair of serialisable objects in ONE list (two objects of one class, of related classes, of same-named classes):
# serialised forms must not share state
for x_ in OBJECTS:
    for y_ in OBJECTS:
        if x_ is not y_:
            check([x_, y_], "pair")
            check([x_, [y_], x_], "pair-nested")


def lists(depth, width):
    if depth == 0:
        yield from ATOMS
        return
    yield []
    inner = list(itertools.islice(lists(depth - 1, width), 0, 40))
    for w in range(1, width + 1):
        for _ in range(12 if a.tier == "quick" else 60):
            yield [rng.choice(inner) for _ in range(w)]


for d in (1, 2, 3):
    for v in lists(d, 3):
        check(v, f"list-depth-{d}")

# ---- assumed contracts
CORPUS = LEAVES + [[1, [2, [3, [None, "x", 1.5]]]], {"a": [1, {"b": None}]}, [[]], [{}], {"": ""}, list(range(50))]
nest = []
for _ in range(50):
    nest = [nest]
CORPUS.append(nest)
for j in CORPUS:
    rep.case(("json", repr(j)[:80]))
    back = json.loads(json.dumps(j))

    def eq(x, y):
        if type(x) is not type(y):
            return False
        if isinstance(x, list):
            return len(x) == len(y) and all(eq(p, q) for p, q in zip(x, y))
        if isinstance(x, dict):
            return list(x) == list(y) and all(eq(x[k], y[k]) for k in x)
        return x == y
    if not eq(back, j):
        rep.fail("assumption::json-loads-dumps", f"json.loads(json.dumps({j!r})) == {back!r}", {"value": repr(j)})
for u in (uuid.UUID(int=0), uuid.UUID(int=2 ** 128 - 1), uuid.uuid4(), uuid.uuid1()):
    rep.case(("uuid", str(u)))
    if uuid.UUID(str(u)) != u:
        rep.fail("assumption::uuid-str", f"UUID(str({u!r})) != u", {})
import importlib
for C in (Animal, Dog, Bulldog, Cat, uuid.UUID, SubclassJSONSerializer):
    rep.case(("import", C.__name__))
    if getattr(importlib.import_module(C.__module__), C.__name__) is not C or "." in C.__name__:
        rep.fail("assumption::import-resolves-class", f"{C!r}", {})
rep.finish(exhaustive=False)
