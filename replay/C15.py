"""Replay of a failed C15 obligation: the obligation is about one inference rule of PropertyDescriptorRelation, so the bounded
driver (all orders of small assertion sets on the university dataset against a naive fixpoint) is run against the real
package and its first failing assertion order is the concrete witness."""
from _via_bounded import main
main("C15")
