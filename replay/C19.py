"""Replay of a C19 counter-model against the real from_json (run under /venv/bin/python)."""
import json
import sys

from krrood.adapters import json_serializer as js

doc = json.load(open(sys.argv[1]))
CANON = {"function": ["os.getcwd"], "module": ["os.path", "json.decoder"], "typevar-like": ["typing.T"],
         "unregistered-class": ["builtins.int"], "missing": ["os.nonexistent_xyz"],
         "none-object": ["builtins.None"], "serializer-subclass": ["krrood.adapters.json_serializer.SubclassJSONSerializer"], "registered-class": ["uuid.UUID"]}
KIND = {"null": [None], "true": [True], "false": [False], "int": [5, 0, -1], "float": [1.5], "list-empty": [[]], "list": [["a.b"]],
        "dict-empty": [{}], "dict": [{"a": 1}]}
msgs = []
for e in doc["models"]:
    m = e.get("model") or {}
    tags = []
    k = m.get("tag_kind")
    if k == "absent":
        tags.append(("absent",))
    elif k == "str":
        if "tag" in m:
            tags.append(m["tag"])
        if m.get("module_exists") is False:
            tags.append("nonexistent_mod_xyz.X")
        tags += CANON.get(m.get("attribute"), [])
    elif k == "int" and "tag_int" in m:
        tags.append(int(m["tag_int"]))
    tags += KIND.get(k, [])
    for t in tags:
        data = {"payload": 1} if t == ("absent",) else {js.JSON_TYPE_NAME: t}
        try:
            r = js.from_json(data)
            outcome = ("returned", r)
        except js.JSONSerializationError as ex:
            outcome = ("documented", ex)
        except NotImplementedError as ex:
            outcome = ("handover", ex)
        except BaseException as ex:
            msgs.append(f"from_json with type tag {t!r} raised {type(ex).__name__}: {ex}")
            continue
        ob = doc["obligation"].split("::")[-1]
        if outcome[0] == "documented" and "-only-" in ob and not ob.startswith("only-JSON"):
            # mapping obligation "<Error>-only-<when>": the model's canonical tag is of a kind for which <Error> is wrong
            err = ob.split("-only-")[0]
            if type(outcome[1]).__name__.startswith(err) and t in CANON.get(m.get("attribute"), []) + ([m.get("tag")] if "tag" in m else []):
                msgs.append(f"from_json with type tag {t!r} raised {type(outcome[1]).__name__}, which misreports the problem (obligation {ob})")
        if outcome[0] == "returned" and "handover" in ob:
            msgs.append(f"from_json with type tag {t!r} returned {outcome[1]!r}")
if msgs:
    print(json.dumps({"confirmed": True, "what": msgs[0], "all": msgs}))
else:
    print(json.dumps({"confirmed": False, "what": None}))
