"""Replay of a C09 counter-model against the real code (run under /venv/bin/python)."""
import json
import sys

from krrood.entity_query_language.entity import entity, let
from krrood.entity_query_language.quantify_entity import an, the
from krrood.entity_query_language.result_quantification_constraint import Exactly, AtLeast, AtMost, Range
from krrood.entity_query_language import failures as F

doc = json.load(open(sys.argv[1]))
oid = doc["obligation"]


def spec_bounds(c):
    if isinstance(c, Exactly):
        return c.value, c.value
    if isinstance(c, AtLeast):
        return c.value, None
    if isinstance(c, AtMost):
        return 0, c.value
    return c.at_least.value, c.at_most.value


def run(n, c, use_the):
    x = let(int, list(range(1, n + 1)))
    got = []
    try:
        if use_the:
            got.append(the(entity(x)).evaluate())
        else:
            for v in an(entity(x), quantification=c).evaluate():
                got.append(v)
    except Exception as e:
        return got, e
    return got, None


def check_query(n, c, use_the=False):
    lower, upper = (1, 1) if use_the else ((0, None) if c is None else spec_bounds(c))
    got, exc = run(n, c, use_the)
    if upper is not None and n > upper:
        want = (upper if not use_the else 0, F.MultipleSolutionFound if use_the else F.GreaterThanExpectedNumberOfSolutions)
    elif n < lower:
        want = (n, F.NoSolutionFound if use_the else F.LessThanExpectedNumberOfSolutions)
    else:
        want = (n, None)
    have = (len(got), type(exc) if exc else None)
    if use_the and have[1] is not None:
        have = (0 if want[1] else have[0], have[1])
    if have != want:
        return f"{'the' if use_the else 'an'}(n={n}, constraint={c!r}): yielded {len(got)}, raised {type(exc).__name__ if exc else None}; spec: {want[0]} / {want[1].__name__ if want[1] else None}"
    return None


def candidates(m):
    out = []
    if "n" in m:
        n = int(m["n"])
        if "lower" in m:
            lo = int(m["lower"])
            if m.get("has_upper"):
                hi = int(m["upper"])
                out += [(n, Range(AtLeast(lo), AtMost(hi)), False)]
                if lo == hi:
                    out.append((n, Exactly(lo), False))
                if lo == 0:
                    out.append((n, AtMost(hi), False))
            else:
                out.append((n, AtLeast(lo), False))
        else:
            out += [(n, None, True), (n, None, False), (n, Exactly(1), False)]
    return out


for e in doc["models"]:
    m = e.get("model") or {}
    msgs = []
    for n, c, t in candidates(m):
        r = check_query(n, c, t)
        if r:
            msgs.append(r)
    if "count" in m:
        cname = m.get("class")
        k, done = int(m["count"]), bool(m["done"])
        objs = []
        if cname in ("Exactly", "AtLeast", "AtMost"):
            objs.append({"Exactly": Exactly, "AtLeast": AtLeast, "AtMost": AtMost}[cname](int(m["value"])))
        elif cname == "Range":
            objs.append(Range(AtLeast(int(m["lo"])), AtMost(int(m["hi"]))))
        for c in objs:
            lower, upper = spec_bounds(c)
            want = F.GreaterThanExpectedNumberOfSolutions if (upper is not None and k > upper) else (
                F.LessThanExpectedNumberOfSolutions if (done and k < lower) else None)
            try:
                c.assert_satisfaction(k, None, done)
                have = None
            except Exception as ex:
                have = type(ex)
            if have is not want:
                msgs.append(f"{c!r}.assert_satisfaction({k}, done={done}) raised {have.__name__ if have else None}; spec: {want.__name__ if want else None}")
    elif "value" in m and "class" in m:
        cl = {"Exactly": Exactly, "AtLeast": AtLeast, "AtMost": AtMost}.get(m["class"])
        if cl:
            v = int(m["value"])
            try:
                o = cl(v)
                have = None
                if not o:
                    msgs.append(f"{o!r} is falsy, so the quantifier ignores it")
            except Exception as ex:
                have = type(ex)
            want = F.NegativeQuantificationError if v < 0 else None
            if have is not want:
                msgs.append(f"{m['class']}({v}) raised {have.__name__ if have else None}; spec: {want.__name__ if want else None}")
            elif have is None:
                for n in range(0, v + 3):
                    r = check_query(n, o, False)
                    if r:
                        msgs.append(r)
                        break
    elif "lo" in m and "hi" in m:
        lo, hi = int(m["lo"]), int(m["hi"])
        try:
            Range(AtLeast(lo), AtMost(hi))
            have = None
        except Exception as ex:
            have = type(ex)
        want = F.QuantificationConsistencyError if hi < lo else None
        if have is not want:
            msgs.append(f"Range({lo},{hi}) raised {have.__name__ if have else None}; spec: {want.__name__ if want else None}")
    if msgs:
        print(json.dumps({"confirmed": True, "what": msgs[0], "all": msgs}))
        sys.exit(0)
print(json.dumps({"confirmed": False, "what": None}))
