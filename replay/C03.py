"""Replay of a failed C03 obligation: the obligation is about a code shape (a stale read after a yield, the shared domain
iterator, the evaluation-start reset), so the bounded schedule driver is run against the real package and its first failing
schedule is the concrete witness."""
from _via_bounded import main
main("C03")
