"""Replay of a failed C16 obligation on the real descriptors of the university dataset: the obligation's statement is run on
a managed field and on a plain attribute of a plain object; contents must agree, and every element of the field must have
its inverse inference."""
import json
import re
import sys

from test.dataset.university_ontology_like_classes import Company, Person
from krrood.entity_query_language.symbol_graph import SymbolGraph

doc = json.load(open(sys.argv[1]))
oid = doc["obligation"]
kind = "set" if (oid.startswith("set.") or "[set]" in oid) else "list"
msgs = []
for e in doc["models"]:
    d = e.get("detail") or ""
    m = re.search(r"`([^`]*)` from (\[[^\]]*\])", d)
    if m:
        stmt, init = m.group(1), eval(m.group(2))
    else:
        m0 = re.match(r"(owner\.items = [^-]*?) ->", d)
        if not m0:
            continue
        stmt, init = m0.group(1).strip(), []
    SymbolGraph().clear()
    SymbolGraph()
    if kind == "list":
        owner = Person(name="owner")
        E = {n: Company(name=n) for n in ("e1", "e2", "a", "b", "c")}
        E["n1"], E["n1_twin"] = Company(name="same"), Company(name="same")
        field = "member_of"
    else:
        owner = Company(name="owner")
        E = {n: Person(name=n) for n in ("e1", "e2", "a", "b", "c")}
        E["n1"], E["n1_twin"] = Person(name="same"), Person(name="same")
        field = "members"

    class Plain:
        pass
    plain = Plain()
    first = [E[n] for n in init]
    setattr(owner, field, list(first) if kind == "list" else set(first))
    plain.items = list(first) if kind == "list" else set(first)
    real_stmt = stmt.replace("owner.items", f"owner.{field}")
    try:
        exec(real_stmt, dict(E, owner=owner))
        exec(stmt, dict(E, owner=plain))
    except BaseException as ex:
        msgs.append(f"`{real_stmt}` raised {type(ex).__name__}: {ex}")
        continue
    have, want = getattr(owner, field), plain.items
    same = (len(have) == len(want) and all(x is y for x, y in zip(have, want))) if kind == "list" else (set(have) == want and len(have) == len(want))
    if not same:
        msgs.append(f"`{real_stmt}` on a field holding {init}: field now holds {[x.name for x in have]}, a plain {kind} holds {[x.name for x in want]}")
        continue
    for x in want:
        inv = x.members if kind == "list" else x.member_of
        if owner not in inv:
            msgs.append(f"`{real_stmt}` on a field holding {init}: {x.name} is in the field but the inverse relation was not inferred")
            break
print(json.dumps({"confirmed": bool(msgs), "what": msgs[0] if msgs else None, "all": msgs}))
