"""Replay of a failed C07 obligation: the obligation is about one step of the translation, so the bounded driver (queries
evaluated in memory and through eql_to_sql on an in-memory SQLite database holding the same objects) is run against the real
package and its first diverging query is the concrete witness."""
from _via_bounded import main
main("C07")
