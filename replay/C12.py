"""Replay of a failed C12 obligation against the real code: the obligation's shape (arity, positional/keyword split,
position of the variable) is rebuilt with a native function / Predicate subclass."""
import json
import re
import sys
from dataclasses import dataclass, make_dataclass

from krrood.entity_query_language.entity import let
from krrood.entity_query_language.predicate import symbolic_function, Predicate, merge_args_and_kwargs
from krrood.entity_query_language.symbolic import Variable, SymbolicExpression

doc = json.load(open(sys.argv[1]))
oid = doc["obligation"]
msgs = []
for e in doc["models"]:
    d = e.get("detail") or ""
    m = re.search(r"n=(\d+) (?:ignore_first=(\w+) )?(?:positional|P)=(\d+)", d)
    if not m:
        continue
    n, ign, p = int(m.group(1)), m.group(2), int(m.group(3))
    mv = re.search(r"variable_at=(\w+)", d)
    var_at = None if (mv is None or mv.group(1) == "None") else int(mv.group(1))
    params = [f"p{i}" for i in range(n)]
    calls = []
    if oid.startswith("symbolic_function"):
        src = f"def userfn({', '.join(params)}):\n    calls.append(({', '.join(params)}{',' if n == 1 else ''}))\n    return True\n"
        ns = {"calls": calls}
        exec(src, ns)
        fn = symbolic_function(ns["userfn"])
        vals = [10 + i for i in range(n)]
        x = let(int, [1, 2])
        if var_at is not None:
            vals[var_at] = x
        try:
            r = fn(*vals[:p], **{params[i]: vals[i] for i in range(p, n)})
        except BaseException as ex:
            msgs.append(f"userfn({d}): raised {type(ex).__name__}: {ex}")
            continue
        if var_at is not None:
            if not isinstance(r, Variable):
                msgs.append(f"symbolic function called with a variable in position {var_at} ({p} positional of {n}) ran its body at construction: calls={calls!r}, returned {r!r}")
            else:
                want = {params[i]: vals[i] for i in range(n)}
                have = dict(r._kwargs_)
                if set(have) != set(want) or any(have[k] is not want[k] for k in want):
                    msgs.append(f"symbolic function with {p} positional of {n} arguments, variable at {var_at}: parameters bound as {list(have)} -> expected every parameter of {params} bound to the value in its position")
        elif len(calls) != 1:
            msgs.append(f"concrete call ran the body {len(calls)} times")
    elif oid.startswith("merge_args_and_kwargs"):
        ignore_first = ign == "True"
        names = (["self"] if ignore_first else []) + params
        src = f"def f({', '.join(names)}):\n    pass\n"
        ns = {}
        exec(src, ns)
        vals = [object() for _ in range(n)]
        r = merge_args_and_kwargs(ns["f"], tuple(vals[:p]), {}, ignore_first=ignore_first)
        want = {params[i]: vals[i] for i in range(p)}
        if set(r) != set(want) or any(r[k] is not want[k] for k in want):
            msgs.append(f"merge_args_and_kwargs(f{tuple(names)}, {p} positional, ignore_first={ignore_first}) -> keys {list(r)}; expected {list(want)}")
    elif oid.startswith("Predicate.__new__"):
        cname = d.split()[0].rstrip(":")
        P = make_dataclass("P", [(q, int) for q in params], bases=(Predicate,), eq=False, namespace={"__call__": lambda self: True})
        vals = [10 + i for i in range(n)]
        x = let(int, [1, 2])
        if var_at is not None:
            vals[var_at] = x
        try:
            r = P(*vals[:p], **{params[i]: vals[i] for i in range(p, n)})
        except BaseException as ex:
            msgs.append(f"P({d}): raised {type(ex).__name__}: {ex}")
            continue
        if var_at is not None:
            if not isinstance(r, Variable):
                msgs.append(f"Predicate subclass called with a variable at {var_at} constructed a plain instance {r!r}")
            else:
                want = {params[i]: vals[i] for i in range(n)}
                have = dict(r._kwargs_)
                if set(have) != set(want) or any(have[k] is not want[k] for k in want):
                    msgs.append(f"Predicate subclass with {p} positional of {n}: fields bound as {list(have)}; expected {params}")
        elif not isinstance(r, P):
            msgs.append(f"Predicate subclass with concrete arguments returned {r!r}")
print(json.dumps({"confirmed": bool(msgs), "what": msgs[0] if msgs else None, "all": msgs}))
