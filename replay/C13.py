"""Replay of a failed C13 obligation: rebuild the class hierarchy / history of the counter-model with real classes and
compare the domain-less query with a weak-reference census."""
import gc
import json
import re
import sys
import weakref
from dataclasses import dataclass, make_dataclass

from krrood.entity_query_language.predicate import Symbol
from krrood.entity_query_language.symbol_graph import SymbolGraph
from krrood.entity_query_language.entity import entity, let
from krrood.entity_query_language.quantify_entity import an
from krrood.utils import recursive_subclasses

doc = json.load(open(sys.argv[1]))
oid = doc["obligation"]
msgs = []


def census_check(classes, create_order, query_cls, drop=()):
    SymbolGraph().clear()
    SymbolGraph()
    objs = [c() for c in create_order]
    refs = [(weakref.ref(o), type(o)) for o in objs]
    for i in sorted(drop, reverse=True):
        del objs[i]
    gc.collect()
    want = [r() for r, c in refs if r() is not None and issubclass(c, query_cls)]
    got = list(an(entity(let(query_cls, None))).evaluate())
    if sorted(map(id, got)) != sorted(map(id, want)):
        return f"classes {[c.__name__ + str([b.__name__ for b in c.__bases__]) for c in classes]}: created {[c.__name__ for c in create_order]}, dropped {list(drop)}; let({query_cls.__name__}, None) returned {len(got)} instances {got!r}, {len(want)} exist"
    return None


for e in doc["models"]:
    d = e.get("detail") or ""
    m = re.search(r"parents=(\{.*?\}\}|\{\}) root=K(\d+)", d)
    if m:
        parents = eval(m.group(1))
        root = int(m.group(2))
        classes = {0: make_dataclass("K0", [], bases=(Symbol,), eq=False)}
        for j in sorted(parents):
            classes[j] = make_dataclass(f"K{j}", [], bases=tuple(classes[p] for p in sorted(parents[j], reverse=True)), eq=False)
        subs = recursive_subclasses(classes[root])
        if len(subs) != len(set(subs)):
            msgs.append(f"recursive_subclasses(K{root}) over parents={parents} lists {[c.__name__ for c in subs]}")
        r = census_check(list(classes.values()), [classes[j] for j in sorted(classes)], classes[root])
        if r:
            msgs.append(r)
if not msgs:
    # generic histories for the graph obligations: diamond + deaths + sweep
    A = make_dataclass("A", [], bases=(Symbol,), eq=False)
    B = make_dataclass("B", [], bases=(A,), eq=False)
    C = make_dataclass("C", [], bases=(A,), eq=False)
    D = make_dataclass("D", [], bases=(B, C), eq=False)
    for order, drop, q in (([A, B, D], (), A), ([D, A, B, C], (0,), A), ([B, B, A], (1,), B), ([A, D, D, C], (1, 3), C), ([A], (0,), A), ([B, A], (), B)):
        try:
            r = census_check([A, B, C, D], order, q, drop)
        except ValueError:
            r = None
        if r:
            msgs.append(r)
SymbolGraph().clear()
print(json.dumps({"confirmed": bool(msgs), "what": msgs[0] if msgs else None, "all": msgs[:5]}))
