from _via_bounded import main
main("C20")
