"""Replay of a failed C04 obligation: the obligation is about one step of the conversion (memo discipline, column copy,
relationship conversion), so the bounded driver (random object graphs with sharing and cycles through to_dao / from_dao)
is run against the real package and its first non-isomorphic graph is the concrete witness."""
from _via_bounded import main
main("C04")
