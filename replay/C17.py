"""Replay of a failed C17 obligation: the obligation is about a code shape (a predicate / a construction step / a frame), so the
bounded driver is run against the real package and its first failing generated model is the concrete witness."""
import sys
from _via_bounded import main
main("C17")
