"""Replay of a failed C06 obligation: the obligation is about one record ORMatic emits for one kind of field, so the bounded
driver (generated models -> ORMatic -> import / configure_mappers / create_all / mapper inspection) is run against the real
package and its first failing model is the concrete witness."""
from _via_bounded import main
main("C06")
