"""Generic replay: run the property's bounded driver against the real code and report its first concrete failing case
(used where the failed obligation is about a code shape rather than a data value)."""
import json
import os
import subprocess
import sys
import tempfile


def main(pid, tier="quick", filter_substr=None):
    here = os.path.dirname(os.path.abspath(__file__))
    out = tempfile.mkdtemp(prefix=f"replay_{pid}_")
    p = subprocess.run([sys.executable, os.path.join(here, "..", "bounded", f"{pid}.py"), "--tier", tier, "--out", out],
                       capture_output=True, text=True, env=dict(os.environ, PYTHONPATH=os.pathsep.join(
                           [os.path.join(here, "..", "bounded"), os.environ.get("PYTHONPATH", "")])))
    res = None
    for line in reversed(p.stdout.strip().splitlines()):
        if line.startswith("{"):
            res = json.loads(line)
            break
    msgs = []
    known = []
    try:
        import re
        kf = json.load(open(os.path.join(here, "..", "known_findings.json")))
        known = [k for k in kf.get("findings", []) if k.get("property") == pid and k.get("kind") == "bounded"]
    except Exception:
        pass

    def is_known(sig):
        return any((k.get("id") == sig) or (k.get("id_regex") and re.search(k["id_regex"], sig)) for k in known)
    if res:
        for f in res.get("failures", []):
            if is_known(f["signature"]):
                continue            # a listed finding is not the witness of a NEW violation
            if filter_substr is None or filter_substr in f["signature"]:
                msgs.append(f["what"])
    print(json.dumps({"confirmed": bool(msgs), "what": msgs[0] if msgs else None, "all": msgs[:4]}))
