"""Replay for C18: the failed clause is exercised on the real functions through real JSON text with a fixed corpus."""
import json
import sys
import uuid

from krrood.adapters.json_serializer import to_json, from_json, JSON_TYPE_NAME
from krrood.utils import get_full_class_name
from test.test_utils.test_json_serializer import Animal, Dog, Bulldog, Cat

doc = json.load(open(sys.argv[1]))
msgs = []


def exact(x, y):
    if type(x) is not type(y):
        return False
    if isinstance(x, list):
        return len(x) == len(y) and all(exact(p, q) for p, q in zip(x, y))
    return x == y


corpus = [None, True, 0, 1, "", "x", 1.5, [], [1], [1, 2, 3], [[1], [2, [3]]], ["b", "a", "a"], [None, False, 0, ""],
          Dog("d", 2, "lab"), Bulldog("b", 3, "bull", False), Cat("c", 4, 7), Animal("a", 1), [Dog("d", 1), Cat("c", 2), [Bulldog("b", 1)]],
          uuid.UUID(int=5), [uuid.UUID(int=5), uuid.UUID(int=6)]]
for v in corpus:
    try:
        r = from_json(json.loads(json.dumps(to_json(v))))
    except BaseException as ex:
        msgs.append(f"round trip of {v!r} raised {type(ex).__name__}: {ex}")
        continue
    if not exact(r, v):
        msgs.append(f"round trip of {v!r} gives {r!r} (type {type(r).__name__})")
    if hasattr(v, "to_json") and to_json(v).get(JSON_TYPE_NAME) != get_full_class_name(type(v)):
        msgs.append(f"to_json({v!r}) carries the tag {to_json(v).get(JSON_TYPE_NAME)!r}")
print(json.dumps({"confirmed": bool(msgs), "what": msgs[0] if msgs else None, "all": msgs[:5]}))
