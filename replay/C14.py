"""Replay of a failed C14 obligation on the real SymbolGraph: build the one-step counterexample state with real objects
(an edge at a node whose instance dies), run the operation, evaluate the broken clause on the real data structures, then run
the clause's canonical continuation to the API level (re-create instances on the recycled indices, assert a relation)."""
import gc
import json
import sys

from test.dataset.university_ontology_like_classes import Company, Person
from krrood.entity_query_language.symbol_graph import SymbolGraph

doc = json.load(open(sys.argv[1]))
oid = doc["obligation"]
msgs = []


def clauses(g):
    bad = []
    nodes = {w.index: w for w in g.wrapped_instances}
    edges = {(s, t, r.wrapped_field) for s, t, r in g._instance_graph.weighted_edge_list()}
    for f, pairs in g._relation_index.items():
        for (a, b) in pairs:
            if (a, b, f) not in edges:
                bad.append(f"I4a: relation index holds the pair ({a}, {b}) for field {f.name!r} but the graph has no such edge")
    for (a, b, f) in edges:
        if (a, b) not in g._relation_index.get(f, set()):
            bad.append(f"I4a: edge ({a}, {b}) of field {f.name!r} is missing from the relation index")
    for k, w in g._instance_index.items():
        if all(w is not n for n in nodes.values()):
            bad.append(f"I2a: instance index still maps id {k} to a wrapper that is no longer a node of the graph")
    for cls, ws in g._class_to_wrapped_instances.items():
        for w in ws:
            if all(w is not n for n in nodes.values()):
                bad.append(f"I3: class list of {cls.__name__} holds a removed wrapper")
    return bad


for how in ("works_for", "members", "member_of"):
    SymbolGraph().clear()
    g = SymbolGraph()
    c, p = Company(name="dead_c"), Person(name="dead_p")
    if how == "works_for":
        p.works_for = c
    elif how == "members":
        c.members.add(p)
    else:
        p.member_of.append(c)
    del c, p
    gc.collect()
    g.remove_dead_instances()
    bad = clauses(g)
    if bad:
        msgs.append(f"after create/relate({how})/drop/collect/sweep: " + bad[0])
    for order in ("person-first", "company-first"):
        if order == "person-first":
            p2 = Person(name="p")
            c2 = Company(name="c")
        else:
            c2 = Company(name="c")
            p2 = Person(name="p")
        p2.works_for = c2
        if p2 not in c2.members or c2 not in p2.member_of:
            msgs.append(f"after that prefix ({how}), creating the new instances {order} and asserting p.works_for = c: "
                        f"p in c.members is {p2 in c2.members}, c in p.member_of is {c2 in p2.member_of}, "
                        f"{len(list(g.relations()))} relations in the graph (3 on a fresh graph)")
        del p2, c2
        gc.collect()
        g.remove_dead_instances()
SymbolGraph().clear()
print(json.dumps({"confirmed": bool(msgs), "what": msgs[0] if msgs else None, "all": msgs[:6]}))
