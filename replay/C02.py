"""Replay for C01 / C02 obligations: the failed step lemma names an operator class; real queries built around that operator
(eqlgen shapes over the four bounded worlds) are compared with the brute-force first-order oracle.  Set comparison for the
Ext/Sound/Complete clauses, multiset comparison for the Unique clause."""
import collections
import itertools
import json
import sys
sys.path.insert(0, __import__("os").path.join(__import__("os").path.dirname(__import__("os").path.abspath(__file__)), "..", "bounded"))
import eqlgen as G

doc = json.load(open(sys.argv[1]))
oid = doc["obligation"]
A2, AI = G.atoms(("x", "y")), G.int_atoms()
multiset = "unique" in oid


def family():
    if oid.startswith("AND"):
        return [("and", p, q) for p, q in itertools.product(A2, repeat=2) if p is not q] + [("not", ("and", p, q)) for p, q in itertools.product(A2[:5], repeat=2) if p is not q]
    if oid.startswith(("Union", "ElseIf", "OR", "optimize_or")):
        ors = [("or", p, q) for p, q in itertools.product(A2, repeat=2) if p is not q]
        return ors + [("not", o) for o in ors]
    if oid.startswith("Not"):
        return [("not", p) for p in A2 + AI] + [("not", ("not", p)) for p in A2[:4]]
    if oid.startswith("Variable"):
        return AI + [("and", p, q) for p, q in itertools.product(AI, repeat=2) if p is not q] + [("not", p) for p in AI]
    return A2 + AI + [("and", p, q) for p, q in itertools.product(A2[:6], repeat=2) if p is not q]


msgs = []
for cond in family():
    fv = sorted(G.free_vars(cond))
    sels = [tuple(("var", v) for v in fv)]
    if not multiset:
        sels += [(("var", fv[0]),)] + ([(("var", "x"), ("attr", "x", "a"))] if "x" in fv else [])
    for wi, domains in enumerate(G.worlds()):
        for sel in sels:
            env = G.Env(domains)
            try:
                got = G.run_query(env, sel, cond)
            except BaseException as ex:
                msgs.append(f"query {cond!r} selecting {sel} over world {wi} raised {type(ex).__name__}: {ex}")
                continue
            want = G.oracle_rows(sel, cond, domains)
            if multiset:
                if collections.Counter(got) != collections.Counter(want):
                    msgs.append(f"query {cond!r} over world {wi}: {len(got)} results for {len(want)} satisfying assignments (multiset differs)")
            elif set(got) != set(want):
                msgs.append(f"query {cond!r} selecting {sel} over world {wi}: {len(set(got) - set(want))} returned rows violate the condition, {len(set(want) - set(got))} satisfying rows are missing")
        if len(msgs) >= 3:
            break
    if len(msgs) >= 3:
        break
print(json.dumps({"confirmed": bool(msgs), "what": msgs[0] if msgs else None, "all": msgs[:3]}))
