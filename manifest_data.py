"""Source of MANIFEST.json (bin/mkmanifest)."""
NOTES = ("Contract-based deductive verification of the real code: /verif/pyvc re-reads the /repo sources on every run, "
         "symbolically executes the functions under contract against sidecar contracts in /verif/contracts and discharges "
         "every obligation with z3. Bounded stand-ins (bounded/) run the real package and are never counted as proved.")
PENDING = "machinery for this property is not built yet in this round (see DESIGN.md §5 build order); not claimed until it is"
CHECKS = {
    "C09": dict(
        category="proof",
        technique="contract-based deductive verification: pre/post contracts + loop invariant on the real ast, z3",
        text="Every constraint class is proved against its lower/upper spec for all integers; ResultQuantifier._evaluate__ and "
             "The._evaluate__ are proved for every stream length n>=0 and every bound by an inductive loop invariant "
             "(count = consumed = yielded <= upper); callers use the abstract constraint contract. A bounded exhaustive "
             "run of the real API (bounds<=4, n<=5) is an independent cross-check, not counted as proof.",
        note="Trusted: pyvc's Python semantics (dataclass __init__ generation, exceptions, generators), z3; integers are "
             "mathematical (exact for Python); constraint objects are not mutated after construction; termination not proved.",
    ),
}
CHECKS["C19"] = dict(
    category="proof",
    technique="contract-based deductive verification: exception-escape contract over a fully symbolic tag (z3 strings), assumed builtin contracts",
    text="SubclassJSONSerializer.from_json is executed symbolically for a dict whose type tag ranges over the whole JSON value ADT "
         "(absent/null/bool/any int/float/any string/list/dict); every exceptional exit before the hand-over must be a "
         "JSONSerializationError of the documented class and a normal exit must be a hand-over to a SubclassJSONSerializer "
         "subclass or a registered deserialiser. Loop-free, so the path enumeration is a complete decision. A native corpus run "
         "re-validates the assumed builtin contracts on every run (bounded, not counted as proof).",
    note="Assumed contracts of str.rsplit, tuple unpacking, importlib.import_module (ValueError/TypeError/ModuleNotFoundError or a module; "
         "importing does not run failing user code), getattr, issubclass, __name__ on non-classes; pyvc semantics; z3 string solver.",
)
CHECKS["C12"] = dict(
    category="other",
    technique="contract-based deductive verification: pre/post contracts on argument merging, dispatch and per-binding instantiation (real ast, z3); arity enumerated",
    text="merge_args_and_kwargs, symbolic_function.wrapper, Predicate.__new__ and Variable._instantiate_using_child_vars_and_yield_results_ "
         "are executed symbolically with opaque (arbitrary) argument values for every arity 0..3, every positional/keyword split and every "
         "position of the variable; the per-binding invocation contract is proved over an abstract stream of combinations of any length "
         "(loop rule). Level is 'other' because arity is enumerated, not quantified. Bounded stand-in: native functions/predicates, "
         "results and call log vs concrete filtering.",
    note="Assumed: inspect.signature parameter order, itertools.product = Cartesian product, user callables opaque; pyvc semantics; z3.",
)
CHECKS["C16"] = dict(
    category="other",
    technique="contract-based deductive verification: sequence/set model contracts on every write path (real ast executed symbolically, z3); contents enumerated to length 3",
    text="Each write operation of the property (assignment, self-assignment, +=, |=, append, extend, insert, item assignment, add, update) "
         "is executed as a statement of the interpreted program through the real __get__/__set__/MonitoredList/MonitoredSet code from "
         "contents of length 0..2 with opaque elements; post: contents equal the Python list/set model and every element that became "
         "part of the field has its relation recorded. Assignment, extend and update are additionally discharged for a source of ANY length (loop rule: per element exactly that element is added and its relation recorded, nothing skipped). Level 'other': the initial contents and the remaining operations are enumerated. Bounded stand-in: all operation "
         "sequences of length <=2 (thorough 3) on the real dataset classes vs a plain list/set and element-wise appending.",
    note="Assumed: builtin list/set semantics, the += / |= desugaring, weakref; the inferences triggered by a recorded relation are C15's subject.",
)
CHECKS["C14"] = dict(
    category="other",
    technique="contract-based deductive verification: representation invariant of SymbolGraph preserved by every operation (real ast, ghost state as z3 functions over uninterpreted sorts, loop invariants), induction over histories",
    text="add_node, remove_node (incl. its two purge loops, by inductive invariants), add_relation, relation_exists, get/ensure_wrapped_instance, "
         "WrappedInstance/PredicateClassRelation construction are proved to preserve the representation invariant WF (I1 graph payloads, I2 id index, "
         "I3 class lists, I4 relation index mirrors the edges) from ANY WF state, with dead instances, recycled node indices and recycled ids allowed "
         "by the assumed rustworkx/id contracts; remove_node leaves nothing of the removed wrapper behind; relation_exists <=> edge. "
         "Hence by induction over histories a relation assertion has the same effect whatever lived and died before. Bounded stand-in: "
         "garbage-prefix driver on the real dataset vs a fresh graph.",
    note="Assumed contracts: rustworkx.PyDiGraph (index recycling, incident edges removed with the node, snapshot lists), id() injective among live "
         "objects only, weakref semantics, dict/list/set builtins (model containers in contracts/sgmodel.py); remove_node is reached for dead referents.",
)
CHECKS["C13"] = dict(
    category="other",
    technique="contract-based deductive verification: SymbolGraph representation invariant + loop invariant of the sweep + per-yield-site Sound/Unique/Complete obligations on get_instances_of_type (real ast, z3 over uninterpreted sorts)",
    text="remove_dead_instances is proved (inductive invariant over the node snapshot, remove_node inlined with its own invariants) to leave "
         "exactly the wrappers with a live referent registered, from any WF state; get_instances_of_type from a swept WF state yields "
         "each registered instance of T or a strict subclass exactly once (sound, unique by position, complete w.r.t. the sequences "
         "actually iterated); Symbol.__new__ registers every non-predicate instance once; let(T, None) draws from that generator. "
         "Level 'other' because recursive_subclasses is checked shape-exhaustively on hierarchies of <= 4 classes (bounded). "
         "Bounded stand-in: census driver over histories of create/drop/collect/clear/query on a diamond hierarchy.",
    note="Assumptions of C14 plus type.__subclasses__ and dict.fromkeys contracts; clear() resets the universe of instances; no instance dies between "
         "the sweep and the consumption of the generator; the cached domain on re-evaluation of one query object is C03's finding.",
)
CHECKS["C18"] = dict(
    category="proof",
    technique="contract-based deductive verification: round-trip lemma by structural induction over contracts of to_json/from_json (real ast, lists of any length, z3 + cvc5 for the tag string obligation)",
    text="Base and step cases of from_json(loads(dumps(to_json(v)))) == v are generated from the real function bodies: leaves pass through, "
         "a list of ANY length maps to a list of the same length element-wise in order both ways (recursive calls by induction hypothesis), "
         "the base to_json writes module + '.' + name of the exact class and from_json hands over to _from_json of exactly that class "
         "(string obligation: rsplit inverts the concatenation, discharged by cvc5), registered types go through the serializer registered "
         "for exactly their type (uuid pair registered by the module), create_engine installs the composed functions. "
         "Bounded stand-in (not counted): real json.dumps/loads on a corpus incl. unicode, 10**300, +-inf, nested lists, the test subclasses.",
    note="Assumed: json.loads(json.dumps(j)) == j on JSON values (NaN excluded), uuid.UUID(str(u)) == u, importlib resolves module-level classes, "
         "user subclasses call super().to_json() and satisfy their own _from_json contract; all spot-validated natively on every run.",
)
CHECKS["C01"] = dict(
    category="other",
    technique="contract-based deductive verification: cover-contract step lemma per EQL operator (real _evaluate__ bodies executed symbolically with abstract children, contracts instantiated at call sites, z3 over uninterpreted sorts) + bounded oracle driver",
    text="For AND, ElseIf, Union, Not, Comparator, Variable, Attribute/DomainMapping, the query descriptor (get_constrained_values, "
         "sequential evaluate_selected_variables) and _process_result_ the real generator bodies are executed with abstract children that satisfy "
         "the cover / value contract; per yield site Ext, Sound and Frame, over the yield clauses of all paths Complete and Unique are discharged "
         "for any domain size and any nesting (structural induction over tree-shaped expressions). Level 'other': ForAll/Exists, "
         "Index/Call/Flatten and whole-query composition are decided only by the bounded oracle driver (10k queries, 4 worlds), and one "
         "known finding (Exists de-duplicates by the quantified variable's value) is listed.",
    note="Assumed: children satisfy the contract (induction hypothesis), expressions are tree-shaped and role-consistent, user operators/attributes "
         "are pure total functions, bindings dictionaries are abstract maps; == / != on two iterables excluded; z3 E-matching with seeded retries.",
)
CHECKS["C02"] = dict(
    category="other",
    technique="contract-based deductive verification: Unique + Complete clauses of the cover contract on the conjunctive/else-if fragment (same real code as C01) + optimize_or obligation + bounded multiset oracle driver",
    text="Unique (no total assignment covered by two output occurrences) and Complete are discharged for AND, ElseIf, Not, Comparator, operands and the "
         "query descriptor, for any domain size; optimize_or yields ElseIf exactly for sides over the same domain variables. The bounded driver "
         "compares multisets of results with the satisfying assignments and the() with the count (thorough: 7.5k queries).",
    note="Same assumptions as C01; multiplicity of whole queries with predicates is bounded-only.",
)
CHECKS["C08"] = dict(
    category="other",
    technique="contract-based deductive verification: heap-shape contracts on the rule-tree surgery (every local tree shape up to 4 ancestors) + selection step lemmas of ExceptIf / Alternative / Next over abstract operand streams (loop invariants, real ast, z3) + bounded reference RDR interpreter driver",
    text="refinement / alternative / next_rule (and the constructors and parent setters they call) are executed on every local shape of a partially built "
         "tree (stack top plus up to 4 ancestors of any kind and side: 1555 shapes per builder); posts: the new selector takes the evaluation position of "
         "the (top of the) current rule, no written branch is dropped, the new branch is returned, parent pointers follow the evaluation tree. "
         "Evaluation time: ExceptIf / Alternative / Next._evaluate__ (with the real ElseIf / Union / OR bodies) over operand streams of any length with "
         "arbitrary truth flags: which result is passed on, under whose bindings the other operand is evaluated and whose conclusions are selected "
         "(except-if: the rule concludes iff the exception has no true result; else-if: the first branch that holds; also-if: every branch that holds). "
         "Level 'other': ancestor chains > 4, update_conclusion's de-duplication and instance construction are decided by the bounded driver "
         "(trees of <= 5 branches in every nesting vs a reference ripple-down-rules interpreter).",
    note="RWXNode abstracted as a record with a parent field; rule trees are trees (operands disjoint); update_conclusion by contract in the step lemmas.",
)
CHECKS["C11"] = dict(
    category="other",
    technique="contract-based deductive verification: builder-dispatch obligations on match.py (real ast, all flag combinations) over the C01 operator contracts + bounded pattern-vs-predicate driver",
    text="AttributeAssignment.infer_condition_between_attribute_and_assigned_value is executed for every combination of collection/scalar attribute, "
         "literal / variable / nested match value and the universal / existential flags and must build exactly the node the property's reading "
         "prescribes; resolve() flattens and type-filters exactly when required; the constructors plumb the flags; Match.expression selects "
         "the element or the selected parts with all conditions. The denotation of the built nodes is C01's; whole patterns are compared with "
         "a direct Python predicate by the bounded driver. One known finding (match_any inherits the Exists de-duplication).",
    note="Assumes the C01 contracts for Comparator/Flatten/Exists/HasType nodes and the field classification of C17.",
)
CHECKS["C10"] = dict(
    category="other",
    technique="contract-based deductive verification: effect contracts (no user-code effect at construction; no materialising consumer of a child stream) on the real constructors and operator bodies + bounded event-log driver",
    text="The public builders (let, attribute / index / call access, comparisons, contains/in_, flatten, and_/or_/not_, exists/for_all, inference, "
         "entity/set_of, an/the, symbolic functions and predicates with a variable) are executed on the real constructors with opaque user data; "
         "the engine logs every operation that can dispatch into user code and the obligation is an empty log on every path. The operator "
         "bodies of the condition fragment are executed with abstract child streams: none materialises a stream. Level 'other': how many "
         "elements the first k results pull is measured by the bounded event-log driver (one-shot generator domains, k <= 4).",
    note="RWXNode / class-diagram lookups abstracted; isinstance/type/id/hasattr(__iter__) assumed free of user code; ForAll inherently needs the whole quantified domain.",
)
CHECKS["C20"] = dict(
    category="other",
    technique="contract-based deductive verification: ownership / no-capture obligations on every process-global root (mechanical root enumeration from the ast + heap-reachability posts on the real registration code) + weak-reference census driver",
    text="Every process-global root of src/krrood (class-level mutable attribute, mutable module global, lru_cache/cache) is enumerated from the ast on "
         "every run and must be classified; for the roots that may reach user instances the real registration code (Symbol.__new__, update_cache, "
         "WrappedInstance, add_node, PredicateClassRelation, add_relation, MonitoredContainer._bind_owner/_on_add, SingletonMeta) is executed on a concrete "
         "heap and the instance must not be strongly reachable from the root afterwards; removal leaves nothing behind by C14. The expression "
         "registries are classified as the known finding. Level 'other': reclamation itself is measured by the bounded census driver.",
    note="Trusted: CPython's collector, rustworkx holds payloads strongly, the classification table of the roots (each safe entry states why).",
)
CHECKS["C17"] = dict(
    category="other",
    technique="contract-based deductive verification: complete case analysis of the WrappedField predicates over the annotation grammar (real ast, assumed typing contracts), per-element step lemmas of diagram construction under the loop rule with an abstract graph, frame obligations on every read-only diagram operation (effect log)",
    text="(A) every WrappedField predicate is executed on every annotation of the grammar b|E|C|Optional[..]|List/Set/Sequence[..]|Type[C] with opaque "
         "leaf classes and must agree with the table the annotation states; resolved_type's NameError path with 0..2 unresolved names. "
         "(B) add_node, __post_init__, _create_inheritance_relations, _create_association_relations, WrappedClass.fields, discover: for an arbitrary "
         "element of each loop over an ABSTRACT graph / class map the logged writes are exactly the node / edge the statement prescribes, none otherwise, "
         "no loop is left early. (C) 18 read-only operations incl. to_subdiagram_without_inherited_associations and the rendering entry points write "
         "nothing into the diagram, its graph, its class map or the objects they hold (checked at every loop cut and at return). "
         "Level 'other': field lists are enumerated to length 3 and the composition 'per-element effects => exactly these edges' is argued; "
         "bounded stand-in: generated models (1-5 classes, 2 modules, forward/self/mutual references, inheritance, Roles) vs the generator's own description.",
    note="Assumed: typing get_type_hints/get_origin/get_args contracts, rustworkx mutator/reader split and copy(), copy.copy, dataclasses.fields; "
         "rendering cannot run natively here (installed rustworkx_utils is incompatible), its frame is decided on the real body with RWXNode abstracted.",
)
CHECKS["C03"] = dict(
    category="other",
    technique="contract-based deductive verification: rely/guarantee contract per generator method (the C01 step lemmas re-discharged with all scratch fields of all expression nodes havoc'd after every own yield; real ast, z3), exhaustive interference schedules on the shared domain iterator, evaluation-start contract; bounded schedule driver",
    text="(A) AND, ElseIf, Union, Not, Comparator, Variable, Attribute and the query descriptor are executed from their real bodies with abstract "
         "children; after every yield that reaches the consumer any other evaluation may have written any value into _is_false_, _eval_parent_, "
         "left_evaluated, right_evaluated of any node: Ext/Sound/Frame per yield and Complete/Unique across paths are still discharged, so "
         "interleaved evaluations produce what isolated ones produce (induction over schedule and tree). (B) HashedIterable.__iter__ (shared lazily "
         "cached domain): sources of length <= 4 with duplicates, every schedule of foreign pulls while suspended: each iterator yields the distinct "
         "values once, in order. (C) evaluate() announces the evaluation to every node before pulling; selectors forget earlier conclusions. "
         "Level 'other': (B) is length-bounded, whole-query schedules (nested loops, alternating / abandoned iterators, rule trees) are measured by the "
         "bounded driver, and one finding (two live evaluations of one RULE query) is listed.",
    note="Assumed: single thread; children satisfy the same contract; a node whose id is already bound reads the flag its enclosing evaluation left "
         "(entry protocol, not havoc'd); user code pure and repeatable.",
)
CHECKS["C15"] = dict(
    category="other",
    technique="contract-based deductive verification: step lemma per inference rule of PropertyDescriptorRelation (real ast executed with an abstract symbol graph / class diagram, loop rule over the edge streams, ghost log of inferred relations) + abstract composition lemma machine-checked in Lean 4 / Mathlib + bounded all-orders driver against a naive fixpoint",
    text="add_to_graph (new edge: write-back iff inferred, then super, inverse, transitive once each; known edge: nothing), infer_super_relations "
         "(every (domain, field) of super_relations yields exactly one inferred relation to the same target), super_relations (direct then role-taker "
         "fields), get_fields_of_superproperties (strict super-properties), infer_inverse_relation (field on the target, else on its role taker, else an "
         "error), get_associated_field_of_domain_type (exact class), the two transitive composition loops (every same-class edge leaving the target / "
         "entering the source is combined with the right end points) and the field write-back are discharged from the real bodies. "
         "The composition lemma (an invariant over graph + pending facts preserved by inserting any pending fact with a superset of its consequences; nothing pending => closed; only consequences inserted => exactly the derivable facts) is machine-checked in Lean (lean/Closure.lean). "
         "Level 'other': that add_to_graph's recursion is a schedule of that abstract procedure is argued, and measured: every order of "
         "assertion sets of size <= 4 (thorough 5) over 2 persons / 3 companies / a CEO role, incl. cycles and diamonds, fields and graph vs fixpoint.",
    note="Assumed: SymbolGraph.add_relation / relation queries (C14), class-diagram queries (C17), MonitoredContainer._update (C16); monotone histories.",
)
CHECKS["C04"] = dict(
    category="other",
    technique="contract-based deductive verification: memo-isomorphism contracts on to_dao / from_dao and the conversion states (real ast executed with an assumed SQLAlchemy mapper model, recursive calls answered by the contract) + bounded random object-graph driver",
    text="to_dao: a memo hit returns the memoised DAO and allocates nothing; a miss allocates one DAO of exactly the DAO class, registers it BEFORE "
         "the fields are converted (cycle closes on the same DAO), copies every data column, converts references / scalar one-to-many / collections "
         "(order and duplicates kept, None stays None, empty stays empty) with the same state. from_dao: memo hit; else an uninitialised instance of "
         "exactly the original class is memoised before relationships are followed, scalars and relationships become constructor arguments, in-progress "
         "references are patched from the memo, the constructor runs once, alternative mappings are replaced by create_from_dao() and re-memoised. "
         "to_dao below an alternatively mapped parent: inherited part from the parent's mapping, own part from the object, memo entry restored. "
         "ToDAOState / FromDAOState operations, AlternativeMapping.to_dao, to_dao(), is_data_column. Level 'other': mapper width is fixed (5 columns, "
         "4 relationships), the composition of the two memo isomorphisms into the round trip is argued; from_dao below an alternatively mapped parent and "
         "whole graphs (1500 / 30000 random graphs with sharing, cycles, alternative mappings) are decided by the bounded driver.",
    note="Assumed: SQLAlchemy mapper model, injective id() with keep-alive, get_dao_class registry, user mappings inverse on their data; "
         "SQLAlchemy attribute instrumentation (back-population) not modelled.",
)
CHECKS["C06"] = dict(
    category="other",
    technique="contract-based deductive verification: dispatch and record contracts on WrappedTable / ORMatic (real ast executed on abstract classified fields; every kind of field of the grammar; string-valued records compared with the prescribed declarations) + bounded generate-import-configure-create driver",
    text="parse_field sends every kind of field of the grammar (Type, builtin / Optional builtin / enum, reference / Optional reference to a mapped class, "
         "custom-typed, list of builtins, list of custom-typed, list of mapped classes, reference to an unmapped class) to exactly its column / "
         "relationship builder; the builders emit the prescribed records (names from the field, target table from the end point, Optional in the "
         "annotation, String(255) for str, nullable FK with use_alter, association table per collection field with two DIFFERENT columns and explicit joins "
         "for a collection of the own class); parse_fields visits every public own field once and no private one; fields drops what an ancestor maps; "
         "table name / base / primary key / mapper args for roots, children and stand-alone classes; one table per class, parents first, alternative "
         "mappings substituted; no set is iterated into the output. Level 'other': that the emitted text imports, configures and creates a schema is "
         "SQLAlchemy's semantics and is decided by the bounded driver (30 / 1000 generated models x 2 orders, + determinism by text equality).",
    note="Assumed: field classification (C17), the jinja template prints the records verbatim, SQLAlchemy / black / jinja2, deterministic topological sort.",
)
CHECKS["C07"] = dict(
    category="other",
    technique="contract-based deductive verification of the translation's structure and rejection half (real ast of eql_interface.py executed over a symbolic SQL-expression algebra; the expression vocabulary enumerated from the real class hierarchy) + bounded in-memory vs SQLite equivalence driver",
    text="translate_query sends AND / OR / Comparator / Attribute (and their subclasses) to their translators and rejects EVERY other expression class of the "
         "language with UnsupportedQueryTypeError; translate_and / translate_or build the SQL and / or of both operands; == > < >= <= map to the same SQL "
         "comparison, != to IS DISTINCT FROM, unknown operators are rejected; an attribute chain from a variable that is neither selected nor joined, a type "
         "without DAO, an untyped leaf, a scalar in the middle of a chain and an unknown column are rejected; the(...) demands exactly one row, an(...) "
         "all rows, other quantifiers are rejected; translate selects the DAO of the selected type filtered by the translated condition; every raise of "
         "the module is an EQLTranslationError and no handler swallows arbitrary exceptions. Level 'other': what an accepted statement MEANS on the "
         "database is SQLAlchemy / SQLite semantics - decided only by the bounded driver (44 query shapes x an/the x 3 / 40 random databases).",
    note="Assumed: SQLAlchemy operators mean what they say on SQLite; get_dao_class; DAO columns carry the field values (C04 / C06).",
)
NOT_APPLICABLE = {
    "C05": "decided by SQLAlchemy/SQLite semantics acting on generated code; no krrood function body carries it, so no contract within reach can express it (DESIGN.md §4)",
}
for _p in ["C%02d" % i for i in range(1, 21)]:
    if _p not in CHECKS:
        NOT_APPLICABLE.setdefault(_p, PENDING)

# ---- additions after the second seeding wave (2026-10-03)
_ADD = {
    "C01": " Condition-role lemmas are discharged below every logical-operator parent class (enumerated from the class hierarchy); Index / Call "
           "mappings have their own cover lemmas; HashedValue identity (never derived from the value), _invert_ for every comparison operation "
           "and the pass-through of a nested quantifier (every result once, every binding kept) are separate obligations. A node is a condition as the child of ANY object-descriptor class evaluating it (also in a nested query) and a value as a selected expression.",
    "C02": " The result quantifier's counting-loop contract (reported = pulled, containers kept by the loop of unknown content) and _invert_ "
           "for every comparison operation are part of the check.",
    "C03": " The node list an evaluation announces itself to is the real _all_nodes_ over a tree that grows between evaluations; rule surgery "
           "is checked with stale evaluation parents on every node (C08 lemmas).",
    "C04": " FunctionMapping persists (module, owning class, name) and returns exactly the function found under that triple, whatever was converted before. _argument_names is under contract (every constructor parameter but self, keyword-only ones included).",
    "C06": " The module of every column type (builtin, datetime, enum of another module) is imported by the generated file.",
    "C07": " String containment forms are pinned to instr(container, item) > 0 terms (never LIKE). Paths over several relationships: every hop is joined through its own alias on the attribute of the element it starts from; joins are reused within one translation only.",
    "C08": " Surgery lemmas also hold when an earlier evaluation left its parent pointers on the nodes; a later `with query:` block enters the base "
           "rule again; Alternative / Next pass every result of the else-if / union below them on exactly once.",
    "C09": " The stream contracts hold under any parent (user or enclosing query) and every binding of the child's result is passed on. A description quantified before gets a new quantifier with the constraint stated now; the(...) is evaluated anew for every binding of an enclosing query.",
    "C10": " Node labels are computed by the real _name_ properties under the effect contract (formatting user data is an effect); Exists and "
           "Flatten have streaming contracts (no result after the child stream ended, nothing copied).",
    "C11": " Resolving a pattern does not rewrite its requested type or flags (match and select alike); every keyword is a constraint whatever its value.",
    "C12": " 'Variable argument' ranges over every subclass of CanBehaveLikeAVariable; class-level containers of the expression classes are of unknown "
           "content when a predicate use starts (failures that depend on that over-approximation need a native witness).",
    "C13": " A live instance's truth value is arbitrary in the graph model (user classes may define __len__ / __bool__).",
    "C14": " A live instance's truth value is arbitrary in the graph model (user classes may define __len__ / __bool__). Level 'other': the registry "
           "operations are proved from any well-formed state, but that the inferences a new relation triggers (C15's rules, which walk neighbouring "
           "edges) are unaffected by edges of dead, not yet swept instances is carried by one obligation on the transitive rule's neighbour selection "
           "and otherwise by the garbage-prefix driver (a defect of exactly that kind was found and repaired).",
    "C15": " C16's assertion contracts (every value written into a managed field reaches add_relation_to_the_graph once) are re-checked under C15; "
           "the transitive rule composes with asserted and inferred edges of the same descriptor class.",
    "C16": " Owners and elements are instances of classes with a __len__ of symbolic size (possibly falsy).",
    "C17": " Assumed RWXNode contract: a display node adds itself to the graph it is given, so rendering must not hand it the diagram's own graph.",
    "C19": " The mapping holds whichever serialisable class from_json is called on and whatever class-level tables the serialiser classes keep; a normal exit hands over to the attribute of the imported module named by the tag.",
    "C18": " Registry lookup is by the exact type; a serialisable object that is iterable is still serialised as an object. What a class's _from_json built is returned untouched (it may be falsy).",
}
for _k, _v in _ADD.items():
    if _k in CHECKS and "text" in CHECKS[_k]:
        CHECKS[_k]["text"] += _v
