"""Harness running, obligation aggregation."""
from __future__ import annotations
import time
import z3
import traceback

from .ctx import explore, Unsupported, Check
from .repo import Loader
from .vm import VM
from .interp import Spec, PyRaise


class Harness:
    def __init__(self, name, fn, spec=None, functions=(), covers=(), max_paths=20000, expect_fail=False,
                 timeout_ms=10000, finalize=None, retry_unknown=True, ematching_only=False):
        self.name = name
        self.fn = fn                    # fn(vm) ; uses vm.ctx
        self.spec = spec or Spec()
        self.functions = list(functions)   # (module, qualname) under contract in this harness
        self.covers = list(covers)
        self.max_paths = max_paths
        self.expect_fail = expect_fail  # canary
        self.timeout_ms = timeout_ms
        self.retry_unknown = retry_unknown
        self.ematching_only = ematching_only
        self.finalize = finalize        # fn(list of finished ctxs) -> list of Check  (obligations that span paths)


class HarnessResult:
    def __init__(self, name):
        self.name = name
        self.checks = []
        self.paths = 0
        self.cut = 0
        self.infeasible = 0
        self.solver_s = 0.0
        self.solver_calls = 0
        self.undecided = None
        self.error = None
        self.covers = set()
        self.wall_s = 0.0
        self.inlined = set()
        self.stubbed = set()
        self.notes = []
        self.nonvacuous_paths = 0


_LOADER = None


def get_loader():
    global _LOADER
    if _LOADER is None:
        _LOADER = Loader()
    return _LOADER


def reset_loader_state(loader):
    for m in loader.modules.values():
        if m is None:
            continue
        m.values.clear()
        for c in m.classes.values():
            c.class_attr_vals.clear()


def run_harness(h: Harness) -> HarnessResult:
    res = HarnessResult(h.name)
    loader = get_loader()
    t0 = time.time()

    def body(ctx):
        reset_loader_state(loader)
        vm = VM(loader, ctx, h.spec)
        try:
            h.fn(vm)
        except PyRaise as e:
            # an exception of the interpreted program escaping the harness is a harness bug unless checked
            ctx.fail(f"{h.name}::uncaught-exception", detail=repr(e.exc) + " " + repr(e.exc.fields.get("args"))[:300])
        # vacuity guard: the hypotheses of this completed path must be satisfiable (unknown counts as satisfiable)
        import z3
        ctx.solver.set("timeout", 1000)
        ctx.nonvacuous = ctx._check() != z3.unsat

    try:
        done, stats = explore(body, max_paths=h.max_paths, timeout_ms=h.timeout_ms, retry_unknown=h.retry_unknown, ematching_only=h.ematching_only)
        for c in done:
            res.checks.extend(c.checks)
            res.covers |= c.covers
            if getattr(c, "nonvacuous", False):
                res.nonvacuous_paths += 1
        if h.finalize is not None:
            res.checks.extend(h.finalize([c for c in done if getattr(c, "end", "") != "infeasible"]))
        res.paths = stats.paths
        res.cut = stats.cut_paths
        res.infeasible = stats.infeasible
        res.solver_s = stats.solver_s
        res.solver_calls = stats.solver_calls
    except Unsupported as e:
        res.undecided = str(e)
    except z3.Z3Exception as e:
        # the code no longer fits the sorts of the sidecar model (e.g. an address where the model expects a node index)
        res.undecided = f"the sidecar model does not fit this code shape (z3: {e})"
    except AssertionError as e:
        # a sidecar model met a code shape it does not cover ("... is not modelled"): undecided, never a verdict
        res.undecided = f"the sidecar model does not cover this code shape: {e}"
    except RecursionError as e:
        res.undecided = f"recursion limit: {e}"
    except Exception as e:  # engine error
        res.error = "".join(traceback.format_exception(type(e), e, e.__traceback__))[-3000:]
    res.inlined = set(h.spec.inlined)
    res.stubbed = set(h.spec.stubbed)
    res.wall_s = time.time() - t0
    return res


def aggregate(results):
    """oid -> dict(status, instances, failed_models, seconds)."""
    out = {}
    for r in results:
        for c in r.checks:
            o = out.setdefault(c.oid, {"status": "discharged", "instances": 0, "models": [], "seconds": 0.0,
                                       "harness": r.name, "details": [], "reasons": []})
            o["instances"] += 1
            o["seconds"] += c.seconds
            if c.status == "failed":
                o["status"] = "failed"
                if len(o["models"]) < 5:
                    o["models"].append({"model": c.model, "detail": c.detail, "path": c.path, "overapprox": getattr(c, "overapprox", False)})
            elif c.status == "unknown" and o["status"] != "failed":
                o["status"] = "unknown"
                o["reasons"].append(c.reason)
                if len(o["models"]) < 2:
                    o["models"].append({"model": c.model, "detail": c.detail, "path": c.path, "overapprox": getattr(c, "overapprox", False)})
    return out
