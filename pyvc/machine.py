"""Expression evaluation, calls, statements (generator based), loop rule."""
from __future__ import annotations
import ast
import z3

from .values import (SV, SInt, SBool, SStr, Obj, PyList, PySet, PyDict, ExtClass, FuncVal, BoundMethod,
                     Builtin, GenObj, Opaque, Havoc, ModuleVal, SymStream)
from .ctx import Unsupported, PathEnd
from .repo import ClassInfo
from . import ops
from .ops import key_of, wrap_bool, wrap_int, wrap_str, zint, zbool, zstr
from .interp import Interp, Frame, PyRaise, INLINE, LoopSpec, is_generator_node

MUTATORS = {"append", "add", "update", "extend", "pop", "clear", "remove", "insert", "setdefault", "discard",
            "popitem", "sort", "reverse", "difference_update", "intersection_update", "symmetric_difference_update"}


class Machine(Interp):
    # ================================================================== expressions
    def ev(self, n, fr):
        m = getattr(self, "ev_" + type(n).__name__, None)
        if m is None:
            raise Unsupported(f"expression {type(n).__name__} at line {getattr(n, 'lineno', '?')}")
        return m(n, fr)

    def ev_Slice(self, n, fr):
        lo = self.ev(n.lower, fr) if n.lower else None
        hi = self.ev(n.upper, fr) if n.upper else None
        st = self.ev(n.step, fr) if n.step else None
        if any(isinstance(x, SV) for x in (lo, hi, st)):
            raise Unsupported("symbolic slice bound")
        return slice(lo, hi, st)

    def ev_Constant(self, n, fr):
        return n.value

    def ev_Name(self, n, fr):
        v = self.lookup(n.id, fr)
        if isinstance(v, Havoc):
            raise Unsupported(f"read of havoc'd local {n.id} (line {n.lineno})")
        return v

    def ev_Attribute(self, n, fr):
        return self._getattr(self.ev(n.value, fr), n.attr)

    def ev_Tuple(self, n, fr):
        return tuple(self._elts(n.elts, fr))

    def ev_List(self, n, fr):
        return PyList(self._elts(n.elts, fr))

    def ev_Set(self, n, fr):
        s = PySet()
        for x in self._elts(n.elts, fr):
            ops.set_add(s, x)
        return s

    def _elts(self, elts, fr):
        out = []
        for e in elts:
            if isinstance(e, ast.Starred):
                out.extend(self.to_list(self.ev(e.value, fr)))
            else:
                out.append(self.ev(e, fr))
        return out

    def ev_Dict(self, n, fr):
        d = PyDict()
        for k, v in zip(n.keys, n.values):
            if k is None:
                src = self.ev(v, fr)
                d = self.dict_merge(d, src)
            elif isinstance(d, PyDict):
                ops.dict_set(d, self.ev(k, fr), self.ev(v, fr))
            else:
                d = d.m_with(self, self.ev(k, fr), self.ev(v, fr))      # model dict: functional update
        return d

    def dict_merge(self, d, src):
        if isinstance(src, PyDict) and isinstance(d, PyDict):
            for k, v in ops.dict_items(src):
                ops.dict_set(d, k, v)
            return d
        if isinstance(d, PyDict) and not d.keys and hasattr(src, "m_copy"):
            return src.m_copy(self)
        if hasattr(d, "m_merge"):
            return d.m_merge(self, src)
        if isinstance(d, PyDict) and hasattr(src, "m_copy"):
            r = src.m_copy(self)         # {k: v, **model}: the model's entries win
            for k, v in ops.dict_items(d):
                if not self.truth(r.m_contains(self, k)):
                    r = r.m_with(self, k, v)
            return r
        hook = self.spec.opaque_hooks.get("dict_merge")
        if hook:
            return hook(self, d, src)
        raise Unsupported(f"** of {src!r}")

    def ev_JoinedStr(self, n, fr):
        parts = []
        symbolic = False
        for v in n.values:
            if isinstance(v, ast.Constant):
                parts.append(v.value)
            else:
                try:
                    val = self.ev(v.value, fr)
                except Unsupported:
                    val = Opaque("fmt")
                if isinstance(val, str):
                    parts.append(val)
                elif isinstance(val, bool) or val is None or isinstance(val, int):
                    parts.append(str(val))
                else:
                    hook = self.spec.opaque_hooks.get("format")
                    if hook and isinstance(val, Opaque):
                        hook(self, val)           # formatting runs __format__ / __str__ / __repr__ of the value
                    symbolic = True
        if symbolic:
            return SStr(self.ctx.fresh_str("fstr"))
        return "".join(parts)

    def ev_BoolOp(self, n, fr):
        is_and = isinstance(n.op, ast.And)
        val = None
        for i, e in enumerate(n.values):
            val = self.ev(e, fr)
            if i == len(n.values) - 1:
                return val
            t = self.truth(val)
            if is_and and not t:
                return val if not isinstance(val, SV) else False
            if not is_and and t:
                return val if not isinstance(val, SV) else (True if isinstance(val, SBool) else val)
        return val

    def ev_UnaryOp(self, n, fr):
        v = self.ev(n.operand, fr)
        if isinstance(n.op, ast.Not):
            if isinstance(v, SBool):
                return wrap_bool(z3.Not(v.t))
            return not self.truth(v)
        if isinstance(n.op, ast.USub):
            if isinstance(v, SInt):
                return wrap_int(-v.t)
            return -v
        if isinstance(n.op, ast.Invert) and isinstance(v, Obj):
            f = v.cls.find("__invert__", self.loader)
            if f:
                return self.call_func(f[2], [v], {})
        raise Unsupported(f"unary {type(n.op).__name__}")

    def ev_BinOp(self, n, fr):
        return self.binop(n.op, self.ev(n.left, fr), self.ev(n.right, fr))

    def ev_Compare(self, n, fr):
        left = self.ev(n.left, fr)
        res = True
        for op, c in zip(n.ops, n.comparators):
            right = self.ev(c, fr)
            r = self.compare(op, left, right)
            if len(n.ops) == 1:
                return r
            if not isinstance(r, (bool, SBool)):
                if not self.truth(r):
                    return False
            elif r is False:
                return False
            elif r is not True:
                res = r if res is True else SBool(z3.And(zbool(res), zbool(r)))
            left = right
        return res

    def ev_IfExp(self, n, fr):
        return self.ev(n.body, fr) if self.truth(self.ev(n.test, fr)) else self.ev(n.orelse, fr)

    def ev_Lambda(self, n, fr):
        return FuncVal(n, fr.module, owner=fr.owner, closure=fr, qualname=f"<lambda:{n.lineno}>")

    def ev_NamedExpr(self, n, fr):
        v = self.ev(n.value, fr)
        fr.locals[n.target.id] = v
        return v

    def ev_Starred(self, n, fr):
        raise Unsupported("starred outside call/display")

    def ev_Subscript(self, n, fr):
        v = self.ev(n.value, fr)
        if isinstance(n.slice, ast.Slice):
            lo = self.ev(n.slice.lower, fr) if n.slice.lower else None
            hi = self.ev(n.slice.upper, fr) if n.slice.upper else None
            st = self.ev(n.slice.step, fr) if n.slice.step else None
            return self.getslice(v, lo, hi, st)
        return self.getitem(v, self.ev(n.slice, fr))

    def getslice(self, v, lo, hi, st):
        if any(isinstance(x, SV) for x in (lo, hi, st)):
            raise Unsupported("symbolic slice bound")
        if isinstance(v, PyList):
            return PyList(v.items[lo:hi:st])
        if isinstance(v, (tuple, str)):
            return v[lo:hi:st]
        hook = self.spec.opaque_hooks.get("slice")
        if hook:
            return hook(self, v, lo, hi, st)
        raise Unsupported(f"slice of {v!r}")

    def getitem(self, v, k):
        if isinstance(v, Obj) and "__data__" in v.fields and not (isinstance(v.cls, ClassInfo) and v.cls.find("__getitem__", self.loader)):
            v = v.fields["__data__"]
        if isinstance(v, PyDict):
            kk = key_of(k)
            if kk in v.vals:
                return v.vals[kk]
            self.raise_("KeyError", k)
        if isinstance(v, (PyList, tuple, str)):
            items = v.items if isinstance(v, PyList) else v
            if isinstance(k, SInt):
                raise Unsupported("symbolic index into concrete sequence")
            if isinstance(k, slice):
                return PyList(items[k]) if isinstance(v, PyList) else items[k]
            if isinstance(k, bool) or not isinstance(k, int):
                if isinstance(k, bool):
                    k = int(k)
                else:
                    self.raise_("TypeError", "indices must be integers")
            try:
                return items[k]
            except IndexError:
                self.raise_("IndexError", "index out of range")
        if isinstance(v, Obj) and isinstance(v.cls, ClassInfo):
            f = v.cls.find("__getitem__", self.loader)
            if f and f[1] == "method":
                return self.call_func(f[2], [v, k], {})
        if isinstance(v, (ClassInfo, ExtClass)):
            return v    # Generic[T] subscription
        if isinstance(v, Opaque) and hasattr(v, "m_getitem"):
            return v.m_getitem(self, k)
        hook = self.spec.opaque_hooks.get("getitem")
        if hook:
            return hook(self, v, k)
        raise Unsupported(f"subscript of {v!r}")

    def setitem(self, v, k, val):
        if isinstance(v, Obj) and "__data__" in v.fields and not (isinstance(v.cls, ClassInfo) and v.cls.find("__setitem__", self.loader)):
            v = v.fields["__data__"]
        if isinstance(v, PyDict):
            self.ctx.effect("mutate", (v, "__setitem__"))
            ops.dict_set(v, k, val)
            return
        if isinstance(v, PyList):
            self.ctx.effect("mutate", (v, "__setitem__"))
            if isinstance(k, SV):
                raise Unsupported("symbolic index store")
            if isinstance(k, slice):
                v.items[k] = self.to_list(val)
                return
            try:
                v.items[k] = val
            except IndexError:
                self.raise_("IndexError", "assignment index out of range")
            return
        if isinstance(v, Obj) and isinstance(v.cls, ClassInfo):
            f = v.cls.find("__setitem__", self.loader)
            if f and f[1] == "method":
                self.call_func(f[2], [v, k, val], {})
                return
        if isinstance(v, Opaque) and hasattr(v, "m_setitem"):
            return v.m_setitem(self, k, val)
        hook = self.spec.opaque_hooks.get("setitem")
        if hook:
            return hook(self, v, k, val)
        raise Unsupported(f"item store on {v!r}")

    # ---- comprehensions
    def _comp(self, n, fr, emit, first=None):
        """Run the nested generators of a comprehension; emit(frame) is called per innermost iteration.
        A Python generator (so a generator expression stays lazy)."""
        cfr = Frame(self, fr.module, fr.func, parent=fr)

        def level(i):
            if i == len(n.generators):
                r = emit(cfr)
                if r is not None:
                    yield r[0]
                return
            g = n.generators[i]
            it = first[0] if (i == 0 and first is not None) else self.ev(g.iter, cfr if i else fr)

            def body(elem):
                self.assign(g.target, elem, cfr)
                for cond in g.ifs:
                    if not self.truth(self.ev(cond, cfr)):
                        return None
                yield from level(i + 1)
                return None
            yield from self.foreach(it, cfr, body, ("comp", getattr(n, "lineno", 0), i), body_nodes=[n])
        yield from level(0)

    def ev_ListComp(self, n, fr):
        if len(n.generators) == 1 and not n.generators[0].ifs:
            g = n.generators[0]
            src = self.ev(g.iter, fr)
            if isinstance(src, Opaque) and hasattr(src, "m_iter"):
                src = src.m_iter(self)
            if isinstance(src, SymStream):
                # [f(x) for x in <list of unknown length>]: a list of the same length whose i-th element is f(src[i])
                # (f is evaluated on demand; it must be a function of its argument — recursion goes through contracts)
                def elem(vm_, idx, _src=src, _g=g, _n=n, _fr=fr):
                    cfr = Frame(self, _fr.module, _fr.func, parent=_fr)
                    self.assign(_g.target, _src.elem(vm_, idx), cfr)
                    return self.ev(_n.elt, cfr)
                self.ctx.notes.append(("mapped-comprehension", getattr(n, "lineno", 0)))
                if src.meta.get("kind") == "generator":
                    # a list comprehension is eager: a lazily produced stream is consumed completely here (C10 reads this log)
                    self.ctx.effect("materialise", (src.name, "list-comprehension", getattr(n, "lineno", 0)))
                return SymStream(f"map:{src.name}", elem, length=src.length, meta={"kind": "list", "source": src})
            return self._listcomp_over(n, fr, src)
        out = []
        for v in self._comp(n, fr, lambda f: (self.ev(n.elt, f),)):
            out.append(v)
        return PyList(out)

    def _listcomp_over(self, n, fr, src):
        g = n.generators[0]
        if isinstance(src, GenObj):
            # eager consumption of a generator by a list comprehension (C10 reads this log)
            self.ctx.effect("materialise", (src.name, "list-comprehension", getattr(n, "lineno", 0)))
        cfr = Frame(self, fr.module, fr.func, parent=fr)
        out = []

        def body(elem):
            self.assign(g.target, elem, cfr)
            out.append(self.ev(n.elt, cfr))
            return None
            yield
        for _ in self.foreach(src, cfr, body, ("comp", getattr(n, "lineno", 0), 0), body_nodes=[n]):
            pass
        return PyList(out)

    def ev_SetComp(self, n, fr):
        s = PySet()
        for v in self._comp(n, fr, lambda f: (self.ev(n.elt, f),)):
            ops.set_add(s, v)
        return s

    def ev_DictComp(self, n, fr):
        d = PyDict()
        for k, v in self._comp(n, fr, lambda f: ((self.ev(n.key, f), self.ev(n.value, f)),)):
            ops.dict_set(d, k, v)
        return d

    def ev_GeneratorExp(self, n, fr):
        # the outermost iterable of a generator expression is evaluated when the expression is created
        first = [self.ev(n.generators[0].iter, fr)]
        return GenObj(self._comp(n, fr, lambda f: (self.ev(n.elt, f),), first=first), name=f"genexpr:{n.lineno}")

    # ---- calls
    def ev_Call(self, n, fr):
        # super() needs the frame
        if isinstance(n.func, ast.Name) and n.func.id == "super" and not n.args:
            return self.make_super(fr)
        fn = self.ev(n.func, fr)
        args = []
        for a in n.args:
            if isinstance(a, ast.Starred):
                args.extend(self.to_list(self.ev(a.value, fr)))
            else:
                args.append(self.ev(a, fr))
        kwargs = {}
        for kw in n.keywords:
            if kw.arg is None:
                src = self.ev(kw.value, fr)
                if not isinstance(src, PyDict):
                    raise Unsupported(f"**{src!r} in call")
                for k, v in ops.dict_items(src):
                    kwargs[k] = v
            else:
                kwargs[kw.arg] = self.ev(kw.value, fr)
        return self.call(fn, args, kwargs, fr)

    def make_super(self, fr):
        f = fr
        while f is not None and (f.func is None or f.func.owner is None or isinstance(f.func.node, ast.Lambda) or "self_for_super" not in f.__dict__):
            f = f.parent
        if f is None:
            raise Unsupported("super() outside a method")
        return ("super", f.func.owner, f.self_for_super)

    def call(self, fn, args, kwargs=None, fr=None):
        kwargs = kwargs or {}
        if isinstance(fn, FuncVal):
            return self.call_func(fn, args, kwargs)
        if isinstance(fn, BoundMethod):
            return self.call(fn.func, [fn.selfv] + list(args), kwargs, fr)
        if isinstance(fn, Builtin):
            return fn.fn(self, fr, list(args), kwargs)
        if isinstance(fn, ClassInfo):
            return self.instantiate(fn, args, kwargs)
        if isinstance(fn, ExtClass):
            return self.instantiate_ext(fn, args, kwargs)
        if isinstance(fn, Obj) and isinstance(fn.cls, ExtClass) and fn.cls.name == "weakref":
            return fn.fields["referent"] if fn.fields.get("alive", True) else None
        if isinstance(fn, Obj) and isinstance(fn.cls, ClassInfo):
            f = fn.cls.find("__call__", self.loader)
            if f and f[1] == "method":
                return self.call_func(f[2], [fn] + list(args), kwargs)
        if isinstance(fn, Opaque) and hasattr(fn, "m_call"):
            return fn.m_call(self, list(args), kwargs)
        if isinstance(fn, Opaque):
            hook = self.spec.opaque_hooks.get("call")
            if hook:
                return hook(self, fn, args, kwargs)
        from .values import STerm as _STerm
        if isinstance(fn, _STerm):
            hook = self.spec.opaque_hooks.get("sterm_call")
            if hook:
                return hook(self, fn, args, kwargs)
        raise Unsupported(f"call of {fn!r}")

    def call_method(self, obj, name, *args, **kwargs):
        return self.call(self._getattr(obj, name), list(args), kwargs)

    def bind(self, fv, args, kwargs):
        node = fv.node
        a = node.args
        fr = Frame(self, fv.module, fv, parent=fv.closure)
        params = [p.arg for p in a.posonlyargs + a.args]
        args = list(args)
        kwargs = dict(kwargs)
        n_pos = len(params)
        defaults = a.defaults
        first_default = n_pos - len(defaults)
        for i, p in enumerate(params):
            if i < len(args):
                if p in kwargs:
                    self.raise_("TypeError", f"multiple values for argument {p}")
                fr.locals[p] = args[i]
            elif p in kwargs:
                fr.locals[p] = kwargs.pop(p)
            elif i >= first_default:
                fr.locals[p] = self.ev(defaults[i - first_default], Frame(self, fv.module, parent=fv.closure))
            else:
                self.raise_("TypeError", f"{fv.qualname}() missing required argument {p}")
        extra = args[n_pos:]
        if a.vararg:
            fr.locals[a.vararg.arg] = tuple(extra)
        elif extra:
            self.raise_("TypeError", f"{fv.qualname}() takes {n_pos} positional arguments but {len(args)} were given")
        for p, d in zip(a.kwonlyargs, a.kw_defaults):
            if p.arg in kwargs:
                fr.locals[p.arg] = kwargs.pop(p.arg)
            elif d is not None:
                fr.locals[p.arg] = self.ev(d, Frame(self, fv.module, parent=fv.closure))
            else:
                self.raise_("TypeError", f"{fv.qualname}() missing keyword-only argument {p.arg}")
        if a.kwarg:
            fr.locals[a.kwarg.arg] = ops.make_dict(list(kwargs.items()))
        elif kwargs:
            self.raise_("TypeError", f"{fv.qualname}() got an unexpected keyword argument {next(iter(kwargs))}")
        if fv.owner is not None and params and not isinstance(node, ast.Lambda) and "staticmethod" not in fv.decorators:
            fr.self_for_super = fr.locals.get(params[0])
        return fr

    def call_func(self, fv, args, kwargs):
        stub = self.spec.stubs.get(fv.qualname)
        if stub is None and fv.owner is None and fv.closure is None:
            stub = self.spec.stubs.get(f"{fv.module.name}:{fv.qualname}")
        if stub is not None:
            r = stub(self, list(args), dict(kwargs))
            if r is not INLINE:
                self.spec.stubbed.add(fv.qualname)
                return r
        if isinstance(fv.node, ast.Lambda):
            fr = self.bind(fv, args, kwargs)
            return self.ev(fv.node.body, fr)
        if self.depth > self.spec.inline_depth:
            raise Unsupported(f"inline depth exceeded at {fv.qualname} (recursion needs a contract)")
        self.spec.inlined.add(fv.qualname)
        fr = self.bind(fv, args, kwargs)
        if is_generator_node(fv.node):
            return GenObj(self.run_gen(fv, fr), name=fv.qualname)
        self.depth += 1
        try:
            gen = self.exec_block(fv.node.body, fr)
            try:
                while True:
                    next(gen)
                    raise Unsupported("yield in non-generator")
            except StopIteration as e:
                sig = e.value
        finally:
            self.depth -= 1
        if sig is not None and sig[0] == "return":
            return sig[1]
        return None

    def run_gen(self, fv, fr):
        sig = yield from self.exec_block(fv.node.body, fr)
        return sig[1] if sig and sig[0] == "return" else None

    # ---- instantiation
    def instantiate(self, cls, args, kwargs):
        stub = self.spec.stubs.get(cls.name + ".__call__")
        if stub is not None:
            r = stub(self, [cls] + list(args), dict(kwargs))
            if r is not INLINE:
                return r
        if cls.metaclass is not None:
            mc = self.ev(cls.metaclass, Frame(self, cls.module))
            if isinstance(mc, ClassInfo):
                f = mc.find("__call__", self.loader)
                if f and f[1] == "method":
                    return self.call_func(f[2], [cls] + list(args), kwargs)
        return self.construct(cls, args, kwargs)

    def construct(self, cls, args, kwargs):
        new = cls.find("__new__", self.loader)
        if new and new[1] == "method":
            obj = self.call_func(new[2], [cls] + list(args), kwargs)
            if not (isinstance(obj, Obj) and self.is_subclass(obj.cls, cls)):
                return obj
        else:
            obj = self.alloc(cls)
        self.init_object(obj, cls, args, kwargs)
        return obj

    def init_object(self, obj, cls, args, kwargs):
        for c in cls.mro(self.loader):
            if isinstance(c, ClassInfo):
                if "__init__" in c.methods:
                    self.call_func(c.methods["__init__"], [obj] + list(args), kwargs)
                    return
                if c.is_dataclass_decl and c.dataclass_params().get("init", True):
                    self.dataclass_init(obj, cls, args, kwargs)
                    return
            elif isinstance(c, ExtClass) and c.name not in ("object", "ABC", "Generic", "abc.ABC", "typing.Generic"):
                self.ext_init(obj, c, args, kwargs)
                return
        if args or kwargs:
            self.raise_("TypeError", f"{cls.name}() takes no arguments")

    def ext_init(self, obj, c, args, kwargs):
        if c.py is not None and issubclass(c.py, BaseException):
            obj.fields["args"] = tuple(args)
            return
        hook = self.spec.opaque_hooks.get("ext_init")
        if hook:
            return hook(self, obj, c, args, kwargs)
        if c.name in ("list", "set", "dict", "UserDict"):
            obj.fields["__data__"] = self.call(self.builtins[c.name if c.name != "UserDict" else "dict"], list(args), kwargs)
            return
        if args or kwargs:
            raise Unsupported(f"constructor of external base {c.name}")

    def dataclass_init(self, obj, cls, args, kwargs):
        fields = cls.dataclass_fields(self.loader)
        init_fields = [f for f in fields if f.init]
        pos = [f for f in init_fields if not f.kw_only]
        args = list(args)
        kwargs = dict(kwargs)
        if len(args) > len(pos):
            self.raise_("TypeError", f"{cls.name}.__init__() takes {len(pos)} positional arguments but {len(args)} were given")
        given = {}
        for f, a in zip(pos, args):
            given[f.name] = a
        for f in init_fields:
            if f.name in kwargs:
                if f.name in given:
                    self.raise_("TypeError", f"multiple values for {f.name}")
                given[f.name] = kwargs.pop(f.name)
        if kwargs:
            self.raise_("TypeError", f"{cls.name}.__init__() got an unexpected keyword argument {next(iter(kwargs))}")
        dfr = Frame(self, cls.module)
        initvars = []
        for f in fields:
            if f.initvar:
                if f.name in given:
                    initvars.append(given[f.name])
                elif f.has_default and f.default is not None:
                    initvars.append(self.ev(f.default, Frame(self, f.owner.module)))
                else:
                    self.raise_("TypeError", f"{cls.name}.__init__() missing required argument {f.name}")
                continue
            if f.name in given:
                val = given[f.name]
            elif f.default_factory is not None:
                ofr = Frame(self, f.owner.module)
                val = self.call(self.ev(f.default_factory, ofr), [], {})
            elif f.has_default:
                ofr = Frame(self, f.owner.module)
                val = self.ev(f.default, ofr)
            elif f.init:
                self.raise_("TypeError", f"{cls.name}.__init__() missing required argument {f.name}")
            else:
                continue
            self.setattr(obj, f.name, val)
        pi = cls.find("__post_init__", self.loader)
        if pi and pi[1] == "method":
            self.call_func(pi[2], [obj] + initvars, {})

    def instantiate_ext(self, cls, args, kwargs):
        nm = cls.name.split(".")[-1]
        if nm in self.builtins and not (cls.py is not None and isinstance(cls.py, type) and issubclass(cls.py, BaseException)):
            return self.call(self.builtins[nm], args, kwargs)
        if cls.py is not None and issubclass(cls.py, BaseException):
            return self.make_exc(cls, *args)
        hook = self.spec.opaque_hooks.get("ext_new")
        if hook:
            return hook(self, cls, args, kwargs)
        raise Unsupported(f"instantiate external {cls.name}")

    def default_method(self, cls, name, args, kwargs):
        """object.__new__ / __init__ and friends reached through super() or Class.attr."""
        if name == "__new__":
            target = args[0]
            return self.alloc(target)
        if name == "__init__":
            if isinstance(cls, ExtClass) and args and cls.name != "object":
                self.ext_init(args[0], cls, args[1:], kwargs)
            return None
        if isinstance(cls, ExtClass) and cls.name in ("list", "set", "dict") and args and isinstance(args[0], Obj) \
                and "__data__" in args[0].fields:
            from .builtins_ import method_of
            m = method_of(self, args[0].fields["__data__"], name)
            if m is None:
                raise Unsupported(f"{cls.name}.{name}")
            return self.call(m, args[1:], kwargs)
        if name == "__subclasses__":
            hook = self.spec.opaque_hooks.get("subclasses")
            if hook:
                return hook(self, cls)
            raise Unsupported("__subclasses__ needs a contract")
        if name == "__call__" and isinstance(cls, ExtClass) and cls.name == "type":
            return self.construct(args[0], args[1:], kwargs)
        if name in ("__post_init__", "__init_subclass__"):
            return None
        if name == "__hash__":
            return Opaque("hash")
        if name == "__eq__":
            return args[0] is args[1]
        if name in ("__setattr__",):
            args[0].fields[args[1]] = args[2]
            return None
        raise Unsupported(f"{cls!r}.{name}")

    def super_getattr(self, sup, name):
        _, owner, selfv = sup
        start_cls = selfv if isinstance(selfv, ClassInfo) else selfv.cls
        mro = self.mro(start_cls)
        if not any(c is owner for c in mro) and isinstance(selfv, ClassInfo):
            # a metaclass method: self is a class, the search continues along the metaclass's MRO
            mro = self.mro(owner)
            if not any(isinstance(c, ExtClass) and c.name == "type" for c in mro):
                mro = list(mro) + [self.ext("type")]
        idx = next(i for i, c in enumerate(mro) if c is owner)
        for c in mro[idx + 1:]:
            if isinstance(c, ClassInfo):
                if name in c.methods:
                    f = c.methods[name]
                    if "staticmethod" in f.decorators or name == "__new__":
                        return f
                    if "classmethod" in f.decorators:
                        return BoundMethod(start_cls, f)
                    return BoundMethod(selfv, f)
                if c.is_dataclass_decl and name == "__init__":
                    return Builtin("dc_init", lambda it, fr, a, k, _c=c: it.dataclass_init(selfv, _c, a, k))
            else:
                if c.name.split(".")[-1] in ("object", "ABC", "Generic", "Protocol"):
                    continue
                return Builtin(f"{c.name}.{name}", lambda it, fr, a, k, _c=c: it.default_method(
                    _c, name, ([selfv] if name != "__new__" else []) + a, k))
        return Builtin(f"object.{name}", lambda it, fr, a, k: it.default_method(
            self.ext("object"), name, ([selfv] if name != "__new__" else []) + a, k))

    # ---- iteration helpers
    def to_list(self, v):
        if isinstance(v, PyList):
            return list(v.items)
        if isinstance(v, tuple):
            return list(v)
        if isinstance(v, PySet):
            return list(v.items)
        if isinstance(v, PyDict):
            return [v.keys[k] for k in v.keys]
        if isinstance(v, str):
            return list(v)
        if isinstance(v, Obj) and "__data__" in v.fields and not (isinstance(v.cls, ClassInfo) and v.cls.find("__iter__", self.loader)):
            return self.to_list(v.fields["__data__"])
        if isinstance(v, (GenObj, Obj)):
            return list(self.iterate(v))
        if isinstance(v, Opaque) and hasattr(v, "m_iter"):
            return self.to_list(v.m_iter(self))
        if isinstance(v, Opaque) and "to_list" in self.spec.opaque_hooks:
            return self.spec.opaque_hooks["to_list"](self, v)
        if isinstance(v, SymStream):
            hook = self.spec.opaque_hooks.get("materialize")
            if hook:
                return hook(self, v)
            raise Unsupported(f"materialising unbounded stream {v!r}")
        raise Unsupported(f"list({v!r})")

    def iterate(self, v):
        """Python-level generator over the elements of a concrete-length iterable."""
        if isinstance(v, PyList):
            i = 0
            while i < len(v.items):
                yield v.items[i]
                i += 1
            return
        if isinstance(v, (tuple, str)):
            yield from v
            return
        if isinstance(v, PySet):
            yield from list(v.items)
            return
        if isinstance(v, PyDict):
            yield from [v.keys[k] for k in list(v.keys)]
            return
        if isinstance(v, GenObj):
            # no `yield from`: leaving a for loop with `break` must not close the interpreted generator (Python keeps it alive)
            while True:
                try:
                    x = next(v.it)
                except StopIteration:
                    v.done = True
                    return
                yield x
        if isinstance(v, Obj) and isinstance(v.cls, ClassInfo):
            f = v.cls.find("__iter__", self.loader)
            if f and f[1] == "method":
                yield from self.iterate(self.call_func(f[2], [v], {}))
                return
            if "__data__" in v.fields:
                yield from self.iterate(v.fields["__data__"])
                return
        if isinstance(v, range):
            yield from v
            return
        if isinstance(v, Opaque):
            hook = self.spec.opaque_hooks.get("iter")
            if hook:
                yield from hook(self, v)
                return
        if isinstance(v, Havoc):
            raise Unsupported("iteration over havoc'd value")
        if v is None or isinstance(v, (int, bool, SInt, SBool)):
            self.raise_("TypeError", f"object is not iterable")
        raise Unsupported(f"iteration over {v!r}")
