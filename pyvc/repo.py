"""Loading of the real source under /repo/src: modules, classes (MRO, dataclass fields), functions.

Nothing is imported or executed natively: the files are parsed with `ast` on every run.
"""
from __future__ import annotations
import ast
import builtins
import hashlib
import os

from .values import ExtClass, FuncVal, ModuleVal
from .ctx import Unsupported

REPO_ROOT = os.environ.get("KRROOD_REPO", "/repo")
SRC_ROOT = os.path.join(REPO_ROOT, "src")


def decorator_names(node):
    out = []
    for d in node.decorator_list:
        if isinstance(d, ast.Call):
            d = d.func
        if isinstance(d, ast.Name):
            out.append(d.id)
        elif isinstance(d, ast.Attribute):
            out.append(d.attr)
    return out


class FieldInfo:
    def __init__(self, name, default=None, default_factory=None, init=True, kw_only=False, has_default=False, owner=None):
        self.name = name
        self.default = default                  # ast expr or None
        self.default_factory = default_factory  # ast expr or None
        self.init = init
        self.kw_only = kw_only
        self.has_default = has_default
        self.owner = owner
        self.initvar = False


class ClassInfo:
    def __init__(self, node, module):
        self.node = node
        self.module = module
        self.name = node.name
        self.qualname = f"{module.name}.{node.name}"
        self.decorators = decorator_names(node)
        self.methods = {}
        self.class_attrs = {}       # name -> ast expr (evaluated lazily by the interpreter)
        self.class_attr_vals = {}   # evaluated / assigned class attributes
        self.annotations = {}       # name -> ast annotation
        self.own_fields = []        # declaration order (annotated, non ClassVar)
        self._bases = None
        self._mro = None
        self.metaclass = None
        for st in node.body:
            if isinstance(st, (ast.FunctionDef, ast.AsyncFunctionDef)):
                decs = decorator_names(st)
                if "setter" in decs:
                    self.methods[st.name + "@setter"] = FuncVal(st, module, owner=self, decorators=decs,
                                                               qualname=f"{self.name}.{st.name}@setter")
                    continue
                self.methods[st.name] = FuncVal(st, module, owner=self, decorators=decs,
                                                qualname=f"{self.name}.{st.name}")
            elif isinstance(st, ast.AnnAssign) and isinstance(st.target, ast.Name):
                self.annotations[st.target.id] = st.annotation
                ann = ast.unparse(st.annotation)
                if ann.startswith("ClassVar") or ann.startswith("typing.ClassVar"):
                    if st.value is not None:
                        self.class_attrs[st.target.id] = st.value
                    continue
                self.own_fields.append((st.target.id, st.value))
                if st.value is not None and not _is_field_call(st.value):
                    self.class_attrs[st.target.id] = st.value
            elif isinstance(st, ast.Assign) and len(st.targets) == 1 and isinstance(st.targets[0], ast.Name):
                self.class_attrs[st.targets[0].id] = st.value
        for kw in node.keywords:
            if kw.arg == "metaclass":
                self.metaclass = kw.value

    @property
    def is_dataclass_decl(self):
        return "dataclass" in self.decorators

    def dataclass_params(self):
        out = {}
        for d in self.node.decorator_list:
            if isinstance(d, ast.Call) and ((isinstance(d.func, ast.Name) and d.func.id == "dataclass") or
                                            (isinstance(d.func, ast.Attribute) and d.func.attr == "dataclass")):
                for kw in d.keywords:
                    out[kw.arg] = ast.literal_eval(kw.value)
        return out

    def bases(self, loader):
        if self._bases is None:
            bs = []
            for b in self.node.bases:
                if isinstance(b, ast.Subscript):
                    b = b.value
                if isinstance(b, ast.Name):
                    try:
                        v = self.module.lookup(b.id, loader)
                    except KeyError:
                        v = loader.ext_class(b.id)
                elif isinstance(b, ast.Attribute):
                    v = loader.ext_class(ast.unparse(b))
                else:
                    raise Unsupported(f"base {ast.dump(b)}")
                if isinstance(v, (ClassInfo, ExtClass)):
                    bs.append(v)
                else:
                    bs.append(loader.ext_class(ast.unparse(b)))
            self._bases = bs
        return self._bases

    def mro(self, loader):
        if self._mro is None:
            self._mro = _c3(self, loader)
        return self._mro

    def is_dataclass(self, loader):
        return any(isinstance(c, ClassInfo) and c.is_dataclass_decl for c in self.mro(loader))

    def find(self, name, loader):
        """Look a method / class attribute expr up along the MRO.  Returns (owner, kind, thing) or None."""
        for c in self.mro(loader):
            if isinstance(c, ClassInfo):
                if name in c.class_attr_vals:
                    return c, "val", c.class_attr_vals[name]
                if name in c.methods:
                    return c, "method", c.methods[name]
                if name in c.class_attrs:
                    return c, "attr", c.class_attrs[name]
        return None

    def dataclass_fields(self, loader):
        """Fields in dataclass order: base classes first (reverse MRO), redefinitions keep position."""
        order = []
        infos = {}
        for c in reversed(self.mro(loader)):
            if not isinstance(c, ClassInfo) or not c.is_dataclass_decl:
                continue
            params = c.dataclass_params()
            for name, value in c.own_fields:
                fi = FieldInfo(name, owner=c, kw_only=bool(params.get("kw_only", False)))
                ann = ast.unparse(c.annotations[name]) if name in c.annotations else ""
                fi.initvar = ann.startswith("InitVar") or ann.startswith("dataclasses.InitVar")
                if value is not None:
                    if _is_field_call(value):
                        for kw in value.keywords:
                            if kw.arg == "default":
                                fi.default = kw.value
                                fi.has_default = not (isinstance(kw.value, ast.Name) and kw.value.id == "MISSING")
                                if not fi.has_default:
                                    fi.default = kw.value
                                    fi.has_default = True  # MISSING sentinel is a value (used as falsy marker)
                            elif kw.arg == "default_factory":
                                fi.default_factory = kw.value
                                fi.has_default = True
                            elif kw.arg == "init":
                                fi.init = ast.literal_eval(kw.value)
                            elif kw.arg == "kw_only":
                                fi.kw_only = ast.literal_eval(kw.value)
                    else:
                        fi.default = value
                        fi.has_default = True
                if name not in infos:
                    order.append(name)
                infos[name] = fi
        return [infos[n] for n in order]

    def __repr__(self):
        return f"<class {self.name}>"


def _is_field_call(v):
    return isinstance(v, ast.Call) and ((isinstance(v.func, ast.Name) and v.func.id == "field") or
                                        (isinstance(v.func, ast.Attribute) and v.func.attr == "field"))


def _c3(cls, loader):
    def mro_of(c):
        if isinstance(c, ClassInfo):
            return list(c.mro(loader))
        out = [c]
        if getattr(c, "py", None) is not None:
            out += [loader.ext_class(k.__name__, k) for k in c.py.__mro__[1:]]
        for b in getattr(c, "bases", ()) or ():          # sidecar-declared external hierarchy
            out += [k for k in mro_of(b) if k not in out]
        return out
    bases = cls.bases(loader)
    seqs = [mro_of(b) for b in bases] + [list(bases)]
    res = [cls]
    while True:
        seqs = [s for s in seqs if s]
        if not seqs:
            return res
        for s in seqs:
            cand = s[0]
            if not any(_in_tail(cand, t) for t in seqs):
                break
        else:
            raise Unsupported(f"inconsistent MRO for {cls.name}")
        res.append(cand)
        for s in seqs:
            if s and _same_cls(s[0], cand):
                del s[0]


def _same_cls(a, b):
    if a is b:
        return True
    return isinstance(a, ExtClass) and isinstance(b, ExtClass) and a.name == b.name


def _in_tail(c, seq):
    return any(_same_cls(c, x) for x in seq[1:])


class Module:
    def __init__(self, name, path):
        self.name = name
        self.path = path
        with open(path, "rb") as f:
            raw = f.read()
        self.sha256 = hashlib.sha256(raw).hexdigest()
        self.source = raw.decode()
        self.tree = ast.parse(self.source)
        self.classes = {}
        self.functions = {}
        self.assigns = {}
        self.imports = {}      # local name -> ('mod', modname) | ('from', modname, attr)
        self.values = {}       # evaluated module globals (cache)
        self._scan(self.tree.body)

    def _scan(self, body):
        for st in body:
            if isinstance(st, ast.ClassDef):
                self.classes[st.name] = ClassInfo(st, self)
            elif isinstance(st, (ast.FunctionDef, ast.AsyncFunctionDef)):
                self.functions[st.name] = FuncVal(st, self, decorators=decorator_names(st), qualname=st.name)
            elif isinstance(st, ast.Assign):
                for t in st.targets:
                    if isinstance(t, ast.Name):
                        self.assigns[t.id] = st.value
            elif isinstance(st, ast.AnnAssign) and isinstance(st.target, ast.Name) and st.value is not None:
                self.assigns[st.target.id] = st.value
            elif isinstance(st, ast.Import):
                for a in st.names:
                    self.imports[a.asname or a.name.split(".")[0]] = ("mod", a.name if a.asname else a.name.split(".")[0])
            elif isinstance(st, ast.ImportFrom):
                mod = self._resolve_relative(st.module, st.level)
                for a in st.names:
                    self.imports[a.asname or a.name] = ("from", mod, a.name)
            elif isinstance(st, ast.If):
                # `if TYPE_CHECKING:` imports are type-only; other top-level ifs are scanned (both arms)
                test = ast.unparse(st.test)
                if test == "TYPE_CHECKING":
                    self._scan_typeonly(st.body)
                    self._scan(st.orelse)
                else:
                    self._scan(st.body)
                    self._scan(st.orelse)
            elif isinstance(st, ast.Try):
                self._scan(st.body)

    def _scan_typeonly(self, body):
        for st in body:
            if isinstance(st, ast.ImportFrom):
                mod = self._resolve_relative(st.module, st.level)
                for a in st.names:
                    self.imports.setdefault(a.asname or a.name, ("from", mod, a.name))

    def _resolve_relative(self, module, level):
        if level == 0:
            return module
        parts = self.name.split(".")
        is_pkg = os.path.basename(self.path) == "__init__.py"
        base = parts if is_pkg else parts[:-1]
        if level > 1:
            base = base[: len(base) - (level - 1)]
        return ".".join(base + ([module] if module else []))

    def lookup(self, name, loader):
        if name in self.values:
            return self.values[name]
        if name in self.classes:
            return self.classes[name]
        if name in self.functions:
            return self.functions[name]
        if name in self.imports:
            imp = self.imports[name]
            if imp[0] == "mod":
                m = loader.module(imp[1], must=False)
                return ModuleVal(imp[1], m)
            _, mod, attr = imp
            m = loader.module(mod, must=False)
            if m is not None:
                if attr in m.classes or attr in m.functions or attr in m.assigns or attr in m.imports or attr in m.values:
                    return m.lookup(attr, loader)
                sub = loader.module(mod + "." + attr, must=False)
                if sub is not None:
                    return ModuleVal(mod + "." + attr, sub)
                raise Unsupported(f"{mod}.{attr} not found")
            return loader.external(mod, attr)
        if name in self.assigns:
            return ("lazy", self, name, self.assigns[name])
        raise KeyError(name)

    def __repr__(self):
        return f"<module {self.name}>"


_BUILTIN_EXC = {n: getattr(builtins, n) for n in dir(builtins)
                if isinstance(getattr(builtins, n), type) and issubclass(getattr(builtins, n), BaseException)}


_LOGGER = None


def _inert_logger():
    """logging.getLogger(...) / logging.debug(...) ... : callable, returns itself, every attribute is itself"""
    global _LOGGER
    if _LOGGER is None:
        from .values import Opaque

        class Inert(Opaque):
            def m_getattr(self, vm, name):
                if name in ("DEBUG", "INFO", "WARNING", "ERROR"):
                    return {"DEBUG": 10, "INFO": 20, "WARNING": 30, "ERROR": 40}[name]
                return self

            def m_call(self, vm, args, kwargs):
                return self

            def m_truth(self, vm):
                return True
        _LOGGER = Inert("logging")
    return _LOGGER


class Loader:
    def __init__(self, src_root=None):
        self.src_root = src_root or SRC_ROOT
        self.modules = {}
        self.ext_classes = {}
        self.externals = {}     # (mod, attr) -> value provided by the engine / sidecar

    def module(self, name, must=True):
        if name in self.modules:
            return self.modules[name]
        rel = name.replace(".", os.sep)
        for cand in (os.path.join(self.src_root, rel + ".py"), os.path.join(self.src_root, rel, "__init__.py")):
            if os.path.isfile(cand):
                m = Module(name, cand)
                self.modules[name] = m
                return m
        if must:
            raise Unsupported(f"module {name} not in repository")
        self.modules[name] = None
        return None

    def add_module(self, name, source):
        """Register a synthetic module (harness-side classes that subclass repository classes)."""
        import tempfile
        path = os.path.join(tempfile.gettempdir(), f"pyvc_synth_{name.replace('.', '_')}_{os.getpid()}.py")
        with open(path, "w") as f:
            f.write(source)
        try:
            m = Module(name, path)
        finally:
            os.unlink(path)
        self.modules[name] = m
        return m

    def ext_class(self, name, py=None):
        if name not in self.ext_classes:
            if py is None:
                py = _BUILTIN_EXC.get(name) or getattr(builtins, name, None)
            self.ext_classes[name] = ExtClass(name, py if isinstance(py, type) else None)
        return self.ext_classes[name]

    def external(self, mod, attr):
        key = (mod, attr)
        if key in self.externals:
            return self.externals[key]
        from .values import Opaque
        if (mod, attr) in (("_weakref", "ref"), ("weakref", "ref")):
            from .builtins_ import BUILTINS
            return BUILTINS["weakref.ref"]
        if mod == "logging" or mod.startswith("logging."):
            # logging has no effect the properties talk about: loggers are inert objects
            v = _inert_logger()
            self.externals[key] = v
            return v
        if (mod, attr) == ("copy", "copy"):
            from .builtins_ import BUILTINS
            return BUILTINS["copy"]
        if mod in ("collections.abc", "typing", "typing_extensions") and attr in ("Iterable", "Iterator", "Hashable", "Sized", "Container"):
            v = self.ext_class(f"collections.abc.{attr}", None)
            self.externals[key] = v
            return v
        if mod == "math" and attr in ("inf", "nan", "pi", "e", "tau"):
            import math as _math
            v = getattr(_math, attr)
            self.externals[key] = v
            return v
        if (mod, attr) == ("types", "NoneType"):
            v = self.ext_class("NoneType", type(None))
            self.externals[key] = v
            return v
        v = Opaque(f"ext:{mod}.{attr}")
        self.externals[key] = v
        return v

    def cls(self, modname, clsname):
        return self.module(modname).classes[clsname]

    def func(self, modname, qual):
        m = self.module(modname)
        if "." in qual:
            c, f = qual.split(".", 1)
            return m.classes[c].methods[f]
        return m.functions[qual]

    def source_segment(self, fv):
        return ast.get_source_segment(fv.module.source, fv.node) or ""

    def sha_of(self, fv):
        return hashlib.sha256(self.source_segment(fv).encode()).hexdigest()
