"""Symbolic interpreter over the ast of the real repository source."""
from __future__ import annotations
import ast
import z3

from .values import (SV, SInt, SBool, SStr, STerm, Obj, PyList, PySet, PyDict, ExtClass, FuncVal, BoundMethod,
                     Builtin, GenObj, Opaque, Havoc, ModuleVal, SymStream)
from .ctx import Unsupported, PathEnd, Infeasible
from .repo import ClassInfo, Loader
from . import ops
from .ops import key_of, wrap_bool, wrap_int, wrap_str, zint, zbool, zstr


class PyRaise(Exception):
    """An exception of the interpreted program."""

    def __init__(self, exc):
        super().__init__(repr(exc))
        self.exc = exc


class Frame:
    def __init__(self, interp, module, func=None, parent=None):
        self.interp = interp
        self.module = module
        self.func = func
        self.parent = parent
        self.locals = {}
        self.exc_stack = []
        self.nonlocals = set()
        self.globals_decl = set()

    @property
    def owner(self):
        return self.func.owner if self.func is not None else None


class Spec:
    """Everything a sidecar contract module hands to the engine."""

    def __init__(self):
        self.stubs = {}        # qualname -> fn(interp, args, kwargs) -> value | INLINE
        self.loops = {}        # (qualname, ordinal) -> LoopSpec
        self.stream_loops = {}  # stream-name prefix -> LoopSpec (fallback when the loop is not where the sidecar expects it)
        self.attr_hooks = {}   # (classname, attr) -> fn(interp, obj) -> value   (abstract fields)
        self.opaque_hooks = {}  # op name -> fn(interp, opaque, *args)
        self.inline_depth = 60
        self.inlined = set()   # qualnames of repository functions whose bodies were executed
        self.stubbed = set()   # qualnames answered by a contract stub


INLINE = object()


class LoopSpec:
    def __init__(self, inv=None, modifies=None, name=None):
        self.inv = inv            # fn(interp, frame) -> z3 Bool
        self.modifies = modifies  # optional explicit list
        self.name = name


def is_generator_node(node):
    todo = list(node.body) if not isinstance(node, ast.Lambda) else [node.body]
    while todo:
        n = todo.pop()
        if isinstance(n, (ast.Yield, ast.YieldFrom)):
            return True
        if isinstance(n, (ast.FunctionDef, ast.AsyncFunctionDef, ast.Lambda, ast.ClassDef)):
            continue
        todo.extend(ast.iter_child_nodes(n))
    return False


class Interp:
    def __init__(self, loader: Loader, ctx, spec: Spec):
        self.loader = loader
        self.ctx = ctx
        self.spec = spec
        self.heap = []
        self.depth = 0
        self.singletons = {}
        from .builtins_ import BUILTINS
        self.builtins = BUILTINS

    # ------------------------------------------------------------------ objects
    def alloc(self, cls, fields=None, tag=None):
        o = Obj(cls, fields, tag)
        # deterministic ids per path
        o.oid = len(self.heap) + 1
        self.heap.append(o)
        return o

    def ext(self, name):
        return self.loader.ext_class(name)

    def mro(self, cls):
        if isinstance(cls, ClassInfo):
            return cls.mro(self.loader)
        if isinstance(cls, ExtClass):
            if cls.py is not None:
                return [self.loader.ext_class(c.__name__, c) for c in cls.py.__mro__]
            out = [cls]
            for b in getattr(cls, "bases", ()) or ():          # sidecar-declared external hierarchies
                out += [c for c in self.mro(b) if c not in out]
            return out
        raise Unsupported(f"mro of {cls!r}")

    def is_subclass(self, cls, parent):
        cls = self.norm_cls(cls)
        parent = self.norm_cls(parent)
        if isinstance(parent, tuple):
            return any(self.is_subclass(cls, p) for p in parent)
        for c in self.mro(cls):
            if c is parent:
                return True
            if isinstance(c, ExtClass) and isinstance(parent, ExtClass) and c.name == parent.name:
                return True
        if isinstance(parent, ExtClass) and parent.name == "object":
            return True
        return False

    def make_exc(self, cls, *args, **fields):
        if isinstance(cls, str):
            cls = self.ext(cls)
        o = self.alloc(cls, dict(fields))
        o.fields.setdefault("args", tuple(args))
        return o

    def raise_(self, cls, *args):
        raise PyRaise(self.make_exc(cls, *args))

    def exc_matches(self, exc, handler_type):
        if isinstance(handler_type, tuple):
            return any(self.exc_matches(exc, h) for h in handler_type)
        if isinstance(handler_type, (ClassInfo, ExtClass)):
            return self.is_subclass(exc.cls, handler_type)
        raise Unsupported(f"except clause over {handler_type!r}")

    # ------------------------------------------------------------------ names
    def lookup(self, name, fr):
        f = fr
        while f is not None:
            if name in f.locals:
                return f.locals[name]
            f = f.parent
        try:
            v = fr.module.lookup(name, self.loader)
        except KeyError:
            if name in self.builtins:
                return self.builtins[name]
            py = self.loader.ext_class(name)
            if py.py is not None:
                return py
            raise Unsupported(f"unknown name {name} in {fr.module.name}")
        return self.force(v)

    def force(self, v):
        if isinstance(v, tuple) and len(v) == 4 and v[0] == "lazy":
            _, mod, name, expr = v
            fr = Frame(self, mod)
            val = self.ev(expr, fr)
            mod.values[name] = val
            return val
        return v

    def module_global(self, modname, name):
        m = self.loader.module(modname)
        return self.force(m.lookup(name, self.loader))

    # ------------------------------------------------------------------ truth
    def truth(self, v):
        if v is None:
            return False
        if isinstance(v, (bool, int, float, str, tuple, bytes)):
            return bool(v)
        if isinstance(v, SBool):
            return self.ctx.branch(v.t)
        if isinstance(v, SInt):
            return self.ctx.branch(v.t != 0)
        if isinstance(v, SStr):
            return self.ctx.branch(z3.Length(v.t) > 0)
        if isinstance(v, PyList):
            return len(v.items) > 0
        if isinstance(v, PySet):
            return len(v.items) > 0
        if isinstance(v, PyDict):
            return len(v.keys) > 0
        if isinstance(v, Obj):
            if isinstance(v.cls, ClassInfo):
                for nm in ("__bool__", "__len__"):
                    f = v.cls.find(nm, self.loader)
                    if f and f[1] == "method":
                        r = self.call(BoundMethod(v, f[2]), [], {})
                        if nm == "__len__":
                            return self.truth(self.compare(ast.NotEq(), r, 0))
                        return self.truth(r)
            if "__data__" in v.fields:
                return self.truth(v.fields["__data__"])
            hook = self.spec.opaque_hooks.get("obj_truth")
            if hook:
                r = hook(self, v)
                if r is not None:
                    return self.truth(r)
            return True
        if isinstance(v, (ClassInfo, ExtClass, FuncVal, BoundMethod, Builtin, GenObj, ModuleVal)):
            return True
        if isinstance(v, Opaque) and hasattr(v, "m_truth"):
            return self.truth(v.m_truth(self))
        if isinstance(v, Opaque):
            hook = self.spec.opaque_hooks.get("truth")
            if hook:
                return self.truth(hook(self, v))
            raise Unsupported(f"truth value of opaque {v!r}")
        if isinstance(v, STerm):
            hook = self.spec.opaque_hooks.get("sterm_truth")
            if hook:
                return self.truth(hook(self, v))
        if isinstance(v, SymStream):
            hook = self.spec.opaque_hooks.get("stream_truth")
            if hook:
                return self.truth(hook(self, v))
            if v.meta.get("kind") == "generator":
                return True
            if v.length is not None:
                return self.ctx.branch(v.length > 0)
        raise Unsupported(f"truth value of {v!r}")

    # ------------------------------------------------------------------ attribute access
    def getattr(self, v, name, fr=None, default=INLINE):
        try:
            return self._getattr(v, name)
        except PyRaise as e:
            if default is not INLINE and self.is_subclass(e.exc.cls, self.ext("AttributeError")):
                return default
            raise

    def _attr_error(self, v, name):
        self.raise_("AttributeError", f"{v!r} has no attribute {name}")

    def _getattr(self, v, name):
        if isinstance(v, Havoc):
            raise Unsupported(f"attribute {name} of havoc'd value {v!r}")
        if isinstance(v, Obj):
            if name in v.fields:
                val = v.fields[name]
                if isinstance(val, Havoc):
                    raise Unsupported(f"read of havoc'd field {name}")
                return val
            if name == "__class__":
                return v.cls
            if name == "__dict__":
                return ops.make_dict(list(v.fields.items()))
            cls = v.cls
            hook = self.spec.attr_hooks.get((getattr(cls, "name", None), name))
            if hook is None and isinstance(cls, ClassInfo):
                for c in cls.mro(self.loader):
                    hook = self.spec.attr_hooks.get((getattr(c, "name", None), name))
                    if hook:
                        break
            if hook:
                return hook(self, v)
            if isinstance(cls, ClassInfo):
                found = cls.find(name, self.loader)
                if found:
                    owner, kind, thing = found
                    if kind == "method":
                        decs = thing.decorators
                        if "property" in decs or "cached_property" in decs:
                            val = self.call_func(thing, [v], {})
                            if "cached_property" in decs:
                                v.fields[name] = val
                            return val
                        if "staticmethod" in decs:
                            return thing
                        if "classmethod" in decs:
                            return BoundMethod(cls, thing)
                        return BoundMethod(v, thing)
                    if kind == "val":
                        return self._bind_classattr(thing, v)
                    val = self.class_attr(owner, name)
                    return self._bind_classattr(val, v)
                ga = cls.find("__getattr__", self.loader)
                if ga and ga[1] == "method":
                    return self.call_func(ga[2], [v, name], {})
            if isinstance(cls, ExtClass) and name in ("args",):
                return ()
            if "__data__" in v.fields:
                from .builtins_ import method_of
                m = method_of(self, v, name)
                if m is not None:
                    return m
            self._attr_error(v, name)
        if isinstance(v, ClassInfo):
            if name == "__name__":
                return v.name
            if name == "__module__":
                return v.module.name
            if name == "__mro__":
                return tuple(self.mro(v))
            if name == "__bases__":
                return tuple(v.bases(self.loader))
            found = v.find(name, self.loader)
            if found and found[1] == "attr" and any(isinstance(b, ExtClass) and b.name in ("Enum", "IntEnum", "enum.Enum") for b in self.mro(v)):
                key = ("enum", v.qualname, name)
                if key not in self.singletons:
                    self.singletons[key] = self.alloc(v, {"name": name, "_name_": name, "value": name}, tag=f"{v.name}.{name}")
                return self.singletons[key]
            if found:
                owner, kind, thing = found
                if kind == "method":
                    if "classmethod" in thing.decorators:
                        return BoundMethod(v, thing)
                    return thing
                if kind == "val":
                    return thing
                return self.class_attr(owner, name)
            if v.metaclass is not None:
                mc = self.ev(v.metaclass, Frame(self, v.module))
                if isinstance(mc, ClassInfo):
                    f = mc.find(name, self.loader)
                    if f and f[1] == "method":
                        return BoundMethod(v, f[2])
                    if f and f[1] == "val":
                        return f[2]
                    if f and f[1] == "attr":
                        return self.class_attr(f[0], name)
            if name in ("__init__", "__new__", "__subclasses__", "__hash__", "__eq__"):
                return Builtin(f"{v.name}.{name}", lambda it, fr, a, k, _n=name, _c=v: it.default_method(_c, _n, a, k))
            self._attr_error(v, name)
        if isinstance(v, ExtClass):
            if name == "__name__":
                return v.name.split(".")[-1]
            if name == "__module__":
                return v.py.__module__ if v.py is not None else v.name.rsplit(".", 1)[0]
            return Builtin(f"{v.name}.{name}", lambda it, fr, a, k, _n=name, _c=v: it.default_method(_c, _n, a, k))
        if isinstance(v, ModuleVal):
            if v.module is not None:
                try:
                    return self.force(v.module.lookup(name, self.loader))
                except KeyError:
                    self._attr_error(v, name)
            key = f"{v.name}.{name}"
            if key in self.builtins:
                return self.builtins[key]
            return self.loader.external(v.name, name)
        if isinstance(v, Builtin) and name in ("__name__", "__qualname__"):
            return v.name.rsplit(".", 1)[-1]
        if isinstance(v, Builtin) and f"{v.name}.{name}" in self.builtins:
            return self.builtins[f"{v.name}.{name}"]          # e.g. itertools.chain.from_iterable
        if isinstance(v, Builtin) and v.name == "dict" and name == "fromkeys":
            def fromkeys(it, fr, a, k):
                d = PyDict()
                for x in it.to_list(a[0]):
                    if not ops.dict_has(d, x):
                        ops.dict_set(d, x, a[1] if len(a) > 1 else None)
                return d
            return Builtin("dict.fromkeys", fromkeys)
        if isinstance(v, BoundMethod) and name == "__self__":
            return v.selfv
        if isinstance(v, FuncVal):
            if name == "__name__":
                return getattr(v.node, "name", "<lambda>")
            if name == "__qualname__":
                return v.qualname
            if name == "__module__" and getattr(v, "module", None) is not None:
                return v.module.name
            self._attr_error(v, name)
        from .builtins_ import method_of
        m = method_of(self, v, name)
        if m is not None:
            return m
        if isinstance(v, STerm):
            hook = self.spec.opaque_hooks.get("sterm_getattr")
            if hook:
                return hook(self, v, name)
        if isinstance(v, Opaque) and hasattr(v, "m_getattr"):
            return v.m_getattr(self, name)
        if isinstance(v, Opaque) and name in ("__name__", "__qualname__") and str(getattr(v, "tag", "")).startswith("ext:"):
            return v.tag.rsplit(".", 1)[-1]      # a third-party / stdlib function knows its own name
        if isinstance(v, Opaque):
            hook = self.spec.opaque_hooks.get("getattr")
            if hook:
                return hook(self, v, name)
            raise Unsupported(f"attribute {name} of opaque {v!r}")
        self._attr_error(v, name)

    def _bind_classattr(self, val, obj):
        if isinstance(val, FuncVal) and val.owner is None:
            return BoundMethod(obj, val)
        if isinstance(val, Obj) and isinstance(val.cls, ClassInfo):
            g = val.cls.find("__get__", self.loader)
            if g and g[1] == "method":
                return self.call_func(g[2], [val, obj, obj.cls], {})
        return val

    def class_attr(self, cls, name):
        if name in cls.class_attr_vals:
            return cls.class_attr_vals[name]
        expr = cls.class_attrs[name]
        fr = Frame(self, cls.module)
        val = self.ev(expr, fr)
        cls.class_attr_vals[name] = val
        return val

    def setattr(self, v, name, val):
        if isinstance(v, Obj):
            cls = v.cls
            if isinstance(cls, ClassInfo):
                f = cls.find(name + "@setter", self.loader)
                if f and f[1] == "method":
                    self.call_func(f[2], [v, val], {})
                    return
                d = cls.find(name, self.loader)
                if d and d[1] in ("val", "attr"):
                    dv = d[2] if d[1] == "val" else self.class_attr(d[0], name)
                    if isinstance(dv, Obj) and isinstance(dv.cls, ClassInfo):
                        ds = dv.cls.find("__set__", self.loader)
                        if ds and ds[1] == "method":
                            self.call_func(ds[2], [dv, v, val], {})
                            return
            v.fields[name] = val
            self.ctx.effect("setattr", (v, name))
            return
        if isinstance(v, ClassInfo):
            v.class_attr_vals[name] = val
            self.ctx.effect("class_attr_write", (v.name, name))
            return
        if isinstance(v, Opaque) and hasattr(v, "m_setattr"):
            return v.m_setattr(self, name, val)
        if isinstance(v, Opaque):
            hook = self.spec.opaque_hooks.get("setattr")
            if hook:
                return hook(self, v, name, val)
        raise Unsupported(f"setattr on {v!r}")

    def hasattr(self, v, name):
        try:
            self._getattr(v, name)
            return True
        except PyRaise as e:
            if self.is_subclass(e.exc.cls, self.ext("AttributeError")):
                return False
            raise

    # ------------------------------------------------------------------ type tests
    def type_of(self, v):
        if isinstance(v, Obj):
            return v.cls
        tn = ops.type_name(v)
        if tn is not None:
            return self.ext(tn)
        hook = self.spec.opaque_hooks.get("type")
        if hook and isinstance(v, Opaque):
            return hook(self, v)
        raise Unsupported(f"type of {v!r}")

    TYPE_BUILTINS = {"int", "str", "bool", "float", "list", "tuple", "set", "dict", "type", "object", "frozenset", "bytes", "bytearray"}

    def norm_cls(self, c):
        if isinstance(c, Builtin) and c.name in self.TYPE_BUILTINS:
            return self.ext(c.name)
        return c

    STRUCTURAL_ABCS = {"Iterable": "__iter__", "Iterator": "__next__", "Hashable": "__hash__", "Sized": "__len__", "Container": "__contains__"}

    def isinstance(self, v, cls):
        cls = self.norm_cls(cls)
        if isinstance(cls, tuple):
            r = False
            for c in cls:
                x = self.isinstance(v, c)
                if x is True:
                    return True
                if x is not False:
                    r = x if r is False else SBool(z3.Or(zbool(r), zbool(x)))
            return r
        if isinstance(cls, ExtClass) and cls.name.split(".")[-1] in self.STRUCTURAL_ABCS and cls.name.split(".")[0] in ("collections", "typing", "typing_extensions", "Iterable", "Hashable", "Sized", "Container", "Iterator"):
            # the structural ABCs of collections.abc: an instance is whatever defines the method
            dunder = self.STRUCTURAL_ABCS[cls.name.split(".")[-1]]
            if isinstance(v, Obj) and isinstance(v.cls, ClassInfo):
                return bool(v.cls.find(dunder, self.loader)) or "__data__" in v.fields and dunder in ("__iter__", "__len__", "__contains__")
            if isinstance(v, (PyList, PySet, PyDict, tuple, str, SStr)):
                return dunder in ("__iter__", "__len__", "__contains__") or (dunder == "__hash__" and isinstance(v, (tuple, str, SStr)))
            if isinstance(v, (GenObj, SymStream)):
                return dunder in ("__iter__", "__next__")
            if ops.is_concrete_scalar(v) or isinstance(v, SV):
                return dunder == "__hash__"
        if isinstance(v, Obj):
            if isinstance(cls, (ClassInfo, ExtClass)):
                return self.is_subclass(v.cls, cls)
            raise Unsupported(f"isinstance(.., {cls!r})")
        if isinstance(v, Opaque) and hasattr(v, "m_isinstance"):
            return v.m_isinstance(self, cls)
        if isinstance(v, Opaque):
            hook = self.spec.opaque_hooks.get("isinstance")
            if hook:
                return hook(self, v, cls)
            raise Unsupported(f"isinstance of opaque {v!r}")
        if isinstance(v, Havoc):
            raise Unsupported("isinstance of havoc'd value")
        if isinstance(v, STerm):
            hook = self.spec.opaque_hooks.get("sterm_isinstance")
            return hook(self, v, cls) if hook else False
        if isinstance(v, SymStream):
            kind = v.meta.get("kind", "generator")
            return isinstance(cls, ExtClass) and cls.name.split(".")[-1] in ({"list", "object", "Iterable", "Sequence"} if kind == "list" else {"generator", "object", "Iterable", "Iterator"})
        if isinstance(cls, ClassInfo):
            if isinstance(v, ClassInfo) and cls.name.endswith("Meta"):
                return True
            return False
        if isinstance(cls, ExtClass):
            nm = cls.name.split(".")[-1]
            if isinstance(v, (ClassInfo, ExtClass)):
                return nm in ("type", "object")
            r = ops.builtin_isinstance(v, nm)
            if r is None:
                raise Unsupported(f"isinstance({v!r}, {nm})")
            return r
        if isinstance(cls, Opaque):
            return False if not isinstance(v, Opaque) else self._unsupported(f"isinstance vs {cls!r}")
        raise Unsupported(f"isinstance({v!r}, {cls!r})")

    def _unsupported(self, msg):
        raise Unsupported(msg)

    # ------------------------------------------------------------------ comparison / arithmetic
    def same(self, a, b):
        """`a is b`"""
        a = self.norm_cls(a)
        b = self.norm_cls(b)
        if isinstance(a, Obj) and isinstance(b, Obj) and a is not b and "__ident__" in a.fields and "__ident__" in b.fields \
                and a.fields["__ident__"].sort() == b.fields["__ident__"].sort():
            return wrap_bool(a.fields["__ident__"] == b.fields["__ident__"])
        if isinstance(a, (Obj, Opaque, PyList, PyDict, PySet, GenObj, FuncVal, ClassInfo, SymStream)) or \
           isinstance(b, (Obj, Opaque, PyList, PyDict, PySet, GenObj, FuncVal, ClassInfo, SymStream)):
            return a is b
        if a is None or b is None:
            if isinstance(a, SV) or isinstance(b, SV):
                return False
            return a is b
        if isinstance(a, STerm) or isinstance(b, STerm):
            return self.equals(a, b)
        if isinstance(a, ExtClass) and isinstance(b, ExtClass):
            return a.name == b.name
        if isinstance(a, bool) or isinstance(b, bool) or isinstance(a, SBool) or isinstance(b, SBool):
            if isinstance(a, (bool, SBool)) and isinstance(b, (bool, SBool)):
                return wrap_bool(zbool(a) == zbool(b))
            return False
        if isinstance(a, Havoc) or isinstance(b, Havoc):
            raise Unsupported("identity test on havoc'd value")
        if isinstance(a, BoundMethod) and isinstance(b, BoundMethod):
            return a.selfv is b.selfv and a.func is b.func
        return self.equals(a, b)

    def equals(self, a, b):
        if isinstance(a, Havoc) or isinstance(b, Havoc):
            raise Unsupported("comparison with havoc'd value")
        if isinstance(a, Obj) and isinstance(a.cls, ClassInfo):
            f = a.cls.find("__eq__", self.loader)
            if f and f[1] == "method":
                return self.call_func(f[2], [a, b], {})
            if a.cls.is_dataclass(self.loader) and self._dataclass_eq_enabled(a.cls):
                if not (isinstance(b, Obj) and b.cls is a.cls):
                    return False
                res = True
                for fi in a.cls.dataclass_fields(self.loader):
                    r = self.equals(a.fields.get(fi.name), b.fields.get(fi.name))
                    if r is False:
                        return False
                    if r is not True:
                        res = r if res is True else SBool(z3.And(zbool(res), zbool(r)))
                return res
            return a is b
        if isinstance(b, Obj) and isinstance(b.cls, ClassInfo) and not isinstance(a, Obj):
            f = b.cls.find("__eq__", self.loader)
            if f and f[1] == "method":
                return self.call_func(f[2], [b, a], {})
            return False
        if isinstance(a, Opaque) and hasattr(a, "m_eq"):
            return a.m_eq(self, b)
        if isinstance(b, Opaque) and hasattr(b, "m_eq"):
            return b.m_eq(self, a)
        if isinstance(a, (Obj, Opaque)) or isinstance(b, (Obj, Opaque)):
            if isinstance(a, Opaque) or isinstance(b, Opaque):
                hook = self.spec.opaque_hooks.get("eq")
                if hook:
                    return hook(self, a, b)
            return a is b
        if isinstance(a, STerm) or isinstance(b, STerm):
            if isinstance(a, STerm) and isinstance(b, STerm) and a.t.sort() == b.t.sort():
                return wrap_bool(a.t == b.t)
            return False
        if isinstance(a, (SInt, SBool)) or isinstance(b, (SInt, SBool)):
            if isinstance(a, (int, bool, SInt, SBool)) and isinstance(b, (int, bool, SInt, SBool)):
                return wrap_bool(zint(a) == zint(b))
            return False
        if isinstance(a, SStr) or isinstance(b, SStr):
            if isinstance(a, (str, SStr)) and isinstance(b, (str, SStr)):
                return wrap_bool(zstr(a) == zstr(b))
            return False
        if isinstance(a, PyList) and isinstance(b, PyList):
            return self._seq_eq(a.items, b.items)
        if isinstance(a, tuple) and isinstance(b, tuple):
            return self._seq_eq(a, b)
        if isinstance(a, PyDict) and isinstance(b, PyDict):
            if set(a.keys) != set(b.keys):
                return False
            return self._seq_eq([a.vals[k] for k in a.keys], [b.vals[k] for k in a.keys])
        if isinstance(a, PySet) and isinstance(b, PySet):
            ka = {key_of(x) for x in a.items}
            kb = {key_of(x) for x in b.items}
            return ka == kb
        if isinstance(a, (ClassInfo, ExtClass, FuncVal, Builtin, ModuleVal, GenObj, BoundMethod)) or \
           isinstance(b, (ClassInfo, ExtClass, FuncVal, Builtin, ModuleVal, GenObj, BoundMethod)):
            return self.same(a, b)
        if ops.is_concrete_scalar(a) and ops.is_concrete_scalar(b):
            return a == b
        if type(a) is not type(b):
            return False
        raise Unsupported(f"== between {a!r} and {b!r}")

    def _dataclass_eq_enabled(self, cls):
        for c in cls.mro(self.loader):
            if isinstance(c, ClassInfo) and c.is_dataclass_decl:
                return c.dataclass_params().get("eq", True)
        return True

    def _seq_eq(self, xs, ys):
        if len(xs) != len(ys):
            return False
        res = True
        for x, y in zip(xs, ys):
            r = self.equals(x, y)
            if r is False:
                return False
            if r is not True:
                res = r if res is True else SBool(z3.And(zbool(res), zbool(r)))
        return res

    def negate(self, r):
        if isinstance(r, SBool):
            return wrap_bool(z3.Not(r.t))
        return not self.truth(r)

    def compare(self, op, a, b):
        if isinstance(op, ast.Eq):
            return self.equals(a, b)
        if isinstance(op, ast.NotEq):
            if isinstance(a, Obj) and isinstance(a.cls, ClassInfo):
                f = a.cls.find("__ne__", self.loader)
                if f and f[1] == "method":
                    return self.call_func(f[2], [a, b], {})
            return self.negate(self.equals(a, b))
        if isinstance(op, ast.Is):
            return self.same(a, b)
        if isinstance(op, ast.IsNot):
            return self.negate(self.same(a, b))
        if isinstance(op, ast.In):
            return self.contains(b, a)
        if isinstance(op, ast.NotIn):
            return self.negate(self.contains(b, a))
        dunder = {ast.Lt: "__lt__", ast.LtE: "__le__", ast.Gt: "__gt__", ast.GtE: "__ge__"}[type(op)]
        if isinstance(a, Obj) and isinstance(a.cls, ClassInfo):
            f = a.cls.find(dunder, self.loader)
            if f and f[1] == "method":
                return self.call_func(f[2], [a, b], {})
        if isinstance(a, Opaque) or isinstance(b, Opaque):
            hook = self.spec.opaque_hooks.get("order")
            if hook:
                return hook(self, dunder, a, b)
        if isinstance(a, (int, bool, SInt, SBool)) and isinstance(b, (int, bool, SInt, SBool)):
            x, y = zint(a), zint(b)
            t = {ast.Lt: x < y, ast.LtE: x <= y, ast.Gt: x > y, ast.GtE: x >= y}[type(op)]
            return wrap_bool(t)
        if isinstance(a, PySet) and isinstance(b, PySet):
            ka, kb = {key_of(x) for x in a.items}, {key_of(x) for x in b.items}
            return {ast.Lt: ka < kb, ast.LtE: ka <= kb, ast.Gt: ka > kb, ast.GtE: ka >= kb}[type(op)]
        if ops.is_concrete_scalar(a) and ops.is_concrete_scalar(b):
            try:
                return {ast.Lt: a < b, ast.LtE: a <= b, ast.Gt: a > b, ast.GtE: a >= b}[type(op)]
            except TypeError:
                self.raise_("TypeError", "unorderable")
        raise Unsupported(f"ordering between {a!r} and {b!r}")

    def contains(self, container, item):
        if isinstance(container, PyDict):
            return ops.dict_has(container, item)
        if isinstance(container, PySet):
            return ops.set_has(container, item)
        if isinstance(container, (PyList, tuple)):
            items = container.items if isinstance(container, PyList) else container
            res = False
            for x in items:
                r = x is item or self.equals(x, item)
                if r is True:
                    return True
                if r is not False:
                    res = r if res is False else SBool(z3.Or(zbool(res), zbool(r)))
            return res
        if isinstance(container, GenObj):
            for x in self.iterate(container):
                r = x is item or self.equals(x, item)
                if self.truth(r):
                    return True
            return False
        if isinstance(container, (str, SStr)) and isinstance(item, (str, SStr)):
            return wrap_bool(z3.Contains(zstr(container), zstr(item)))
        if isinstance(container, Obj) and isinstance(container.cls, ClassInfo):
            f = container.cls.find("__contains__", self.loader)
            if f and f[1] == "method":
                return self.call_func(f[2], [container, item], {})
            if "__data__" in container.fields:
                return self.contains(container.fields["__data__"], item)
        if isinstance(container, Opaque) and hasattr(container, "m_contains"):
            return container.m_contains(self, item)
        if isinstance(container, Opaque):
            hook = self.spec.opaque_hooks.get("contains")
            if hook:
                return hook(self, container, item)
        raise Unsupported(f"`in` on {container!r}")

    def binop(self, op, a, b):
        if isinstance(a, Havoc) or isinstance(b, Havoc):
            raise Unsupported("arithmetic on havoc'd value")
        dunders = {ast.Add: "__add__", ast.Sub: "__sub__", ast.BitOr: "__or__", ast.BitAnd: "__and__",
                   ast.Mult: "__mul__"}
        if isinstance(a, Obj) and isinstance(a.cls, ClassInfo) and type(op) in dunders:
            f = a.cls.find(dunders[type(op)], self.loader)
            if f and f[1] == "method":
                return self.call_func(f[2], [a, b], {})
        num = (int, bool, SInt, SBool)
        if isinstance(a, num) and isinstance(b, num):
            if not isinstance(a, SV) and not isinstance(b, SV):
                return self._concrete_binop(op, a, b)
            x, y = zint(a), zint(b)
            if isinstance(op, ast.Add):
                return wrap_int(x + y)
            if isinstance(op, ast.Sub):
                return wrap_int(x - y)
            if isinstance(op, ast.Mult):
                return wrap_int(x * y)
            raise Unsupported(f"symbolic {type(op).__name__}")
        if isinstance(a, (str, SStr)) and isinstance(b, (str, SStr)) and isinstance(op, ast.Add):
            if isinstance(a, str) and isinstance(b, str):
                return a + b
            return wrap_str(z3.Concat(zstr(a), zstr(b)))
        if isinstance(a, (str, SStr)) and isinstance(op, ast.Mod):
            return SStr(self.ctx.fresh_str("fmt"))
        if isinstance(a, PyList) and isinstance(b, PyList) and isinstance(op, ast.Add):
            return PyList(a.items + b.items)
        if isinstance(a, tuple) and isinstance(b, tuple) and isinstance(op, ast.Add):
            return a + b
        if isinstance(a, PySet) and isinstance(b, PySet):
            if isinstance(op, ast.BitOr):
                s = PySet(a.items)
                for x in b.items:
                    ops.set_add(s, x)
                return s
            if isinstance(op, ast.BitAnd):
                return PySet([x for x in a.items if ops.set_has(b, x)])
            if isinstance(op, ast.Sub):
                return PySet([x for x in a.items if not ops.set_has(b, x)])
        if ops.is_concrete_scalar(a) and ops.is_concrete_scalar(b):
            return self._concrete_binop(op, a, b)
        if isinstance(a, Opaque) or isinstance(b, Opaque):
            hook = self.spec.opaque_hooks.get("binop")
            if hook:
                return hook(self, op, a, b)
        raise Unsupported(f"binop {type(op).__name__} on {a!r}, {b!r}")

    def _concrete_binop(self, op, a, b):
        import operator as o
        table = {ast.Add: o.add, ast.Sub: o.sub, ast.Mult: o.mul, ast.FloorDiv: o.floordiv, ast.Mod: o.mod,
                 ast.Div: o.truediv, ast.Pow: o.pow, ast.BitOr: o.or_, ast.BitAnd: o.and_, ast.BitXor: o.xor,
                 ast.LShift: o.lshift, ast.RShift: o.rshift}
        try:
            return table[type(op)](a, b)
        except ZeroDivisionError:
            self.raise_("ZeroDivisionError")
        except TypeError as e:
            self.raise_("TypeError", str(e))
