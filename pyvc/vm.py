"""Statements, assignment, the loop rule for unbounded streams."""
from __future__ import annotations
import ast
import z3

from .values import (SV, SInt, SBool, SStr, Obj, PyList, PySet, PyDict, ExtClass, FuncVal, BoundMethod,
                     Builtin, GenObj, Opaque, Havoc, ModuleVal, SymStream)
from .ctx import Unsupported, PathEnd
from .repo import ClassInfo, decorator_names
from . import ops
from .interp import Frame, PyRaise, INLINE, LoopSpec, is_generator_node
from .machine import Machine, MUTATORS


class VM(Machine):
    def ev_Attribute(self, n, fr):
        v = self.ev(n.value, fr)
        if isinstance(v, tuple) and len(v) == 3 and v[0] == "super":
            return self.super_getattr(v, n.attr)
        return self._getattr(v, n.attr)

    # ================================================================== assignment
    def assign(self, target, val, fr):
        if isinstance(target, ast.Name):
            f = fr
            if target.id in fr.nonlocals:
                f = fr.parent
                while f is not None and target.id not in f.locals:
                    f = f.parent
                if f is None:
                    raise Unsupported(f"nonlocal {target.id}")
            elif target.id in fr.globals_decl:
                fr.module.values[target.id] = val
                return
            f.locals[target.id] = val
        elif isinstance(target, ast.Attribute):
            self.setattr(self.ev(target.value, fr), target.attr, val)
        elif isinstance(target, ast.Subscript):
            self.setitem(self.ev(target.value, fr), self.ev(target.slice, fr), val)
        elif isinstance(target, (ast.Tuple, ast.List)):
            if isinstance(val, SymStream):
                raise Unsupported("unpacking an unbounded stream")
            items = self.to_list(val) if not isinstance(val, (int, bool, SInt, SBool, type(None))) else self.raise_("TypeError", "cannot unpack non-iterable")
            star = [i for i, e in enumerate(target.elts) if isinstance(e, ast.Starred)]
            if star:
                i = star[0]
                after = len(target.elts) - i - 1
                if len(items) < len(target.elts) - 1:
                    self.raise_("ValueError", "not enough values to unpack")
                for e, x in zip(target.elts[:i], items[:i]):
                    self.assign(e, x, fr)
                self.assign(target.elts[i].value, PyList(items[i:len(items) - after]), fr)
                for e, x in zip(target.elts[i + 1:], items[len(items) - after:]):
                    self.assign(e, x, fr)
                return
            if len(items) != len(target.elts):
                self.raise_("ValueError", f"{'too many' if len(items) > len(target.elts) else 'not enough'} values to unpack (expected {len(target.elts)})")
            for e, x in zip(target.elts, items):
                self.assign(e, x, fr)
        else:
            raise Unsupported(f"assignment target {type(target).__name__}")

    # ================================================================== statements (generators)
    def exec_block(self, stmts, fr):
        for st in stmts:
            sig = yield from self.exec_stmt(st, fr)
            if sig is not None:
                return sig
        return None

    def exec_stmt(self, st, fr):
        m = getattr(self, "st_" + type(st).__name__, None)
        if m is None:
            raise Unsupported(f"statement {type(st).__name__} at line {st.lineno}")
        return (yield from m(st, fr))

    def st_Expr(self, st, fr):
        v = st.value
        if isinstance(v, ast.Yield):
            val = self.ev(v.value, fr) if v.value is not None else None
            yield val
            return None
        if isinstance(v, ast.YieldFrom):
            yield from self.yield_from(self.ev(v.value, fr), fr, st)
            return None
        if isinstance(v, ast.Constant):
            return None
        self.ev(v, fr)
        return None
        yield  # pragma: no cover

    def yield_from(self, src, fr, st):
        def body(elem):
            yield elem
            return None
        return (yield from self.foreach(src, fr, body, ("yield_from", st.lineno), body_nodes=[]))

    def st_Assign(self, st, fr):
        if isinstance(st.value, ast.Yield):
            raise Unsupported("x = yield")
        val = self.ev(st.value, fr)
        for t in st.targets:
            self.assign(t, val, fr)
        return None
        yield

    def st_AnnAssign(self, st, fr):
        if st.value is not None:
            self.assign(st.target, self.ev(st.value, fr), fr)
        return None
        yield

    def st_AugAssign(self, st, fr):
        t = st.target
        if isinstance(t, ast.Name):
            cur = self.ev(ast.Name(id=t.id, ctx=ast.Load(), lineno=st.lineno, col_offset=0), fr)
            new = self.aug(st.op, cur, self.ev(st.value, fr))
            self.assign(t, new, fr)
        elif isinstance(t, ast.Attribute):
            o = self.ev(t.value, fr)
            cur = self._getattr(o, t.attr)
            new = self.aug(st.op, cur, self.ev(st.value, fr))
            self.setattr(o, t.attr, new)
        elif isinstance(t, ast.Subscript):
            o = self.ev(t.value, fr)
            k = self.ev(t.slice, fr)
            new = self.aug(st.op, self.getitem(o, k), self.ev(st.value, fr))
            self.setitem(o, k, new)
        else:
            raise Unsupported("augmented assignment target")
        return None
        yield

    def aug(self, op, cur, val):
        if isinstance(cur, PyList) and isinstance(op, ast.Add):
            self.ctx.effect("mutate", (cur, "__iadd__"))
            cur.items.extend(self.to_list(val))
            return cur
        if isinstance(cur, PySet) and isinstance(op, ast.BitOr):
            self.ctx.effect("mutate", (cur, "__ior__"))
            for x in self.to_list(val):
                ops.set_add(cur, x)
            return cur
        if isinstance(cur, Obj) and isinstance(cur.cls, ClassInfo):
            name = {ast.Add: "__iadd__", ast.BitOr: "__ior__", ast.Sub: "__isub__", ast.BitAnd: "__iand__"}.get(type(op))
            if name:
                f = cur.cls.find(name, self.loader)
                if f and f[1] == "method":
                    return self.call_func(f[2], [cur, val], {})
                if "__data__" in cur.fields and name in ("__iadd__", "__ior__"):
                    self.aug(op, cur.fields["__data__"], val)     # inherited list.__iadd__ / set.__ior__
                    return cur
                hook = self.spec.opaque_hooks.get("inplace")
                if hook:
                    r = hook(self, name, cur, val)
                    if r is not INLINE:
                        return r
        return self.binop(op, cur, val)

    def st_Pass(self, st, fr):
        return None
        yield

    def st_Return(self, st, fr):
        return ("return", self.ev(st.value, fr) if st.value is not None else None)
        yield

    def st_Break(self, st, fr):
        return ("break",)
        yield

    def st_Continue(self, st, fr):
        return ("continue",)
        yield

    def st_Global(self, st, fr):
        fr.globals_decl.update(st.names)
        return None
        yield

    def st_Nonlocal(self, st, fr):
        fr.nonlocals.update(st.names)
        return None
        yield

    def st_Import(self, st, fr):
        for a in st.names:
            nm = a.asname or a.name.split(".")[0]
            fr.locals[nm] = ModuleVal(a.name if a.asname else a.name.split(".")[0], self.loader.module(a.name, must=False))
        return None
        yield

    def st_ImportFrom(self, st, fr):
        mod = fr.module._resolve_relative(st.module, st.level)
        m = self.loader.module(mod, must=False)
        for a in st.names:
            if m is not None:
                fr.locals[a.asname or a.name] = self.force(m.lookup(a.name, self.loader))
            else:
                fr.locals[a.asname or a.name] = self.loader.external(mod, a.name)
        return None
        yield

    def st_FunctionDef(self, st, fr):
        fv = FuncVal(st, fr.module, owner=None, closure=fr, decorators=decorator_names(st),
                     qualname=f"{fr.func.qualname if fr.func else ''}.<locals>.{st.name}")
        val = fv
        for d in reversed(st.decorator_list):
            dn = ast.unparse(d)
            if dn.startswith("wraps") or dn.startswith("functools.wraps") or dn in ("lru_cache", "functools.lru_cache", "cache"):
                continue
            val = self.call(self.ev(d, fr), [val], {})
        fr.locals[st.name] = val
        return None
        yield

    def st_Delete(self, st, fr):
        for t in st.targets:
            if isinstance(t, ast.Name):
                fr.locals.pop(t.id, None)
            elif isinstance(t, ast.Subscript):
                o = self.ev(t.value, fr)
                k = self.ev(t.slice, fr)
                if isinstance(o, PyDict):
                    if not ops.dict_has(o, k):
                        self.raise_("KeyError", k)
                    self.ctx.effect("mutate", (o, "__delitem__"))
                    ops.dict_del(o, k)
                elif isinstance(o, PyList):
                    self.ctx.effect("mutate", (o, "__delitem__"))
                    del o.items[k]
                elif isinstance(o, Opaque) and hasattr(o, "m_delitem"):
                    o.m_delitem(self, k)
                elif isinstance(o, Obj) and o.cls.find("__delitem__", self.loader):
                    self.call_func(o.cls.find("__delitem__", self.loader)[2], [o, k], {})
                else:
                    hook = self.spec.opaque_hooks.get("delitem")
                    if hook:
                        hook(self, o, k)
                    else:
                        raise Unsupported(f"del on {o!r}")
            elif isinstance(t, ast.Attribute):
                o = self.ev(t.value, fr)
                o.fields.pop(t.attr, None)
            else:
                raise Unsupported("del target")
        return None
        yield

    def st_Assert(self, st, fr):
        if not self.truth(self.ev(st.test, fr)):
            self.raise_("AssertionError")
        return None
        yield

    def st_If(self, st, fr):
        if self.truth(self.ev(st.test, fr)):
            return (yield from self.exec_block(st.body, fr))
        return (yield from self.exec_block(st.orelse, fr))

    def st_Raise(self, st, fr):
        if st.exc is None:
            if fr.exc_stack:
                raise PyRaise(fr.exc_stack[-1])
            self.raise_("RuntimeError", "No active exception to reraise")
        e = self.ev(st.exc, fr)
        if isinstance(e, (ClassInfo, ExtClass)):
            e = self.call(e, [], {})
        if not isinstance(e, Obj):
            raise Unsupported(f"raise of {e!r}")
        if st.cause is not None:
            e.fields["__cause__"] = self.ev(st.cause, fr)
        raise PyRaise(e)
        yield

    def st_Try(self, st, fr):
        if st.finalbody:
            try:
                sig = yield from self._try_core(st, fr)
            except PyRaise:
                fsig = yield from self.exec_block(st.finalbody, fr)
                if fsig is not None:
                    return fsig
                raise
            fsig = yield from self.exec_block(st.finalbody, fr)
            return fsig if fsig is not None else sig
        return (yield from self._try_core(st, fr))

    def _try_core(self, st, fr):
        try:
            sig = yield from self.exec_block(st.body, fr)
        except PyRaise as pr:
            for h in st.handlers:
                if h.type is None or self.exc_matches(pr.exc, self.ev(h.type, fr)):
                    if h.name:
                        fr.locals[h.name] = pr.exc
                    fr.exc_stack.append(pr.exc)
                    try:
                        return (yield from self.exec_block(h.body, fr))
                    finally:
                        fr.exc_stack.pop()
            raise
        if sig is None and st.orelse:
            sig = yield from self.exec_block(st.orelse, fr)
        return sig

    def st_With(self, st, fr):
        mgrs = []
        for item in st.items:
            m = self.ev(item.context_expr, fr)
            v = self.call_method(m, "__enter__")
            if item.optional_vars is not None:
                self.assign(item.optional_vars, v, fr)
            mgrs.append(m)
        try:
            sig = yield from self.exec_block(st.body, fr)
        except PyRaise as pr:
            for m in reversed(mgrs):
                self.call_method(m, "__exit__", pr.exc.cls, pr.exc, None)
            raise
        for m in reversed(mgrs):
            self.call_method(m, "__exit__", None, None, None)
        return sig

    def st_While(self, st, fr):
        n = 0
        while True:
            c = self.ev(st.test, fr)
            if isinstance(c, SV) or (isinstance(c, Opaque) and self.loop_spec(fr, st) is not None):
                spec = self.loop_spec(fr, st)
                if spec is None:
                    raise Unsupported(f"while loop with symbolic condition and no invariant (line {st.lineno})")
                return (yield from self.while_rule(st, fr, spec))
            if not self.truth(c):
                break
            n += 1
            if n > 10000:
                raise Unsupported("concrete while loop did not terminate in 10000 iterations")
            sig = yield from self.exec_block(st.body, fr)
            if sig is not None:
                if sig[0] == "break":
                    return None
                if sig[0] == "continue":
                    continue
                return sig
        if st.orelse:
            return (yield from self.exec_block(st.orelse, fr))
        return None

    def st_For(self, st, fr):
        it = self.ev(st.iter, fr)

        def body(elem):
            self.assign(st.target, elem, fr)
            return (yield from self.exec_block(st.body, fr))
        sig = yield from self.foreach(it, fr, body, st, body_nodes=st.body)
        if sig is not None:
            if sig[0] == "break":
                return None
            return sig
        if st.orelse:
            return (yield from self.exec_block(st.orelse, fr))
        return None

    # ================================================================== loops
    def loop_ordinal(self, fr, st):
        if fr.func is None:
            return None
        k = 0
        for n in ast.walk(fr.func.node):
            if isinstance(n, (ast.For, ast.While)):
                if n is st:
                    return k
                k += 1
        return None

    def loop_targets(self, fr, ordinal):
        """names bound by the target of the `ordinal`-th loop of the frame's function (so that sidecar invariants do not depend
        on what the repository calls its loop variables)"""
        k = 0
        for n in ast.walk(fr.func.node):
            if isinstance(n, (ast.For, ast.While)):
                if k == ordinal:
                    if isinstance(n, ast.While):
                        return []
                    return [x.id for x in ast.walk(n.target) if isinstance(x, ast.Name)]
                k += 1
        return []

    def loop_value(self, fr, ordinal, position=0):
        """current value of the position-th target name of that loop (None before the first iteration)"""
        names = self.loop_targets(fr, ordinal)
        if position >= len(names):
            return None
        return fr.locals.get(names[position])

    def loop_spec(self, fr, st):
        if not isinstance(st, ast.AST) or fr.func is None:
            return None
        k = self.loop_ordinal(fr, st)
        return self.spec.loops.get((fr.func.qualname, k))

    def foreach(self, it, fr, body, site, body_nodes):
        """Run body(elem) (a generator function returning a signal) for every element of `it`."""
        if isinstance(it, Obj) and isinstance(it.cls, ClassInfo) and not it.cls.find("__iter__", self.loader) \
                and "__data__" not in it.fields:
            hook = self.spec.opaque_hooks.get("obj_iter")
            if hook:
                it = hook(self, it)
        if isinstance(it, Opaque) and hasattr(it, "m_iter"):
            it = it.m_iter(self)
        if isinstance(it, SymStream):
            return (yield from self.stream_rule(it, fr, body, site, body_nodes))
        if isinstance(it, Opaque):
            hook = self.spec.opaque_hooks.get("iter_value")
            if hook:
                s = hook(self, it)
                if isinstance(s, SymStream):
                    return (yield from self.stream_rule(s, fr, body, site, body_nodes))
                it = s
        # a concrete iterable - or an interpreted generator that may itself splice an abstract stream in (`yield from stream`):
        # then the path is cut INSIDE the generator after one arbitrary element; this loop's invariant (if it has one) is
        # checked at that cut, so that the consumer's per-iteration obligations are not lost
        spec = self.loop_spec(fr, site) if isinstance(site, ast.AST) else None
        src = self.iterate(it)
        ran = 0
        while True:
            try:
                elem = next(src)
            except StopIteration:
                break
            except PathEnd:
                if spec is not None and spec.inv is not None and ran > 0:
                    name = f"{fr.func.qualname if fr.func else '?'}::loop{self.loop_ordinal(fr, site)}"
                    self.ctx.check(f"{name}::inv-preserved", spec.inv(self, fr))
                raise
            if isinstance(elem, tuple) and len(elem) == 2 and elem[0] == "__substream__":
                # an element-producing generator handed us an abstract stream to splice in
                sig = yield from self.stream_rule(elem[1], fr, body, site, body_nodes)
            else:
                sig = yield from body(elem)
            ran += 1
            if sig is not None:
                if sig[0] == "continue":
                    continue
                return sig
        return None

    def stream_rule(self, s, fr, body, site, body_nodes):
        ctx = self.ctx
        spec = self.loop_spec(fr, site) if isinstance(site, ast.AST) else None
        name = f"{fr.func.qualname if fr.func else '?'}::loop{self.loop_ordinal(fr, site) if isinstance(site, ast.AST) else site}"
        if spec is None and isinstance(site, ast.AST):
            # invariants may be attached to WHAT is iterated instead of WHERE (robust against moving a loop into a helper)
            best = None
            for prefix, sp in getattr(self.spec, "stream_loops", {}).items():
                if s.name.startswith(prefix) and (best is None or len(prefix) > len(best[0])):
                    best = (prefix, sp)
            if best is not None:
                spec = best[1]
                name = f"loop-over-{best[0]}"
        if spec is not None and spec.inv is not None:
            ctx.check(f"{name}::inv-entry", spec.inv(self, fr))
        mode = ctx.choice(2, name)
        self.havoc(fr, body_nodes, spec, name)
        consumed_key = ("consumed", s.name)
        consumed = ctx.ghost.get(consumed_key)
        if consumed is None or True:
            consumed = ctx.fresh_int(f"k_{s.name}")
            ctx.assume(consumed >= 0)
        ctx.ghost[consumed_key] = consumed
        if s.length is not None:
            ctx.assume(s.length >= 0)
            ctx.assume(consumed <= s.length)
        if spec is not None and spec.inv is not None:
            ctx.assume(spec.inv(self, fr))
        if mode == 0:
            # an arbitrary iteration
            if s.length is not None:
                ctx.assume(consumed < s.length)
            elem = s.elem(self, consumed)
            ctx.ghost[consumed_key] = z3.simplify(consumed + 1)
            ctx.notes.append(("iter", name, s.name))
            sig = yield from body(elem)
            if sig is None or sig[0] == "continue":
                if spec is not None and spec.inv is not None:
                    ctx.check(f"{name}::inv-preserved", spec.inv(self, fr))
                raise PathEnd()
            ctx.notes.append(("early-exit", name, sig[0]))
            return sig
        # exit: the stream is exhausted
        if s.length is not None:
            ctx.assume(consumed == s.length)
        if s.on_exhaust is not None:
            s.on_exhaust(self)
        ctx.notes.append(("exhausted", name, s.name))
        return None

    def while_rule(self, st, fr, spec):
        ctx = self.ctx
        name = f"{fr.func.qualname}::loop{self.loop_ordinal(fr, st)}"
        ctx.check(f"{name}::inv-entry", spec.inv(self, fr))
        mode = ctx.choice(2, name)
        self.havoc(fr, st.body, spec, name)
        ctx.assume(spec.inv(self, fr))
        c = self.truth(self.ev(st.test, fr))
        if mode == 0:
            if not c:
                raise PathEnd()
            sig = yield from self.exec_block(st.body, fr)
            if sig is None or sig[0] == "continue":
                ctx.check(f"{name}::inv-preserved", spec.inv(self, fr))
                raise PathEnd()
            if sig[0] == "break":
                return None
            return sig
        if c:
            raise PathEnd()
        if st.orelse:
            return (yield from self.exec_block(st.orelse, fr))
        return None

    # ---- havoc
    def modified_by(self, nodes, fr, seen=None, depth=0):
        """(local names, attribute names, mutated container roots) possibly written by `nodes`,
        following calls to repository functions by name (over-approximation)."""
        names, attrs, conts = set(), set(), set()
        seen = seen if seen is not None else set()
        for root in nodes:
            for n in ast.walk(root):
                if isinstance(n, ast.Name) and isinstance(n.ctx, (ast.Store, ast.Del)) and depth == 0:
                    names.add(n.id)
                elif isinstance(n, ast.Attribute) and isinstance(n.ctx, (ast.Store, ast.Del)):
                    attrs.add(n.attr)
                elif isinstance(n, ast.Subscript) and isinstance(n.ctx, (ast.Store, ast.Del)):
                    conts.add(ast.unparse(n.value))
                elif isinstance(n, ast.AugAssign):
                    if isinstance(n.target, ast.Name) and depth == 0:
                        names.add(n.target.id)
                    elif isinstance(n.target, ast.Attribute):
                        attrs.add(n.target.attr)
                elif isinstance(n, ast.Call):
                    f = n.func
                    callee = None
                    if isinstance(f, ast.Attribute):
                        if f.attr in MUTATORS:
                            conts.add(ast.unparse(f.value))
                        callee = f.attr
                    elif isinstance(f, ast.Name):
                        callee = f.id
                    if callee and callee not in seen and depth < 6:
                        seen.add(callee)
                        for fv in self.functions_named(callee):
                            _, a2, c2 = self.modified_by(fv.node.body if not isinstance(fv.node, ast.Lambda) else [fv.node.body], fr, seen, depth + 1)
                            attrs |= a2
                            conts |= {c for c in c2 if c.startswith("self.")}
        return names, attrs, conts

    def functions_named(self, name):
        out = []
        for m in list(self.loader.modules.values()):
            if m is None:
                continue
            if name in m.functions:
                out.append(m.functions[name])
            for c in m.classes.values():
                if name in c.methods:
                    out.append(c.methods[name])
        return out

    def havoc_value(self, old, what):
        ctx = self.ctx
        if isinstance(old, (bool, SBool)):
            return SBool(ctx.fresh_bool(f"hv_{what}"))
        if isinstance(old, (int, SInt)):
            return SInt(ctx.fresh_int(f"hv_{what}"))
        hook = self.spec.opaque_hooks.get("havoc_container")
        if hook and isinstance(old, (PyList, PySet, PyDict, Opaque)):
            return hook(self, old, what)
        hook = self.spec.opaque_hooks.get("havoc_value")
        if hook:
            r = hook(self, old, what)
            if r is not None:
                return r
        return Havoc(what)

    def havoc(self, fr, body_nodes, spec, name):
        ctx = self.ctx
        names, attrs, conts = self.modified_by(body_nodes, fr)
        if spec is not None and spec.modifies is not None:
            names, attrs, conts = spec.modifies(self, fr, names, attrs, conts)
        attrs = set(attrs) - set(getattr(self.spec, "havoc_exclude", ()))
        for nm in sorted(names):
            f = fr
            while f is not None and nm not in f.locals:
                f = f.parent
            if f is not None:
                f.locals[nm] = self.havoc_value(f.locals[nm], nm)
        for o in self.heap:
            for a in sorted(attrs):
                if a in o.fields:
                    o.fields[a] = self.havoc_value(o.fields[a], a)
        for c in sorted(conts):
            self.havoc_container(c, fr)
        for k in list(ctx.ghost):
            if isinstance(k, str):
                ctx.ghost[k] = ctx.fresh_int(f"g_{k}")
        ctx.notes.append(("havoc", name, sorted(names), sorted(attrs), sorted(conts)))

    def havoc_container(self, expr, fr):
        try:
            node = ast.parse(expr, mode="eval").body
        except SyntaxError:
            return
        if isinstance(node, ast.Name):
            f = fr
            while f is not None and node.id not in f.locals:
                f = f.parent
            if f is not None:
                hook = self.spec.opaque_hooks.get("havoc_container")
                f.locals[node.id] = hook(self, f.locals[node.id], node.id) if hook else Havoc(node.id)
        elif isinstance(node, ast.Attribute):
            for o in self.heap:
                if node.attr in o.fields:
                    hook = self.spec.opaque_hooks.get("havoc_container")
                    o.fields[node.attr] = hook(self, o.fields[node.attr], node.attr) if hook else Havoc(node.attr)
