"""Primitive operations on values: truthiness, comparison, arithmetic, containers."""
from __future__ import annotations
import z3

from .values import (SV, SInt, SBool, SStr, Obj, PyList, PySet, PyDict, ExtClass, FuncVal, BoundMethod,
                     Builtin, GenObj, Opaque, Havoc, ModuleVal, SymStream)
from .ctx import Unsupported
from .repo import ClassInfo


def is_concrete_scalar(v):
    return v is None or isinstance(v, (bool, int, float, str, bytes))


def zint(v):
    if isinstance(v, bool):
        return z3.IntVal(1 if v else 0)
    if isinstance(v, int):
        return z3.IntVal(v)
    if isinstance(v, SInt):
        return v.t
    if isinstance(v, SBool):
        return z3.If(v.t, z3.IntVal(1), z3.IntVal(0))
    raise Unsupported(f"not an int: {v!r}")


def zbool(v):
    if isinstance(v, bool):
        return z3.BoolVal(v)
    if isinstance(v, SBool):
        return v.t
    raise Unsupported(f"not a bool: {v!r}")


def zstr(v):
    if isinstance(v, str):
        return z3.StringVal(v)
    if isinstance(v, SStr):
        return v.t
    raise Unsupported(f"not a str: {v!r}")


def wrap_bool(t):
    t = z3.simplify(t)
    if z3.is_true(t):
        return True
    if z3.is_false(t):
        return False
    return SBool(t)


def wrap_int(t):
    t = z3.simplify(t)
    if z3.is_int_value(t):
        return t.as_long()
    return SInt(t)


def wrap_str(t):
    t = z3.simplify(t)
    if z3.is_string_value(t):
        return t.as_string()
    return SStr(t)


def key_of(v):
    """Dictionary / set key of a value (Python hashing + equality, for the supported kinds)."""
    if isinstance(v, Havoc):
        raise Unsupported(f"use of havoc'd value {v!r} as key")
    if is_concrete_scalar(v):
        return ("c", v)
    if isinstance(v, tuple):
        return ("t",) + tuple(key_of(x) for x in v)
    if isinstance(v, (Obj, Opaque)):
        return ("o", v.oid)
    if isinstance(v, (ClassInfo, ExtClass)):
        return ("k", v.name)
    if isinstance(v, FuncVal):
        return ("f", id(v.node))
    if isinstance(v, Builtin):
        if v.name in ("int", "str", "bool", "float", "list", "tuple", "set", "dict", "type", "object", "frozenset", "bytes"):
            return ("k", v.name)
        return ("b", v.name)
    if isinstance(v, SV):
        t = z3.simplify(v.t)
        if z3.is_int_value(t):
            return ("c", t.as_long())
        if z3.is_string_value(t):
            return ("c", t.as_string())
        raise Unsupported(f"symbolic dictionary key {v!r}")
    raise Unsupported(f"unhashable / unsupported key {v!r}")


def dict_get(d: PyDict, k, default=None):
    kk = key_of(k)
    return d.vals.get(kk, default)


def dict_has(d: PyDict, k):
    return key_of(k) in d.vals


def dict_set(d: PyDict, k, v):
    kk = key_of(k)
    if kk not in d.keys:
        d.keys[kk] = k
    d.vals[kk] = v


def dict_del(d: PyDict, k):
    kk = key_of(k)
    del d.keys[kk]
    del d.vals[kk]


def dict_items(d: PyDict):
    return [(d.keys[k], d.vals[k]) for k in list(d.keys)]


def dict_copy(d: PyDict):
    n = PyDict()
    n.keys = dict(d.keys)
    n.vals = dict(d.vals)
    return n


def make_dict(pairs):
    d = PyDict()
    for k, v in pairs:
        dict_set(d, k, v)
    return d


def set_has(s: PySet, v):
    if not s.items:
        return False
    kv = key_of(v)
    return any(key_of(x) == kv for x in s.items)


def set_add(s: PySet, v):
    if not set_has(s, v):
        s.items.append(v)


def type_name(v):
    if v is None:
        return "NoneType"
    if isinstance(v, (bool, SBool)):
        return "bool"
    if isinstance(v, (int, SInt)):
        return "int"
    if isinstance(v, float):
        return "float"
    if isinstance(v, (str, SStr)):
        return "str"
    if isinstance(v, tuple):
        return "tuple"
    if isinstance(v, PyList):
        return "list"
    if isinstance(v, PyDict):
        return "dict"
    if isinstance(v, PySet):
        return "set"
    if isinstance(v, (FuncVal, Builtin, BoundMethod)):
        return "function"
    if isinstance(v, GenObj):
        return "generator"
    if isinstance(v, (ClassInfo, ExtClass)):
        return "type"
    if isinstance(v, ModuleVal):
        return "module"
    return None


# builtin type lattice used by isinstance on non-Obj values
_BUILTIN_SUPERS = {
    "bytes": {"bytes", "object"},
    "bool": {"bool", "int", "object"},
    "int": {"int", "object"},
    "float": {"float", "object"},
    "str": {"str", "object"},
    "NoneType": {"NoneType", "object"},
    "tuple": {"tuple", "object", "Sequence", "Iterable"},
    "list": {"list", "object", "Sequence", "Iterable"},
    "dict": {"dict", "object", "Iterable", "Mapping"},
    "set": {"set", "object", "Iterable"},
    "function": {"function", "object", "Callable"},
    "generator": {"generator", "object", "Iterable", "Iterator"},
    "type": {"type", "object"},
    "module": {"module", "object"},
}


def builtin_isinstance(v, clsname):
    tn = type_name(v)
    if tn is None:
        return None
    return clsname in _BUILTIN_SUPERS.get(tn, {tn, "object"})
