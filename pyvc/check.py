"""bin/check <ID> [--tier quick|thorough] — run the deductive obligations and the bounded stand-in of one property,
compare with lock and known findings, replay counterexamples natively, write evidence, set the exit code.

Exit codes: 0 held (known findings listed) / 1 violation / 3 engine error.  Undecided obligations never raise an alarm;
they are reported in the evidence and the bounded stand-in speaks for them.
"""
from __future__ import annotations
import argparse
import hashlib
import importlib
import json
import multiprocessing
import os
import re
import subprocess
import sys
import time

VERIF = os.path.dirname(os.path.dirname(os.path.abspath(__file__)))
sys.path.insert(0, VERIF)

from pyvc.framework import run_harness, aggregate, get_loader  # noqa: E402
from pyvc.repo import REPO_ROOT  # noqa: E402

VENV_PY = os.environ.get("KRROOD_PY", "/venv/bin/python")
_HARNESSES = []


HARNESS_WALL_BUDGET_S = 240          # per harness, quick tier (thorough: x5); a harness that needs more is reported undecided


class _HarnessTimeout(BaseException):
    pass


def _run_idx(i):
    import signal
    from pyvc.framework import HarnessResult

    def on_alarm(signum, frame):
        raise _HarnessTimeout()
    try:
        signal.signal(signal.SIGALRM, on_alarm)
        signal.alarm(int(HARNESS_WALL_BUDGET_S))
    except Exception:
        pass
    try:
        return run_harness(_HARNESSES[i])
    except _HarnessTimeout:
        r = HarnessResult(_HARNESSES[i].name)
        r.undecided = f"wall-clock budget of {HARNESS_WALL_BUDGET_S}s exceeded (a slow query is an unstable one: reported undecided, never a violation)"
        return r
    except BaseException as e:  # pragma: no cover
        r = HarnessResult(_HARNESSES[i].name)
        r.error = repr(e)
        return r
    finally:
        try:
            signal.alarm(0)
        except Exception:
            pass


def sanitize(s):
    return re.sub(r"[^A-Za-z0-9_.-]+", "_", s)[:150]


def load_known(pid):
    p = os.path.join(VERIF, "known_findings.json")
    if not os.path.isfile(p):
        return []
    with open(p) as f:
        return [k for k in json.load(f).get("findings", []) if k["property"] == pid and k.get("status", "open") == "open"]


def load_lock(pid):
    p = os.path.join(VERIF, "locks", f"{pid}.lock.json")
    if not os.path.isfile(p):
        return None
    with open(p) as f:
        return json.load(f)


def run_deductive(pid, tier, jobs):
    """returns dict(results, agg, canary_ok, undecided[], errors[], functions[])"""
    try:
        mod = importlib.import_module(f"contracts.{pid}")
    except ModuleNotFoundError as e:
        if e.name == f"contracts.{pid}":
            return None
        raise
    global _HARNESSES
    _HARNESSES = mod.harnesses() if tier == "quick" or not hasattr(mod, "harnesses_thorough") else mod.harnesses_thorough()
    global HARNESS_WALL_BUDGET_S
    if tier == "thorough":
        HARNESS_WALL_BUDGET_S = 1200
        for h in _HARNESSES:
            if h.retry_unknown:
                h.timeout_ms = max(h.timeout_ms, 60000)
    t0 = time.time()
    if jobs > 1 and len(_HARNESSES) > 1:
        ctxmp = multiprocessing.get_context("fork")
        with ctxmp.Pool(min(jobs, len(_HARNESSES))) as pool:
            results = pool.map(_run_idx, range(len(_HARNESSES)), chunksize=1)
    else:
        results = [_run_idx(i) for i in range(len(_HARNESSES))]
    wall = time.time() - t0
    normal, canaries = [], []
    for h, r in zip(_HARNESSES, results):
        (canaries if h.expect_fail else normal).append((h, r))
    agg = aggregate([r for _, r in normal])
    # required covers become obligations
    for h, r in normal:
        if r.undecided or r.error:
            continue
        for c in h.covers:
            oid = f"{h.name}::reaches-{c}"
            agg[oid] = {"status": "discharged" if c in r.covers else "failed", "instances": 1, "models": [],
                        "seconds": 0.0, "harness": h.name, "details": [], "reasons": [], "cover": True}
    vacuous = [r.name for _, r in normal if not r.undecided and not r.error and r.nonvacuous_paths == 0]
    # a canary must not be discharged ("failed" with a model, or "unknown" where the solver cannot build a model of the
    # quantified hypotheses) — what matters is that the pipeline does not prove a false clause
    decided_canaries = [(h, r) for h, r in canaries if not r.undecided]
    canary_ok = all(any(c.status in ("failed", "unknown") for c in r.checks) for _, r in decided_canaries) if decided_canaries else None
    loader = get_loader()
    functions = []
    for modname, qual in getattr(mod, "FUNCTIONS", []):
        try:
            fv = loader.func(modname, qual)
            functions.append({"module": modname, "function": qual, "sha256": loader.sha_of(fv),
                              "file_sha256": loader.module(modname).sha256})
        except Exception as e:
            functions.append({"module": modname, "function": qual, "missing": repr(e)})
    return {
        "module": mod,
        "results": results,
        "agg": agg,
        "canary_ok": canary_ok,
        "vacuous": vacuous,
        "undecided": [(r.name, r.undecided) for _, r in normal if r.undecided],
        "errors": [(r.name, r.error) for _, r in normal + canaries if r.error],
        "functions": functions,
        "wall": wall,
        "solver_s": sum(r.solver_s for r in results),
        "solver_calls": sum(r.solver_calls for r in results),
        "paths": sum(r.paths for r in results),
        "inlined": sorted(set().union(*[r.inlined for r in results])) if results else [],
        "stubbed": sorted(set().union(*[r.stubbed for r in results])) if results else [],
    }


def run_subprocess_json(script, args, timeout):
    env = dict(os.environ)
    env["PYTHONPATH"] = os.pathsep.join([os.path.join(REPO_ROOT, "src"), REPO_ROOT, VERIF, env.get("PYTHONPATH", "")])
    env.setdefault("KRROOD_REPO", REPO_ROOT)
    try:
        p = subprocess.run([VENV_PY, script] + args, capture_output=True, text=True, timeout=timeout, env=env,
                           cwd=REPO_ROOT)
    except subprocess.TimeoutExpired:
        return None, "timeout"
    out = p.stdout.strip().splitlines()
    for line in reversed(out):
        if line.startswith("{"):
            try:
                return json.loads(line), p.stderr[-2000:]
            except json.JSONDecodeError:
                continue
    return None, (p.stdout[-1500:] + "\n" + p.stderr[-3000:])


def replay_model(pid, oid, entry, outdir):
    """Write the replay file for a failed obligation and run the native replay.  Returns (path, confirmed, what)."""
    os.makedirs(outdir, exist_ok=True)
    path = os.path.join(outdir, sanitize(oid) + ".json")
    doc = {"property": pid, "obligation": oid, "status": entry["status"], "models": entry["models"],
           "harness": entry.get("harness"), "solver": "z3 " + _z3_version(), "reasons": entry.get("reasons", [])}
    confirmed, what = False, None
    script = os.path.join(VERIF, "replay", f"{pid}.py")
    with open(path, "w") as f:
        json.dump(doc, f, indent=1, default=str)
    if os.path.isfile(script) and entry["models"]:
        res, err = run_subprocess_json(script, [path], timeout=300)
        if res is not None:
            confirmed = bool(res.get("confirmed"))
            what = res.get("what")
            doc["replay"] = res
        else:
            doc["replay_error"] = err
        with open(path, "w") as f:
            json.dump(doc, f, indent=1, default=str)
    return path, confirmed, what


def _z3_version():
    import z3
    return z3.get_version_string()


def run_bounded(pid, tier, seed, outdir):
    script = os.path.join(VERIF, "bounded", f"{pid}.py")
    if not os.path.isfile(script):
        return None
    os.makedirs(outdir, exist_ok=True)
    res, err = run_subprocess_json(script, ["--tier", tier, "--seed", str(seed), "--out", outdir],
                                   timeout=3000 if tier == "thorough" else 600)
    if res is None:
        return {"error": err}
    return res


def main(argv=None):
    ap = argparse.ArgumentParser()
    ap.add_argument("pid")
    ap.add_argument("--tier", default=os.environ.get("VERIF_TIER", "quick"), choices=["quick", "thorough"])
    ap.add_argument("--jobs", type=int, default=int(os.environ.get("VERIF_JOBS", "16")))
    ap.add_argument("--write-lock", action="store_true")
    ap.add_argument("--no-bounded", action="store_true")
    ap.add_argument("--verbose", "-v", action="store_true")
    args = ap.parse_args(argv)
    pid = args.pid
    seed = int(os.environ.get("VERIF_SEED", "0") or 0)
    t0 = time.time()
    outdir = os.path.join(VERIF, "out", pid)
    known = load_known(pid)
    import re as _re

    class KnownMap(dict):
        """exact ids plus `id_regex` entries"""
        def __init__(self, entries):
            super().__init__({k["id"]: k for k in entries if "id" in k})
            self.patterns = [(_re.compile(k["id_regex"]), k) for k in entries if "id_regex" in k]

        def __contains__(self, key):
            return dict.__contains__(self, key) or any(p.search(key) for p, _ in self.patterns)

        def __getitem__(self, key):
            if dict.__contains__(self, key):
                return dict.__getitem__(self, key)
            return next(k for p, k in self.patterns if p.search(key))
    known_obl = KnownMap([k for k in known if k["kind"] == "obligation"])
    known_bnd = KnownMap([k for k in known if k["kind"] == "bounded"])
    violations, known_hits, undecided_notes = [], [], []
    engine_errors = []

    ded = run_deductive(pid, args.tier, args.jobs)
    obligations = discharged = 0
    samples = []
    lock = load_lock(pid)
    if ded is not None:
        if ded["errors"]:
            for n, e in ded["errors"]:
                engine_errors.append(f"harness {n}: {e}")
        for n in ded["vacuous"]:
            engine_errors.append(f"harness {n}: every completed path has contradictory hypotheses (vacuous)")
        if ded["canary_ok"] is False:
            engine_errors.append("canary obligation did not fail: the pipeline cannot say no")
        for n, u in ded["undecided"]:
            undecided_notes.append(f"harness {n} undecided: {u}")
        agg = ded["agg"]
        obligations = len(agg)
        for oid, e in sorted(agg.items()):
            if e["status"] == "discharged":
                discharged += 1
                continue
            if e["status"] == "unknown":
                was_discharged = lock is not None and oid in lock.get("discharged", [])
                if not was_discharged:
                    undecided_notes.append(f"obligation {oid}: solver unknown {e.get('reasons')}")
                    continue
                # an obligation that was discharged on the unchanged tree and is not any more (after a retry with 4x the
                # budget): reported as a violation; the replay file carries the query and the solver's reason
                path, confirmed, what = replay_model(pid, oid, e, outdir)
                if oid in known_obl:
                    known_hits.append((known_obl[oid].get("id", known_obl[oid].get("id_regex")), known_obl[oid]["what"]))
                    continue
                if bool(e.get("models")) and all(m.get("overapprox") for m in e["models"]) and not confirmed:
                    undecided_notes.append(f"obligation {oid}: no longer discharged, but only on paths that read over-approximated state, and no native input reproduces it")
                    continue
                violations.append((oid, path, confirmed, what or f"no longer discharged (solver: {e.get('reasons')})"))
                continue
            path, confirmed, what = replay_model(pid, oid, e, outdir)
            if oid in known_obl:
                known_hits.append((known_obl[oid].get("id", known_obl[oid].get("id_regex")), known_obl[oid]["what"]))
                continue
            over = bool(e.get("models")) and all(m.get("overapprox") for m in e["models"])
            if over and not confirmed:
                # every failing path read a value the sidecar OVER-approximates (e.g. "a class-level memo table holds anything"):
                # a correct refinement of the code may need an invariant the sidecar does not state; only a native witness decides
                undecided_notes.append(f"obligation {oid}: fails only on paths that read over-approximated state and no native input reproduces it")
                continue
            if (oid.endswith("::uncaught-exception") or "::reaches-" in oid or oid in getattr(ded["module"], "NEEDS_WITNESS", ())) and not confirmed:
                # harness-level obligation: the ABSTRACT run raised / did not reach its end.  Without a native witness this says
                # that the sidecar model no longer fits the code (e.g. a new `assert` over a value the model keeps abstract),
                # not that the property is violated: undecided, the bounded driver decides.
                undecided_notes.append(f"obligation {oid}: the abstract run failed ({(e.get('models') or [{}])[0].get('detail')}) and no native input reproduces it")
                continue
            violations.append((oid, path, confirmed, what))
        if obligations == 0 and not ded["undecided"] and not ded["errors"]:
            engine_errors.append("zero obligations generated")
        if lock is not None:
            missing = [o for o in lock["discharged"] if o not in agg]
            for o in missing:
                undecided_notes.append(f"obligation {o} of the lock was not generated on this tree")
        for oid, e in list(sorted(agg.items()))[:4]:
            samples.append({"obligation": oid, "status": e["status"], "path_instances": e["instances"]})
        if args.write_lock:
            os.makedirs(os.path.join(VERIF, "locks"), exist_ok=True)
            with open(os.path.join(VERIF, "locks", f"{pid}.lock.json"), "w") as f:
                json.dump({"property": pid, "discharged": sorted(o for o, e in agg.items() if e["status"] == "discharged"),
                           "failed": sorted(o for o, e in agg.items() if e["status"] == "failed")}, f, indent=1)

    bounded = None if args.no_bounded else run_bounded(pid, args.tier, seed, outdir)
    b_cases = b_distinct = 0
    if bounded is not None:
        if "error" in bounded:
            engine_errors.append(f"bounded driver failed: {bounded['error']}")
        else:
            b_cases = bounded.get("cases", 0)
            b_distinct = bounded.get("distinct_nontrivial", 0)
            for fl in bounded.get("failures", []):
                sig = fl["signature"]
                if sig in known_bnd:
                    kf = known_bnd[sig]
                    known_hits.append((kf.get("id", kf.get("id_regex")), kf["what"]))
                else:
                    violations.append((sig, fl.get("replay", os.path.join(outdir, "bounded.json")), True, fl.get("what")))
            for s in bounded.get("samples", [])[:3]:
                samples.append({"bounded_case": s})

    # ---- report
    seen = set()
    for oid, what in known_hits:
        if oid in seen:
            continue
        seen.add(oid)
        print(f"KNOWN-FINDING: property={pid} {oid}: {what}")
    for oid, path, confirmed, what in violations:
        tail = "" if confirmed else " no-failing-input-found"
        print(f"# failed obligation / case: {oid}" + (f" — {what}" if what else ""))
        print(f"VIOLATION property={pid} replay={path}{tail}")
    for n in undecided_notes:
        print(f"# undecided: {n}")
    for e in engine_errors:
        print(f"# engine error: {e}", file=sys.stderr)

    proof_complete = (ded is not None and obligations > 0 and discharged == obligations and not undecided_notes
                      and not engine_errors)
    mod = ded["module"] if ded else None
    bounded_only = getattr(mod, "BOUNDED_ONLY_CLAUSES", None) if mod else None
    level = "proof" if (proof_complete and not bounded_only and not known_hits) else "other"
    explanation = []
    if ded is not None:
        explanation.append(
            f"deductive: {obligations} obligations generated from the ast of the working tree, {discharged} discharged by z3 "
            f"({ded['paths']} paths, {ded['solver_calls']} solver calls, {ded['solver_s']:.2f}s solver time); "
            f"{len(known_hits)} known findings; {len(undecided_notes)} undecided notes")
    if bounded is not None and "error" not in bounded:
        explanation.append(f"bounded stand-in (never counted as proved): {bounded.get('scope', '')}; {b_cases} cases")
    if bounded_only:
        explanation.append("bounded-only clauses: " + "; ".join(bounded_only))
    cov = {
        "obligations": obligations,
        "discharged": discharged,
        "checker_cmd": f"python3-vt -m pyvc.check {pid} --tier {args.tier}  (z3 {_z3_version()})",
        "trusted_base": list(getattr(mod, "TRUSTED", [])) + [
            "pyvc symbolic interpreter and its encoding of Python semantics (DESIGN 2.3)", "z3"],
        "explanation": " | ".join(explanation) or "no machinery",
        "samples": samples or [{"note": "none"}],
        "functions_under_contract": ded["functions"] if ded else [],
        "functions_inlined": ded["inlined"] if ded else [],
        "contracts_used_at_call_sites": ded["stubbed"] if ded else [],
        "solver_seconds": round(ded["solver_s"], 3) if ded else 0,
        "back_end": "z3 (python3-vt wheel)",
        "undecided": undecided_notes,
        "known_findings_matched": [o for o, _ in known_hits],
        "evaluations": max(1, b_cases + (ded["paths"] if ded else 0)),
        "distinct_nontrivial": max(2, b_distinct + obligations),
        "rule": "obligations: one per contract clause and function (path instances counted separately); bounded cases: see scope",
        "bounded": {k: v for k, v in (bounded or {}).items() if k not in ("failures", "samples")},
        "lock_missing": [n for n in undecided_notes if "of the lock" in n],
    }
    ev = {
        "property_id": pid,
        "tier": args.tier,
        "seed": seed,
        "level": level,
        "coverage": cov,
        "assumptions": list(getattr(mod, "ASSUMPTIONS", [])) if mod else [],
        "wall_s": round(time.time() - t0, 2),
        "violations": len(violations),
    }
    evdir = os.environ.get("VERIF_EVIDENCE_DIR") or os.path.join(VERIF, "evidence")
    os.makedirs(evdir, exist_ok=True)
    with open(os.path.join(evdir, f"{pid}.json"), "w") as f:
        json.dump(ev, f, indent=1, default=str)
    if args.verbose and ded is not None:
        for oid, e in sorted(ded["agg"].items()):
            print(f"  {e['status']:11s} {oid} x{e['instances']}")
    print(f"# {pid}: obligations={obligations} discharged={discharged} bounded_cases={b_cases} "
          f"violations={len(violations)} known={len(seen)} undecided={len(undecided_notes)} wall={time.time() - t0:.1f}s")
    if violations:
        return 1
    if engine_errors:
        return 3
    return 0


if __name__ == "__main__":
    sys.exit(main())
