"""Value domain of the pyvc symbolic interpreter.

Concrete Python scalars (None, bool, int, float, str, tuple) are represented by themselves.
Everything else is one of the wrappers below.
"""
from __future__ import annotations
import itertools
import z3


class SV:
    """Symbolic scalar (a z3 term)."""
    __slots__ = ("t",)

    def __init__(self, t):
        self.t = t

    def __repr__(self):
        return f"{type(self).__name__}({self.t})"


class SInt(SV):
    pass


class SBool(SV):
    pass


class SStr(SV):
    pass


class STerm(SV):
    """A z3 term of an uninterpreted sort (only equality is available)."""
    pass


class Obj:
    """Heap object with concrete identity.  cls is a ClassInfo or ExtClass."""
    _ids = itertools.count(1)

    def __init__(self, cls, fields=None, tag=None):
        self.cls = cls
        self.fields = {} if fields is None else fields
        self.oid = next(Obj._ids)
        self.tag = tag

    def __repr__(self):
        return f"<{getattr(self.cls, 'name', self.cls)}#{self.oid}{' ' + self.tag if self.tag else ''}>"


class PyList:
    def __init__(self, items=None):
        self.items = list(items) if items is not None else []

    def __repr__(self):
        return f"PyList({self.items})"


class PySet:
    """Set of values compared by `interp.same` (identity for Obj, == for concrete)."""

    def __init__(self, items=None):
        self.items = []
        for i in items or []:
            self.items.append(i)

    def __repr__(self):
        return f"PySet({self.items})"


class PyDict:
    """Insertion ordered dict; keys compared by key_of()."""

    def __init__(self):
        self.keys = {}   # key_of(k) -> k
        self.vals = {}   # key_of(k) -> v

    def __repr__(self):
        return "PyDict({" + ", ".join(f"{self.keys[k]!r}: {self.vals[k]!r}" for k in self.keys) + "})"


class ExtClass:
    """A class that lives outside the repository (builtins, stdlib)."""

    def __init__(self, name, py=None, bases=()):
        self.name = name
        self.py = py
        self.bases = bases

    def __repr__(self):
        return f"<ext class {self.name}>"


class FuncVal:
    def __init__(self, node, module, owner=None, closure=None, decorators=(), qualname=None):
        self.node = node
        self.module = module
        self.owner = owner        # ClassInfo for methods
        self.closure = closure    # enclosing Frame for nested defs / lambdas
        self.decorators = tuple(decorators)
        self.qualname = qualname or getattr(node, "name", "<lambda>")

    def __repr__(self):
        return f"<func {self.qualname}>"


class BoundMethod:
    def __init__(self, selfv, func):
        self.selfv = selfv
        self.func = func

    def __repr__(self):
        return f"<bound {self.func!r} of {self.selfv!r}>"


class Builtin:
    def __init__(self, name, fn):
        self.name = name
        self.fn = fn   # fn(interp, frame, args, kwargs)

    def __repr__(self):
        return f"<builtin {self.name}>"


class GenObj:
    """A running generator of the interpreted program (wraps a Python generator of values)."""

    def __init__(self, it, name="gen"):
        self.it = it
        self.name = name
        self.done = False

    def __repr__(self):
        return f"<gen {self.name}>"


class Opaque:
    """A value the engine knows nothing about (user data, third-party object)."""
    _ids = itertools.count(1)

    def __init__(self, tag, payload=None):
        self.tag = tag
        self.payload = payload
        self.oid = next(Opaque._ids)

    def __repr__(self):
        return f"<opaque {self.tag}#{self.oid}>"


class Havoc:
    """Poison: a location whose content is unknown after a loop havoc.  Using it is unsupported."""

    def __init__(self, what):
        self.what = what

    def __repr__(self):
        return f"<havoc {self.what}>"


class ModuleVal:
    def __init__(self, name, module=None):
        self.name = name
        self.module = module   # repo Module or None for external

    def __repr__(self):
        return f"<module {self.name}>"


class SymStream:
    """An abstract finite iterable of unknown length.

    elem(ctx, index_term) -> value : the element at a (symbolic) position, assumptions added to ctx.
    length: z3 Int term (>= 0 is assumed by the loop rule).
    on_exhaust(ctx): assumptions that become available once the stream has been consumed completely.
    """

    def __init__(self, name, elem, length=None, on_exhaust=None, meta=None):
        self.name = name
        self.elem = elem
        self.length = length
        self.on_exhaust = on_exhaust
        self.meta = meta or {}

    def __repr__(self):
        return f"<stream {self.name}>"
