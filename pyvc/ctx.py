"""Path context: decisions, path condition, obligations, ghost state, effect log.

Exploration is by re-execution: every path is run from the start of the harness with a recorded
list of decisions; the first undecided symbolic branch is resolved by asking the solver which sides
are feasible, the alternatives are pushed on the work list.
"""
from __future__ import annotations
import time
import z3


class PathEnd(Exception):
    """The path was cut deliberately (inductive loop step, assume(False))."""


class Infeasible(Exception):
    """The path condition became unsatisfiable."""


class Unsupported(Exception):
    """A construct outside the supported subset was met: the deductive part is undecided."""


class EngineError(Exception):
    pass


SOLVER_TIMEOUT_MS = 10000
FEASIBILITY_TIMEOUT_MS = 1500


class Check:
    __slots__ = ("oid", "status", "model", "seconds", "detail", "path", "backend", "reason", "overapprox")

    def __init__(self, oid, status, model=None, seconds=0.0, detail=None, path=None, backend="z3", reason=None):
        self.oid = oid
        self.status = status        # 'discharged' | 'failed' | 'unknown'
        self.model = model
        self.seconds = seconds
        self.detail = detail
        self.path = path
        self.backend = backend
        self.reason = reason
        self.overapprox = False     # the path read a value the sidecar over-approximates (a failure there needs a native witness)


class Stats:
    def __init__(self):
        self.solver_s = 0.0
        self.solver_calls = 0
        self.paths = 0
        self.cut_paths = 0
        self.infeasible = 0


class Ctx:
    def __init__(self, decisions, stats, timeout_ms=SOLVER_TIMEOUT_MS, ematching_only=False):
        self.decisions = list(decisions)
        self.di = 0
        self.alternatives = []
        self.stats = stats
        self.solver = z3.Solver()
        self.solver.set("timeout", timeout_ms)
        self.ematching_only = ematching_only
        if ematching_only:
            # quantified contracts carry explicit triggers: E-matching decides the valid obligations in milliseconds and
            # answers `unknown` at once where no proof exists (model-based instantiation is tried afterwards)
            self.solver.set("auto_config", False)
            self.solver.set("mbqi", False)
        self.timeout_ms = timeout_ms
        self.pc = []
        self.checks = []
        self.ghost = {}
        self.effects = []
        self.inputs = {}           # name -> z3 term / python value, for model extraction
        self.counters = {}
        self.notes = []            # free-form per-path notes (yield clauses etc.)
        self.covers = set()
        self.fresh_log = []        # every fresh constant created on this path, in order
        self.conds = []            # path conditions proper (branches and non-axiom assumptions), in order
        self.axiom_log = []        # assumptions marked as axioms (contracts, environment facts)

    # ---- fresh symbols (deterministic per path prefix)
    def _name(self, base):
        n = self.counters.get(base, 0)
        self.counters[base] = n + 1
        return base if n == 0 else f"{base}!{n}"

    def fresh_int(self, base="i", register=False):
        nm = self._name(base)
        t = z3.Int(nm)
        self.fresh_log.append(t)
        if register:
            self.inputs[nm] = t
        return t

    def fresh_bool(self, base="b", register=False):
        nm = self._name(base)
        t = z3.Bool(nm)
        self.fresh_log.append(t)
        if register:
            self.inputs[nm] = t
        return t

    def fresh_str(self, base="s", register=False):
        nm = self._name(base)
        t = z3.String(nm)
        if register:
            self.inputs[nm] = t
        return t

    def fresh_const(self, base, sort, register=False):
        nm = self._name(base)
        t = z3.Const(nm, sort)
        self.fresh_log.append(t)
        if register:
            self.inputs[nm] = t
        return t

    # ---- solver plumbing
    def _check(self, *extra):
        t0 = time.time()
        r = self.solver.check(*extra)
        dt = time.time() - t0
        self.stats.solver_s += dt
        self.stats.solver_calls += 1
        return r

    def assume(self, f, axiom=False):
        if isinstance(f, bool):
            if not f:
                raise PathEnd()
            return
        if not axiom:
            f = z3.simplify(f)
        if z3.is_true(f):
            return
        if z3.is_false(f):
            raise PathEnd()
        self.pc.append(f)
        if not axiom:
            self.conds.append(f)
        else:
            self.axiom_log.append(f)
        self.solver.add(f)

    def assume_checked(self, f):
        """assume and cut the path if it became infeasible."""
        self.assume(f)
        if self._check() == z3.unsat:
            raise Infeasible()

    def choice(self, n, label=""):
        """Non-solver branching: explore all n alternatives."""
        if self.di < len(self.decisions):
            d = self.decisions[self.di]
            self.di += 1
            return d
        prefix = self.decisions[: self.di]
        for alt in range(1, n):
            self.alternatives.append(prefix + [alt])
        self.decisions.append(0)
        self.di += 1
        return 0

    def branch(self, cond):
        """Branch on a z3 Bool; returns the Python bool of the side taken."""
        if isinstance(cond, bool):
            return cond
        cond = z3.simplify(cond)
        if z3.is_true(cond):
            return True
        if z3.is_false(cond):
            return False
        if self.di < len(self.decisions):
            d = self.decisions[self.di]
            self.di += 1
            side = bool(d)
            f = cond if side else z3.Not(cond)
            self.pc.append(f)
            self.conds.append(f)
            self.solver.add(f)
            return side
        # feasibility of the two sides (short budget; `unknown` counts as feasible, which is sound: an infeasible path
        # can only add obligations whose hypotheses are contradictory).  If one side is refuted the other one holds on
        # this (feasible) path and is not checked.
        self.solver.set("timeout", FEASIBILITY_TIMEOUT_MS)
        try:
            can_f = self._check(z3.Not(cond))
            if can_f == z3.unsat:
                can_t = z3.sat
            else:
                can_t = self._check(cond)
        finally:
            self.solver.set("timeout", self.timeout_ms)
        t_ok = can_t != z3.unsat
        f_ok = can_f != z3.unsat
        if not t_ok and not f_ok:
            raise Infeasible()
        prefix = self.decisions[: self.di]
        if t_ok and f_ok:
            self.alternatives.append(prefix + [0])
            side = True
        else:
            side = t_ok
        self.decisions.append(1 if side else 0)
        self.di += 1
        f = cond if side else z3.Not(cond)
        self.pc.append(f)
        self.conds.append(f)
        self.solver.add(f)
        return side

    # ---- obligations
    def check(self, oid, formula, detail=None):
        """Record and try to discharge: path condition ==> formula."""
        if isinstance(formula, bool):
            formula = z3.BoolVal(formula)
        t0 = time.time()
        neg = z3.Not(formula)
        backend = "z3"
        stringy = self._has_strings(neg)
        if stringy:
            self.solver.set("timeout", min(self.timeout_ms, 5000))
        r = self._check(neg)
        self.solver.set("timeout", self.timeout_ms)
        if r == z3.unknown and self.ematching_only:
            s2 = z3.Solver()
            s2.set("timeout", self.timeout_ms)
            s2.add(self.pc)
            s2.add(neg)
            r = s2.check()
            self.stats.solver_calls += 1
            if r == z3.sat:
                try:
                    mm = s2.model()
                    dt = time.time() - t0
                    c = Check(oid, "failed", model=self.model_dict(mm), seconds=dt, detail=detail)
                    c.path = list(self.decisions[: self.di])
                    c.overapprox = any(n and n[0] == "overapprox" for n in self.notes)
                    self.checks.append(c)
                    return c
                except Exception:
                    pass
        if r == z3.unknown and getattr(self, "retry_unknown", True):
            # second opinion: cvc5 (decides the string obligations z3 leaves open); then one z3 retry with a 4x budget
            r2 = cvc5_check(self.smt2(neg), 60 if stringy else 20)
            if r2 is not None:
                r, backend = r2, "cvc5"
            elif not stringy:
                self.solver.set("timeout", self.timeout_ms * 4)
                try:
                    r = self._check(neg)
                finally:
                    self.solver.set("timeout", self.timeout_ms)
        dt = time.time() - t0
        if r == z3.unsat:
            c = Check(oid, "discharged", seconds=dt, detail=detail, backend=backend)
        elif r == z3.sat and backend == "cvc5":
            c = Check(oid, "failed", model={"__note__": "refuted by cvc5 (no model extracted)"}, seconds=dt, detail=detail, backend=backend)
        elif r == z3.sat:
            m = self.solver.model()
            c = Check(oid, "failed", model=self.model_dict(m), seconds=dt, detail=detail)
        else:
            c = Check(oid, "unknown", seconds=dt, detail=detail, reason=self.solver.reason_unknown())
            c.model = {"__smt2__": self.smt2(neg)}
        c.path = list(self.decisions[: self.di])
        c.overapprox = any(n and n[0] == "overapprox" for n in self.notes)
        self.checks.append(c)
        return c

    def _has_strings(self, f):
        if getattr(self, "_stringy", False):
            return True
        seen = set()
        todo = [f] + list(self.pc[-30:])
        while todo:
            e = todo.pop()
            if e.get_id() in seen:
                continue
            seen.add(e.get_id())
            if z3.is_expr(e) and e.sort().kind() == z3.Z3_SEQ_SORT:
                self._stringy = True
                return True
            if z3.is_app(e):
                todo.extend(e.children())
            elif z3.is_quantifier(e):
                todo.append(e.body())
        return False

    def fail(self, oid, detail=None):
        """An obligation that fails whenever this point is reachable."""
        return self.check(oid, z3.BoolVal(False), detail)

    def ok(self, oid, detail=None):
        return self.check(oid, z3.BoolVal(True), detail)

    def cover(self, label):
        self.covers.add(label)

    def smt2(self, extra=None):
        s = z3.Solver()
        s.add(self.pc)
        if extra is not None:
            s.add(extra)
        return s.to_smt2()

    def model_dict(self, m):
        out = {}
        for k, v in self.inputs.items():
            if z3.is_expr(v):
                try:
                    val = m.eval(v, model_completion=True)
                    out[k] = _pyval(val)
                except Exception as e:  # pragma: no cover
                    out[k] = f"<{e}>"
            else:
                out[k] = v
        return out

    # ---- effects / ghost
    def effect(self, kind, detail=None, site=None):
        self.effects.append((kind, detail, site))

    def ghost_add(self, name, delta=1):
        cur = self.ghost.get(name, 0)
        if isinstance(cur, int) and isinstance(delta, int):
            self.ghost[name] = cur + delta
        else:
            self.ghost[name] = z3.simplify(_z(cur) + _z(delta))


def cvc5_check(smt2, seconds):
    """Run /usr/bin/cvc5 on an SMT-LIB query; returns z3.unsat / z3.sat / None (unknown, timeout, error)."""
    import os
    import subprocess
    import tempfile
    exe = "/usr/bin/cvc5"
    if not os.path.exists(exe):
        return None
    with tempfile.NamedTemporaryFile("w", suffix=".smt2", delete=False) as f:
        f.write("(set-logic ALL)\n" + smt2)
        path = f.name
    try:
        p = subprocess.run([exe, "--strings-exp", f"--tlimit={int(seconds * 1000)}", path], capture_output=True, text=True,
                           timeout=seconds + 10)
        out = p.stdout.strip().splitlines()
        if out and out[0] == "unsat":
            return z3.unsat
        if out and out[0] == "sat":
            return z3.sat
        return None
    except Exception:
        return None
    finally:
        os.unlink(path)


def _z(v):
    return z3.IntVal(v) if isinstance(v, int) else v


def _pyval(v):
    if z3.is_int_value(v):
        return v.as_long()
    if z3.is_true(v):
        return True
    if z3.is_false(v):
        return False
    if z3.is_string_value(v):
        return v.as_string()
    return str(v)


def explore(harness, max_paths=20000, timeout_ms=SOLVER_TIMEOUT_MS, retry_unknown=True, ematching_only=False):
    """Run `harness(ctx)` along every feasible path.  Returns (list of finished ctxs, stats)."""
    stats = Stats()
    work = [[]]
    done = []
    while work:
        dec = work.pop()
        if stats.paths >= max_paths:
            raise Unsupported(f"path budget {max_paths} exhausted")
        ctx = Ctx(dec, stats, timeout_ms, ematching_only=ematching_only)
        ctx.retry_unknown = retry_unknown
        ctx.end = "complete"
        try:
            harness(ctx)
        except PathEnd:
            ctx.end = "cut"
            stats.cut_paths += 1
        except Infeasible:
            ctx.end = "infeasible"
            stats.infeasible += 1
        stats.paths += 1
        work.extend(ctx.alternatives)
        done.append(ctx)
    return done, stats
