"""Builtin functions and methods of builtin containers, as the engine models them.

Every entry is an *assumed contract* of a CPython builtin (listed in the evidence as trusted).
"""
from __future__ import annotations
import ast
import z3

from .values import (SV, SInt, SBool, SStr, Obj, PyList, PySet, PyDict, ExtClass, FuncVal, BoundMethod,
                     Builtin, GenObj, Opaque, Havoc, ModuleVal, SymStream)
from .ctx import Unsupported
from .repo import ClassInfo
from . import ops
from .ops import key_of, wrap_bool, wrap_int, wrap_str, zint, zbool, zstr

BUILTINS = {}


def builtin(name):
    def deco(fn):
        BUILTINS[name] = Builtin(name, fn)
        return fn
    return deco


@builtin("len")
def _len(it, fr, a, k):
    v = a[0]
    if isinstance(v, PyList):
        return len(v.items)
    if isinstance(v, PySet):
        return len(v.items)
    if isinstance(v, PyDict):
        return len(v.keys)
    if isinstance(v, (tuple, str)):
        return len(v)
    if isinstance(v, SStr):
        return wrap_int(z3.Length(v.t))
    if isinstance(v, Obj) and isinstance(v.cls, ClassInfo):
        f = v.cls.find("__len__", it.loader)
        if f and f[1] == "method":
            return it.call_func(f[2], [v], {})
        if "__data__" in v.fields:
            return _len(it, fr, [v.fields["__data__"]], {})
    if isinstance(v, SymStream) and v.length is not None and v.meta.get("kind") == "list":
        return wrap_int(v.length)
    hook = it.spec.opaque_hooks.get("len")
    if hook:
        return hook(it, v)
    if isinstance(v, GenObj) or v is None or isinstance(v, (int, SInt)):
        it.raise_("TypeError", "object has no len()")
    raise Unsupported(f"len({v!r})")


@builtin("isinstance")
def _isinstance(it, fr, a, k):
    return it.isinstance(a[0], a[1])


@builtin("issubclass")
def _issubclass(it, fr, a, k):
    c, p = a
    if not isinstance(c, (ClassInfo, ExtClass)):
        hook = it.spec.opaque_hooks.get("issubclass")
        if hook:
            return hook(it, c, p)
        it.raise_("TypeError", "issubclass() arg 1 must be a class")
    return it.is_subclass(c, p)


@builtin("hasattr")
def _hasattr(it, fr, a, k):
    v, name = a
    if name == "__iter__":
        if isinstance(v, (PyList, PySet, PyDict, tuple, str, SStr, GenObj, SymStream, range)):
            return True
        if v is None or isinstance(v, (int, bool, float, SInt, SBool, ClassInfo, FuncVal)):
            return False
        if isinstance(v, Obj) and "__data__" in v.fields:
            return True
    if isinstance(v, Opaque):
        hook = it.spec.opaque_hooks.get("hasattr")
        if hook:
            return hook(it, v, name)
    return it.hasattr(v, name)


@builtin("getattr")
def _getattr(it, fr, a, k):
    if isinstance(a[1], SStr):
        hook = it.spec.opaque_hooks.get("getattr_sym")
        if hook:
            return hook(it, a[0], a[1], *a[2:])
        raise Unsupported("getattr with symbolic name")
    if len(a) == 3:
        from .interp import INLINE
        return it.getattr(a[0], a[1], default=a[2])
    return it._getattr(a[0], a[1])


@builtin("setattr")
def _setattr(it, fr, a, k):
    it.setattr(a[0], a[1], a[2])


@builtin("type")
def _type(it, fr, a, k):
    return it.type_of(a[0])


@builtin("id")
def _id(it, fr, a, k):
    v = a[0]
    if isinstance(v, (Opaque, Obj)) and hasattr(v, "m_id"):
        return v.m_id(it)
    if isinstance(v, Obj) and "__id__" in v.fields:
        return v.fields["__id__"]
    hook = it.spec.opaque_hooks.get("id")
    if hook:
        return hook(it, v)
    if isinstance(v, (Obj, Opaque)):
        return 1000000 + v.oid
    if v is None:
        return 999999
    raise Unsupported(f"id({v!r})")


@builtin("bool")
def _bool(it, fr, a, k):
    if not a:
        return False
    v = a[0]
    if isinstance(v, SBool):
        return v
    if isinstance(v, SInt):
        return wrap_bool(v.t != 0)
    return it.truth(v)


@builtin("int")
def _int(it, fr, a, k):
    v = a[0] if a else 0
    if isinstance(v, (SInt,)):
        return v
    if isinstance(v, SBool):
        return wrap_int(zint(v))
    if isinstance(v, (int, bool, float, str)):
        try:
            return int(v)
        except ValueError:
            it.raise_("ValueError", "invalid literal for int()")
    raise Unsupported(f"int({v!r})")


@builtin("str")
def _str(it, fr, a, k):
    if not a:
        return ""
    v = a[0]
    if isinstance(v, (str, SStr)):
        return v
    if isinstance(v, (int, bool, float)) or v is None:
        return str(v)
    hook = it.spec.opaque_hooks.get("str")
    if hook:
        return hook(it, v)
    return SStr(it.ctx.fresh_str("str"))


@builtin("repr")
def _repr(it, fr, a, k):
    hook = it.spec.opaque_hooks.get("format")
    if hook and a and isinstance(a[0], Opaque):
        hook(it, a[0])
    return SStr(it.ctx.fresh_str("repr"))


@builtin("print")
def _print(it, fr, a, k):
    return None


def _math_pred(name):
    import math as _m

    def fn(it, fr, a, k):
        v = a[0]
        if isinstance(v, bool) or isinstance(v, (int, float)):
            return getattr(_m, name)(v)
        if isinstance(v, SInt):
            return name == "isfinite"
        if isinstance(v, SBool):
            return name == "isfinite"
        it.raise_("TypeError", f"must be real number, not {type(v).__name__}")
    return fn


BUILTINS["inspect.isclass"] = Builtin("inspect.isclass", lambda it, fr, a, k: isinstance(it.norm_cls(a[0]) if not isinstance(a[0], (Obj, Opaque)) else a[0], (ClassInfo, ExtClass)))

for _n in ("isfinite", "isnan", "isinf"):
    BUILTINS[f"math.{_n}"] = Builtin(f"math.{_n}", _math_pred(_n))


@builtin("hash")
def _hash(it, fr, a, k):
    v = a[0]
    if isinstance(v, Obj) and isinstance(v.cls, ClassInfo):
        f = v.cls.find("__hash__", it.loader)
        if f and f[1] == "method":
            return it.call_func(f[2], [v], {})
    try:
        kk = key_of(v)
    except Unsupported:
        raise
    return ("hash", kk)


@builtin("callable")
def _callable(it, fr, a, k):
    v = a[0]
    if isinstance(v, (FuncVal, BoundMethod, Builtin, ClassInfo, ExtClass)):
        return True
    if isinstance(v, Obj) and isinstance(v.cls, ClassInfo):
        return bool(v.cls.find("__call__", it.loader))
    return False


@builtin("list")
def _list(it, fr, a, k):
    if not a:
        return PyList()
    r = _collect_hook(it, a, "list")
    if r is not None:
        return r
    if isinstance(a[0], SymStream):
        hook = it.spec.opaque_hooks.get("list_of_stream")
        if hook:
            return hook(it, a[0])
        if a[0].meta.get("snapshot_ok"):
            return SymStream(a[0].name, a[0].elem, a[0].length, a[0].on_exhaust, dict(a[0].meta, kind="list"))
    if isinstance(a[0], Opaque) and hasattr(a[0], "m_iter"):
        s0 = a[0].m_iter(it)
        if isinstance(s0, SymStream):
            return SymStream(s0.name, s0.elem, s0.length, s0.on_exhaust, dict(s0.meta, kind="list"))
    return PyList(it.to_list(a[0]))


def _collect_hook(it, a, kind):
    """sidecar abstraction of list/tuple/set(<abstract stream>): hook(interp, stream, kind) -> value, or None"""
    hook = it.spec.opaque_hooks.get("collect_stream")
    if not hook or not a:
        return None
    src = a[0]
    if isinstance(src, Opaque) and hasattr(src, "m_iter"):
        src = src.m_iter(it)
    if isinstance(src, SymStream):
        return hook(it, src, kind)
    return None


@builtin("tuple")
def _tuple(it, fr, a, k):
    r = _collect_hook(it, a, "tuple")
    if r is not None:
        return r
    return tuple(it.to_list(a[0])) if a else ()


@builtin("set")
def _set(it, fr, a, k):
    r = _collect_hook(it, a, "set")
    if r is not None:
        return r
    s = PySet()
    if a:
        # set iteration order is arbitrary in Python; the engine picks the reverse of the source order so that code
        # which relies on set(iterable) preserving order is exposed
        for x in reversed(it.to_list(a[0])):
            ops.set_add(s, x)
    return s


BUILTINS["frozenset"] = BUILTINS["set"]


@builtin("dict")
def _dict(it, fr, a, k):
    d = PyDict()
    if a:
        src = a[0]
        if isinstance(src, PyDict):
            d = ops.dict_copy(src)
        elif hasattr(src, "m_copy") and not k:
            return src.m_copy(it)
        else:
            for kv in it.to_list(src):
                kk, vv = it.to_list(kv)
                ops.dict_set(d, kk, vv)
    for kk, vv in k.items():
        ops.dict_set(d, kk, vv)
    return d


@builtin("range")
def _range(it, fr, a, k):
    if any(isinstance(x, SV) for x in a):
        raise Unsupported("symbolic range")
    return PyList(list(range(*a)))


@builtin("enumerate")
def _enumerate(it, fr, a, k):
    start = a[1] if len(a) > 1 else k.get("start", 0)
    if isinstance(a[0], SymStream):
        s0 = a[0]
        return SymStream(s0.name, lambda it2, idx: (wrap_int(zint(start) + idx), s0.elem(it2, idx)), length=s0.length,
                         on_exhaust=s0.on_exhaust, meta=dict(s0.meta, kind="generator"))

    def gen():
        i = start
        for x in it.iterate(a[0]):
            yield (i, x)
            i += 1
    return GenObj(gen(), "enumerate")


@builtin("itertools.chain")
def _chain(it, fr, a, k):
    def gen():
        for src in a:
            yield from it.iterate(src) if not isinstance(src, SymStream) else iter([("__substream__", src)])
    return GenObj(gen(), "chain")


def _chain_from_iterable(it, fr, a, k):
    def gen():
        for src in it.iterate(a[0]):
            yield from it.iterate(src) if not isinstance(src, SymStream) else iter([("__substream__", src)])
    return GenObj(gen(), "chain.from_iterable")


BUILTINS["itertools.chain.from_iterable"] = Builtin("itertools.chain.from_iterable", _chain_from_iterable)


@builtin("itertools.islice")
def _islice(it, fr, a, k):
    import itertools as _it
    if any(isinstance(x, SV) for x in a[1:]):
        raise Unsupported("islice with symbolic bounds")
    if isinstance(a[0], SymStream):
        raise Unsupported("islice over an abstract stream")
    return GenObj(_it.islice(it.iterate(a[0]), *a[1:]), "islice")


@builtin("zip")
def _zip(it, fr, a, k):
    def gen():
        its = [it.iterate(x) for x in a]
        while True:
            row = []
            for g in its:
                try:
                    row.append(next(g))
                except StopIteration:
                    return
            yield tuple(row)
    if any(isinstance(x, SymStream) for x in a):
        hook = it.spec.opaque_hooks.get("zip")
        if hook:
            return hook(it, a)
        raise Unsupported("zip over unbounded stream")
    return GenObj(gen(), "zip")


@builtin("map")
def _map(it, fr, a, k):
    f = a[0]
    src = a[1]

    def body_gen():
        def body(elem):
            yield it.call(f, [elem], {})
            return None
        yield from it.foreach(src, fr or _dummy_frame(it), body, ("map",), body_nodes=_fn_nodes(f))
    return GenObj(body_gen(), "map")


@builtin("filter")
def _filter(it, fr, a, k):
    f = a[0]
    src = a[1]

    def body_gen():
        def body(elem):
            r = it.truth(elem) if f is None else it.truth(it.call(f, [elem], {}))
            if r:
                yield elem
            return None
        yield from it.foreach(src, fr or _dummy_frame(it), body, ("filter",), body_nodes=_fn_nodes(f))
    return GenObj(body_gen(), "filter")


def _fn_nodes(f):
    if isinstance(f, BoundMethod):
        f = f.func
    if isinstance(f, FuncVal):
        return [f.node.body] if isinstance(f.node, ast.Lambda) else list(f.node.body)
    return []


def _dummy_frame(it):
    from .interp import Frame
    m = next(m for m in it.loader.modules.values() if m is not None)
    return Frame(it, m)


@builtin("iter")
def _iter(it, fr, a, k):
    v = a[0]
    if isinstance(v, (GenObj, SymStream)):
        return v
    return GenObj(it.iterate(v), "iter")


@builtin("next")
def _next(it, fr, a, k):
    g = a[0]
    if isinstance(g, SymStream):
        hook = it.spec.opaque_hooks.get("next_of_stream")
        if hook:
            return hook(it, g, a[1:] )
        raise Unsupported("next() on abstract stream")
    if not isinstance(g, GenObj):
        it.raise_("TypeError", "not an iterator")
    try:
        return next(g.it)
    except StopIteration:
        if len(a) > 1:
            return a[1]
        it.raise_("StopIteration")


@builtin("any")
def _any(it, fr, a, k):
    res = False
    for x in it.iterate(a[0]) if not isinstance(a[0], SymStream) else it.to_list(a[0]):
        if isinstance(x, SBool):
            res = x if res is False else SBool(z3.Or(zbool(res), x.t))
            continue
        if it.truth(x):
            return True
    return res


@builtin("all")
def _all(it, fr, a, k):
    res = True
    for x in it.iterate(a[0]) if not isinstance(a[0], SymStream) else it.to_list(a[0]):
        if isinstance(x, SBool):
            res = x if res is True else SBool(z3.And(zbool(res), x.t))
            continue
        if not it.truth(x):
            return False
    return res


@builtin("sorted")
def _sorted(it, fr, a, k):
    items = it.to_list(a[0])
    key = k.get("key")
    keys = [it.call(key, [x], {}) if key else x for x in items]
    if any(isinstance(x, (SV, Obj, Opaque)) for x in keys):
        raise Unsupported("sorted over symbolic keys")
    order = sorted(range(len(items)), key=lambda i: keys[i], reverse=bool(k.get("reverse", False)))
    return PyList([items[i] for i in order])


@builtin("reversed")
def _reversed(it, fr, a, k):
    src = a[0]
    if isinstance(src, Obj) and "__data__" in src.fields:
        src = src.fields["__data__"]
    if isinstance(src, PyList):
        # CPython's list_reverseiterator: lazy, reads the LIVE list by a decreasing index and stops when the index is out of range
        def gen():
            i = len(src.items) - 1
            while 0 <= i < len(src.items):
                yield src.items[i]
                i -= 1
        return GenObj(gen(), "list_reverseiterator")
    return PyList(list(reversed(it.to_list(src))))


@builtin("sum")
def _sum(it, fr, a, k):
    tot = a[1] if len(a) > 1 else 0
    for x in it.iterate(a[0]):
        tot = it.binop(ast.Add(), tot, x)
    return tot


@builtin("min")
def _min(it, fr, a, k):
    items = it.to_list(a[0]) if len(a) == 1 else a
    if any(isinstance(x, SV) for x in items):
        raise Unsupported("min over symbolic")
    return min(items)


@builtin("max")
def _max(it, fr, a, k):
    items = it.to_list(a[0]) if len(a) == 1 else a
    if any(isinstance(x, SV) for x in items):
        raise Unsupported("max over symbolic")
    return max(items)


@builtin("copy")
def _copy(it, fr, a, k):
    v = a[0]
    if hasattr(v, "m_copy"):
        return v.m_copy(it)
    if isinstance(v, PyDict):
        return ops.dict_copy(v)
    if isinstance(v, PyList):
        return PyList(v.items)
    if isinstance(v, PySet):
        return PySet(v.items)
    if isinstance(v, Obj):
        if isinstance(v.cls, ClassInfo):
            f = v.cls.find("__copy__", it.loader)
            if f and f[1] == "method":
                return it.call_func(f[2], [v], {})
        return it.alloc(v.cls, dict(v.fields))
    hook = it.spec.opaque_hooks.get("copy")
    if hook:
        return hook(it, v)
    if ops.is_concrete_scalar(v) or isinstance(v, (tuple, SV)):
        return v
    raise Unsupported(f"copy({v!r})")


BUILTINS["copy.copy"] = BUILTINS["copy"]


@builtin("vars")
def _vars(it, fr, a, k):
    v = a[0]
    if isinstance(v, ClassInfo):
        names = list(v.methods) + [n for n in v.class_attrs if n not in v.methods] + [n for n in v.class_attr_vals if n not in v.methods and n not in v.class_attrs]
        return ops.make_dict([(n, it._getattr(v, n)) for n in names if "@" not in n])
    if isinstance(v, Obj):
        return ops.make_dict(list(v.fields.items()))
    raise Unsupported(f"vars({v!r})")


@builtin("object")
def _object(it, fr, a, k):
    return it.alloc(it.ext("object"))


@builtin("field")
def _field(it, fr, a, k):
    return Opaque("dataclasses.field")


@builtin("wraps")
def _wraps(it, fr, a, k):
    return Builtin("wraps_inner", lambda it2, fr2, a2, k2: a2[0])


@builtin("is_dataclass")
def _is_dataclass(it, fr, a, k):
    v = a[0]
    if isinstance(v, Obj):
        v = v.cls
    if isinstance(v, ClassInfo):
        return v.is_dataclass(it.loader)
    return False


@builtin("abstractmethod")
def _abstractmethod(it, fr, a, k):
    return a[0]


def _weakref_ref(it, fr, a, k):
    o = it.alloc(it.ext("weakref"), {"referent": a[0], "callback": a[1] if len(a) > 1 else None, "alive": True}, tag="weakref")
    it.ctx.effect("weakref", a[0])
    return o


BUILTINS["weakref.ref"] = Builtin("weakref.ref", _weakref_ref)
BUILTINS["_weakref.ref"] = BUILTINS["weakref.ref"]


# ------------------------------------------------------------------ methods of builtin containers
def method_of(it, v, name):
    table = None
    if isinstance(v, PyList):
        table = LIST_METHODS
    elif isinstance(v, PyDict):
        table = DICT_METHODS
    elif isinstance(v, PySet):
        table = SET_METHODS
    elif isinstance(v, (str, SStr)):
        table = STR_METHODS
    elif isinstance(v, tuple):
        table = TUPLE_METHODS
    elif isinstance(v, Obj) and "__data__" in v.fields:
        inner = v.fields["__data__"]
        m = method_of(it, inner, name)
        return m
    elif isinstance(v, GenObj):
        if name == "__iter__":
            return Builtin("gen.__iter__", lambda it2, fr, a, k: v)
        if name == "__next__":
            return Builtin("gen.__next__", lambda it2, fr, a, k: BUILTINS["next"].fn(it2, fr, [v], {}))
        if name == "close":
            return Builtin("gen.close", lambda it2, fr, a, k: None)
    if table is None:
        return None
    fn = table.get(name)
    if fn is None:
        if isinstance(v, (str, SStr)) or isinstance(v, (PyList, PyDict, PySet, tuple)):
            if name.startswith("__") or True:
                return None
        return None
    if name in _CONTAINER_MUTATORS and isinstance(v, (PyList, PyDict, PySet)):
        def mutating(it2, fr, a, k, _fn=fn):
            it2.ctx.effect("mutate", (v, name))
            return _fn(it2, v, a, k)
        return Builtin(f"{type(v).__name__}.{name}", mutating)
    return Builtin(f"{type(v).__name__}.{name}", lambda it2, fr, a, k, _fn=fn: _fn(it2, v, a, k))


_CONTAINER_MUTATORS = {"append", "extend", "insert", "pop", "remove", "clear", "sort", "reverse", "add", "update", "discard",
                       "setdefault", "popitem", "difference_update", "intersection_update", "symmetric_difference_update",
                       "__setitem__", "__delitem__", "__iadd__", "__ior__"}


def _l_append(it, v, a, k):
    v.items.append(a[0])


def _l_extend(it, v, a, k):
    v.items.extend(it.to_list(a[0]))


def _l_insert(it, v, a, k):
    v.items.insert(a[0], a[1])


def _l_pop(it, v, a, k):
    if not v.items:
        it.raise_("IndexError", "pop from empty list")
    return v.items.pop(*a)


def _l_remove(it, v, a, k):
    for i, x in enumerate(v.items):
        if x is a[0] or it.truth(it.equals(x, a[0])):
            del v.items[i]
            return None
    it.raise_("ValueError", "list.remove(x): x not in list")


def _l_index(it, v, a, k):
    for i, x in enumerate(v.items):
        if x is a[0] or it.truth(it.equals(x, a[0])):
            return i
    it.raise_("ValueError", "not in list")


def _l_clear(it, v, a, k):
    v.items.clear()


def _l_copy(it, v, a, k):
    return PyList(v.items)


def _l_count(it, v, a, k):
    return sum(1 for x in v.items if x is a[0] or it.truth(it.equals(x, a[0])))


def _l_reverse(it, v, a, k):
    v.items.reverse()


LIST_METHODS = {"append": _l_append, "extend": _l_extend, "insert": _l_insert, "pop": _l_pop, "remove": _l_remove,
                "index": _l_index, "clear": _l_clear, "copy": _l_copy, "count": _l_count, "reverse": _l_reverse,
                "__iter__": lambda it, v, a, k: GenObj(it.iterate(v), "list_iter"),
                "__len__": lambda it, v, a, k: len(v.items),
                "__contains__": lambda it, v, a, k: it.contains(v, a[0]),
                "__getitem__": lambda it, v, a, k: it.getitem(v, a[0]),
                "__setitem__": lambda it, v, a, k: it.setitem(v, a[0], a[1]),
                "__iadd__": lambda it, v, a, k: (_l_extend(it, v, a, k), v)[1],
                }

TUPLE_METHODS = {"index": lambda it, v, a, k: _l_index(it, PyList(v), a, k),
                 "count": lambda it, v, a, k: _l_count(it, PyList(v), a, k),
                 "__iter__": lambda it, v, a, k: GenObj(it.iterate(v), "tuple_iter")}


def _d_get(it, v, a, k):
    default = a[1] if len(a) > 1 else k.get("default")
    if isinstance(a[0], SStr):
        # a symbolic string key: one path per concrete string key of the dictionary it may equal, one for "none of them"
        for kk, vv in ops.dict_items(v):
            if isinstance(kk, str) and it.ctx.branch(a[0].t == z3.StringVal(kk)):
                return vv
        return default
    return ops.dict_get(v, a[0], default)


def _d_items(it, v, a, k):
    return PyList([(kk, vv) for kk, vv in ops.dict_items(v)])


def _d_keys(it, v, a, k):
    s = PySet([v.keys[x] for x in v.keys])
    return s


def _d_values(it, v, a, k):
    return PyList([v.vals[x] for x in v.keys])


def _d_update(it, v, a, k):
    if a:
        src = a[0]
        if isinstance(src, PyDict):
            for kk, vv in ops.dict_items(src):
                ops.dict_set(v, kk, vv)
        else:
            hook = it.spec.opaque_hooks.get("dict_update")
            if hook:
                hook(it, v, src)
            else:
                for kv in it.to_list(src):
                    kk, vv = it.to_list(kv)
                    ops.dict_set(v, kk, vv)
    for kk, vv in k.items():
        ops.dict_set(v, kk, vv)


def _d_pop(it, v, a, k):
    if ops.dict_has(v, a[0]):
        r = ops.dict_get(v, a[0])
        ops.dict_del(v, a[0])
        return r
    if len(a) > 1:
        return a[1]
    it.raise_("KeyError", a[0])


def _d_setdefault(it, v, a, k):
    if not ops.dict_has(v, a[0]):
        ops.dict_set(v, a[0], a[1] if len(a) > 1 else None)
    return ops.dict_get(v, a[0])


def _d_clear(it, v, a, k):
    v.keys.clear()
    v.vals.clear()


DICT_METHODS = {"get": _d_get, "items": _d_items, "keys": _d_keys, "values": _d_values, "update": _d_update,
                "pop": _d_pop, "setdefault": _d_setdefault, "clear": _d_clear,
                "copy": lambda it, v, a, k: ops.dict_copy(v),
                "__contains__": lambda it, v, a, k: ops.dict_has(v, a[0]),
                "__getitem__": lambda it, v, a, k: it.getitem(v, a[0]),
                "__setitem__": lambda it, v, a, k: it.setitem(v, a[0], a[1]),
                "__iter__": lambda it, v, a, k: GenObj(it.iterate(v), "dict_iter"),
                "__len__": lambda it, v, a, k: len(v.keys)}


def _s_add(it, v, a, k):
    ops.set_add(v, a[0])


def _s_update(it, v, a, k):
    for src in a:
        for x in it.to_list(src):
            ops.set_add(v, x)


def _s_discard(it, v, a, k):
    kk = key_of(a[0])
    v.items[:] = [x for x in v.items if key_of(x) != kk]


def _s_remove(it, v, a, k):
    if not ops.set_has(v, a[0]):
        it.raise_("KeyError", a[0])
    _s_discard(it, v, a, k)


def _s_union(it, v, a, k):
    s = PySet(v.items)
    _s_update(it, s, a, k)
    return s


def _s_difference(it, v, a, k):
    other = PySet()
    _s_update(it, other, a, k)
    return PySet([x for x in v.items if not ops.set_has(other, x)])


def _s_intersection(it, v, a, k):
    other = PySet()
    _s_update(it, other, a, k)
    return PySet([x for x in v.items if ops.set_has(other, x)])


SET_METHODS = {"add": _s_add, "update": _s_update, "discard": _s_discard, "remove": _s_remove, "union": _s_union,
               "difference": _s_difference, "intersection": _s_intersection,
               "clear": lambda it, v, a, k: v.items.clear(),
               "copy": lambda it, v, a, k: PySet(v.items),
               "issubset": lambda it, v, a, k: all(ops.set_has(PySet(it.to_list(a[0])), x) for x in v.items),
               "issuperset": lambda it, v, a, k: all(ops.set_has(v, x) for x in it.to_list(a[0])),
               "isdisjoint": lambda it, v, a, k: not any(ops.set_has(v, x) for x in it.to_list(a[0])),
               "__contains__": lambda it, v, a, k: ops.set_has(v, a[0]),
               "__iter__": lambda it, v, a, k: GenObj(it.iterate(v), "set_iter"),
               "__len__": lambda it, v, a, k: len(v.items),
               "__ior__": lambda it, v, a, k: (_s_update(it, v, a, k), v)[1]}


def _str_rsplit(it, v, a, k):
    sep = a[0] if a else None
    maxsplit = a[1] if len(a) > 1 else k.get("maxsplit", -1)
    if isinstance(v, str) and isinstance(sep, (str, type(None))):
        return PyList(v.rsplit(sep, maxsplit))
    if not isinstance(sep, str) or maxsplit != 1:
        raise Unsupported("symbolic rsplit other than (const, 1)")
    s = zstr(v)
    sepz = z3.StringVal(sep)
    if it.ctx.branch(z3.Contains(s, sepz)):
        head = it.ctx.fresh_str("rs_head")
        tail = it.ctx.fresh_str("rs_tail")
        it.ctx.assume(s == z3.Concat(head, sepz, tail))
        it.ctx.assume(z3.Not(z3.Contains(tail, sepz)))
        return PyList([wrap_str(head), wrap_str(tail)])
    return PyList([v])


def _str_startswith(it, v, a, k):
    if isinstance(v, str) and isinstance(a[0], str):
        return v.startswith(a[0])
    return wrap_bool(z3.PrefixOf(zstr(a[0]), zstr(v)))


def _str_endswith(it, v, a, k):
    if isinstance(v, str) and isinstance(a[0], str):
        return v.endswith(a[0])
    return wrap_bool(z3.SuffixOf(zstr(a[0]), zstr(v)))


def _str_concrete(name):
    def fn(it, v, a, k):
        if isinstance(v, str) and all(not isinstance(x, SV) for x in a):
            from .values import GenObj
            a = [list(it.iterate(x)) if isinstance(x, GenObj) else x for x in a]
            a = [x.items if isinstance(x, PyList) else x for x in a]
            if name == "join" and any(isinstance(e, SStr) for x in a if isinstance(x, list) for e in x):
                return SStr(it.ctx.fresh_str("join"))
            if any(not isinstance(e, (str, int, float, bool, type(None))) for x in a if isinstance(x, list) for e in x):
                raise Unsupported(f"str.{name} over non-concrete elements")
            r = getattr(v, name)(*[x.items if isinstance(x, PyList) else x for x in a], **k)
            if isinstance(r, list):
                return PyList(r)
            return r
        raise Unsupported(f"str.{name} on symbolic string")
    return fn


STR_METHODS = {"rsplit": _str_rsplit, "startswith": _str_startswith, "endswith": _str_endswith}
for _n in ("split", "join", "lower", "upper", "strip", "replace", "format", "capitalize", "title", "isidentifier",
           "lstrip", "rstrip", "find", "count", "isdigit", "removeprefix", "removesuffix"):
    STR_METHODS[_n] = _str_concrete(_n)
