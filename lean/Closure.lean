import Mathlib.Data.Set.Basic
import Mathlib.Data.Set.Lattice

/-!
# Composition lemma for C15 (incremental closure by recursive insertion)

Abstract setting.  `α` is the type of facts (edges `(source, field, target)` of the symbol graph).
`unary e` are the consequences of the single fact `e` (super-properties, also on the role taker; the inverse),
`binary e f` the consequences of the ordered pair `(e, f)` (transitive composition).

`PropertyDescriptorRelation.add_to_graph` inserts a fact and, if it is new, fires every rule instance that has the new
fact as a premise and whose other premise is present (step lemmas proved from the real code in `contracts/C15.py`); every
consequence is inserted the same way (recursively).  We abstract from the order of the recursion: `E` is the set of facts in
the graph, `W` the set of facts that are still *pending* (handed to `add_to_graph` by a frame that is suspended or not yet
started).  One step takes any pending fact `c`.

* `Inv E W`      : every rule instance with premises in `E` has its conclusion in the graph or pending.
* `step_preserves`: a step preserves `Inv`, whatever pending fact is taken and whatever *superset* of the required
                   consequences is made pending (the real loops run over a later, larger snapshot of the graph).
* `closed_of_inv_empty` : when nothing is pending the graph is closed.
* `sound`        : everything in the graph or pending is derivable from the initial closed graph and the asserted fact.
-/

namespace C15

variable {α : Type*}

/-- closed under the unary and binary rules -/
def Closed (unary : α → Set α) (binary : α → α → Set α) (E : Set α) : Prop :=
  (∀ e ∈ E, unary e ⊆ E) ∧ (∀ e ∈ E, ∀ f ∈ E, binary e f ⊆ E)

/-- every rule instance over `E` has its conclusion in `E` or pending in `W` -/
def Inv (unary : α → Set α) (binary : α → α → Set α) (E W : Set α) : Prop :=
  (∀ e ∈ E, unary e ⊆ E ∪ W) ∧ (∀ e ∈ E, ∀ f ∈ E, binary e f ⊆ E ∪ W)

theorem closed_of_inv_empty {unary : α → Set α} {binary : α → α → Set α} {E : Set α}
    (h : Inv unary binary E ∅) : Closed unary binary E := by
  obtain ⟨h1, h2⟩ := h
  refine ⟨?_, ?_⟩
  · intro e he x hx
    have := h1 e he hx
    simpa using this
  · intro e he f hf x hx
    have := h2 e he f hf hx
    simpa using this

/-- a closed graph with one asserted fact pending satisfies the invariant -/
theorem inv_init {unary : α → Set α} {binary : α → α → Set α} {E : Set α} (a : α)
    (h : Closed unary binary E) : Inv unary binary E {a} := by
  obtain ⟨h1, h2⟩ := h
  refine ⟨?_, ?_⟩
  · intro e he x hx
    exact Or.inl (h1 e he hx)
  · intro e he f hf x hx
    exact Or.inl (h2 e he f hf hx)

/-- A pending fact that is already in the graph fires nothing (`add_to_graph` returns early). -/
theorem step_known {unary : α → Set α} {binary : α → α → Set α} {E W W' : Set α} {c : α}
    (hinv : Inv unary binary E W) (hc : c ∈ E) (hW : W \ {c} ⊆ W') : Inv unary binary E W' := by
  obtain ⟨h1, h2⟩ := hinv
  have key : ∀ x, x ∈ E ∪ W → x ∈ E ∪ W' := by
    intro x hx
    rcases hx with hx | hx
    · exact Or.inl hx
    · by_cases hxc : x = c
      · subst hxc; exact Or.inl hc
      · exact Or.inr (hW ⟨hx, by simpa using hxc⟩)
  refine ⟨?_, ?_⟩
  · intro e he x hx; exact key x (h1 e he hx)
  · intro e he f hf x hx; exact key x (h2 e he f hf hx)

/-- A new fact `c` is inserted; its unary consequences and its binary consequences with every fact of the graph
(including itself), in both orders, become pending - or any superset of them. -/
theorem step_new {unary : α → Set α} {binary : α → α → Set α} {E W W' : Set α} {c : α}
    (hinv : Inv unary binary E W)
    (hW : W \ {c} ⊆ W')
    (hu : unary c ⊆ insert c E ∪ W')
    (hb : ∀ f ∈ insert c E, binary c f ⊆ insert c E ∪ W' ∧ binary f c ⊆ insert c E ∪ W') :
    Inv unary binary (insert c E) W' := by
  obtain ⟨h1, h2⟩ := hinv
  have key : ∀ x, x ∈ E ∪ W → x ∈ insert c E ∪ W' := by
    intro x hx
    rcases hx with hx | hx
    · exact Or.inl (Set.mem_insert_of_mem c hx)
    · by_cases hxc : x = c
      · subst hxc; exact Or.inl (Set.mem_insert _ _)
      · exact Or.inr (hW ⟨hx, by simpa using hxc⟩)
  refine ⟨?_, ?_⟩
  · intro e he x hx
    rcases Set.mem_insert_iff.mp he with rfl | he
    · exact hu hx
    · exact key x (h1 e he hx)
  · intro e he f hf x hx
    rcases Set.mem_insert_iff.mp he with rfl | he'
    · exact (hb f hf).1 hx
    · rcases Set.mem_insert_iff.mp hf with rfl | hf'
      · exact (hb e he).2 hx
      · exact key x (h2 e he' f hf' hx)

/-- derivability from a set of facts -/
inductive Der (unary : α → Set α) (binary : α → α → Set α) (A : Set α) : α → Prop
  | base {x} : x ∈ A → Der unary binary A x
  | un {e x} : Der unary binary A e → x ∈ unary e → Der unary binary A x
  | bin {e f x} : Der unary binary A e → Der unary binary A f → x ∈ binary e f → Der unary binary A x

/-- Soundness of a step: if everything in the graph or pending is derivable and only consequences of derivable
facts are made pending, everything stays derivable. -/
theorem sound_step {unary : α → Set α} {binary : α → α → Set α} {A E W W' : Set α} {c : α}
    (hs : ∀ x ∈ E ∪ W, Der unary binary A x) (hc : c ∈ W)
    (hnew : ∀ x ∈ W', x ∈ W ∨ x ∈ unary c ∨ ∃ f ∈ insert c E, x ∈ binary c f ∨ x ∈ binary f c) :
    ∀ x ∈ insert c E ∪ W', Der unary binary A x := by
  have dc : Der unary binary A c := hs c (Or.inr hc)
  have dE : ∀ f ∈ insert c E, Der unary binary A f := by
    intro f hf
    rcases Set.mem_insert_iff.mp hf with rfl | hf
    · exact dc
    · exact hs f (Or.inl hf)
  intro x hx
  rcases hx with hx | hx
  · exact dE x hx
  · rcases hnew x hx with h | h | ⟨f, hf, h | h⟩
    · exact hs x (Or.inr h)
    · exact Der.un dc h
    · exact Der.bin dc (dE f hf) h
    · exact Der.bin (dE f hf) dc h

/-- A closed set that contains `A` contains everything derivable from `A`. -/
theorem der_subset_closed {unary : α → Set α} {binary : α → α → Set α} {A E : Set α}
    (hA : A ⊆ E) (hE : Closed unary binary E) : ∀ x, Der unary binary A x → x ∈ E := by
  intro x hx
  induction hx with
  | base h => exact hA h
  | un _ hx ih => exact hE.1 _ ih hx
  | bin _ _ hx ih1 ih2 => exact hE.2 _ ih1 _ ih2 hx

/-- Final statement: if the procedure ends (nothing pending) in a graph `E` that contains the old graph and the asserted
fact, with the invariant and soundness maintained, then `E` is exactly the set of facts derivable from them. -/
theorem exact_closure {unary : α → Set α} {binary : α → α → Set α} {A E : Set α}
    (hA : A ⊆ E) (hinv : Inv unary binary E ∅) (hs : ∀ x ∈ E ∪ (∅ : Set α), Der unary binary A x) :
    ∀ x, x ∈ E ↔ Der unary binary A x := by
  intro x
  constructor
  · intro hx; exact hs x (Or.inl hx)
  · intro hx; exact der_subset_closed hA (closed_of_inv_empty hinv) x hx

end C15
