"""C13 — domain-less variables range over exactly the live instances of their type.

Uses the SymbolGraph representation invariant of sgmodel.py (proved preserved by add_node / remove_node / add_relation in
C14).  The clauses that carry C13:
  * Symbol.__new__ / update_cache register every non-predicate instance exactly once (so every live instance created
    while the graph exists is registered: I5),
  * remove_dead_instances: from any WF state, afterwards exactly the wrappers with a live referent are registered (loop
    invariant over the node snapshot, remove_node inlined with its own invariants),
  * get_instances_of_type(T) from a swept WF state yields each registered instance whose exact type is T or a strict
    subclass exactly once (Sound / Unique / Complete per yield site; recursive_subclasses by contract),
  * recursive_subclasses: every strict subclass exactly once (executed on every hierarchy shape of <= 4 classes below
    the root: bounded in the size of the hierarchy, diamonds included),
  * let(T, None) takes its domain from get_instances_of_type(T); ResultQuantifier.evaluate sweeps first (C09 harness).
"""
from __future__ import annotations
import itertools
import z3

from pyvc.framework import Harness
from pyvc.interp import Spec, PyRaise, INLINE, LoopSpec
from pyvc.ctx import PathEnd
from pyvc.values import SInt, SBool, STerm, Obj, Opaque, SymStream, PyList, Builtin
from pyvc.ops import zint, zbool
from .sgmodel import World, State, wf, wid_of, SG, V, Wr, In, Cl, Fd, Nd, Ad, NOW
from .C14 import remove_node_loop_specs

PROPERTY = "C13"
PRED = "krrood.entity_query_language.predicate"
ENT = "krrood.entity_query_language.entity"
FUNCTIONS = [(SG, "SymbolGraph.remove_dead_instances"), (SG, "SymbolGraph.remove_node"), (SG, "SymbolGraph.get_instances_of_type"),
             (SG, "SymbolGraph.clear"), ("krrood.utils", "recursive_subclasses"), (PRED, "Symbol.__new__"), (PRED, "update_cache"),
             (ENT, "let"), (ENT, "_get_domain_source_from_domain_and_type_values")]
ASSUMPTIONS = [
    "the assumptions of C14 (rustworkx, id(), weakref, builtin containers)",
    "cls.__subclasses__() lists the direct subclasses of cls, each once",
    "dict.fromkeys keeps the first occurrence of each key in order",
    "instances are registered by Symbol.__new__ only: an instance created before SymbolGraph().clear() is unknown to the new "
    "graph (clear() resets the universe the property speaks about)",
    "between the sweep and the consumption of get_instances_of_type no instance dies (death is an environment step "
    "between API calls; a referent that dies meanwhile is yielded as None)",
]
TRUSTED = ["assumed contracts listed in C14; type.__subclasses__"]
BOUNDED_ONLY_CLAUSES = ["recursive_subclasses is executed on all class hierarchies with <= 4 classes below the root (shape-exhaustive, not unbounded)",
                        "re-evaluation of a query caches the domain of the first evaluation (Variable._domain_): that is C03's finding, not decided here"]


# ------------------------------------------------------------------ remove_dead_instances
def h_sweep():
    box = [None, {}]
    spec = Spec()
    spec.loops.update(remove_node_loop_specs(box))
    (f,) = V("f", Fd)
    (w,) = V("w", Wr)

    def W_cur(world, k):
        pre = world.pre
        posn = world.node_pos
        return lambda x: z3.And(pre.W(x), z3.Or(pre.live(pre.ref(x)), posn(pre.idx(x)) >= k))

    def sweep_inv(vm, fr):
        world = box[0]
        key = next((kk for kk in vm.ctx.ghost if isinstance(kk, tuple) and kk[0] == "consumed" and kk[1].startswith("nodes")), None)
        k = vm.ctx.ghost.get(key, 0) if key else 0
        k = z3.IntVal(k) if isinstance(k, int) else k
        P = world.post_state(W_cur(world, k))
        return z3.And(list(wf(P).values()))

    def sweep_modifies(vm, fr, names, attrs, conts):
        box[0].havoc(["inst", "cnt", "nodeAt", "edge", "rel", "relp"])
        return names, set(), set()
    spec.loops[("SymbolGraph.remove_dead_instances", 0)] = LoopSpec(inv=sweep_inv, modifies=sweep_modifies,
                                                                   name="WF of the graph minus the dead wrappers visited so far")
    # the same invariants keyed by WHAT is iterated (a loop that was moved into a helper keeps its invariant)
    by_stream = remove_node_loop_specs(box)
    spec.stream_loops["in_edges"] = by_stream[("SymbolGraph.remove_node", 0)]
    spec.stream_loops["out_edges"] = by_stream[("SymbolGraph.remove_node", 1)]
    spec.stream_loops["nodes"] = spec.loops[("SymbolGraph.remove_dead_instances", 0)]

    def run(vm):
        ctx = vm.ctx
        world = World(vm)
        box[0] = world
        box[1].clear()
        world.assume_wf()
        pre = world.pre
        g = world.graph_obj.fields["_instance_graph"]
        orig = g.m_getattr

        def m_getattr(vm_, name):
            b = orig(vm_, name)
            if name in ("in_edges", "out_edges", "nodes"):
                def wrapped(it, fr, a, kw, _b=b, _n=name):
                    s_ = _b.fn(it, fr, a, kw)
                    if _n == "nodes":
                        world.node_pos = s_.meta["pos"]
                    else:
                        box[1]["in" if _n == "in_edges" else "out"] = s_.meta["pos"]
                    return s_
                return Builtin(b.name, wrapped)
            return b
        g.m_getattr = m_getattr

        # remove_node is inlined; its loop invariants speak about the state at *its* entry
        def on_remove_node(it, a, k):
            world.entry = world.S.copy()
            world.w0 = a[1]
            return INLINE
        vm.spec.stubs["SymbolGraph.remove_node"] = on_remove_node
        vm.call_method(world.graph_obj, "remove_dead_instances")
        ctx.cover("returned")
        P = world.post_state(lambda x: z3.And(pre.W(x), pre.live(pre.ref(x))))
        world.check_wf("SymbolGraph.remove_dead_instances", P)
        ctx.check("SymbolGraph.remove_dead_instances::exactly-the-live-wrappers-stay-registered",
                  z3.ForAll([w], z3.Implies(P.W(w), pre.live(pre.ref(w)))))
        ctx.check("SymbolGraph.remove_dead_instances::live-wrappers-keep-their-index-entries",
                  z3.ForAll([w], z3.Implies(z3.And(pre.W(w), pre.live(pre.ref(w))),
                                            z3.And(P.nodeAt(pre.idx(w)) == w, P.inst(pre.addr(pre.ref(w))) == w, P.cnt(pre.typ(w), w) == 1))))
    return Harness("sweep", run, spec=spec, covers=["returned"], timeout_ms=30000)


# ------------------------------------------------------------------ get_instances_of_type
class ClassSeq(Opaque):
    """[T] + recursive_subclasses(T) by the contract of recursive_subclasses: T first, then every strict subclass once."""

    def __init__(self, world, T, with_head):
        super().__init__("model:class-sequence")
        self.world, self.T, self.with_head = world, T, with_head

    def stream(self, vm):
        ctx = vm.ctx
        world = self.world
        key = ("classseq", self.with_head)
        if key in world.__dict__.setdefault("_seqs", {}):
            return world._seqs[key]
        m = ctx.fresh_int("n_classes")
        cat = z3.Function(ctx._name("class_at"), z3.IntSort(), Cl)
        posc = z3.Function(ctx._name("class_pos"), Cl, z3.IntSort())
        i = z3.Int("i")
        (c,) = V("c", Cl)
        T = self.T
        sub = world.strictsub
        lo = 1 if self.with_head else 0
        if self.with_head:
            ctx.assume(z3.And(m >= 1, cat(0) == T, posc(T) == 0))
        ctx.assume(z3.Not(sub(T, T)))
        ctx.assume(z3.ForAll([i], z3.Implies(z3.And(lo <= i, i < m), z3.And(sub(cat(i), T), posc(cat(i)) == i))))
        ctx.assume(z3.ForAll([c], z3.Implies(sub(c, T), z3.And(lo <= posc(c), posc(c) < m, cat(posc(c)) == c))))
        world.class_pos = posc
        world._seqs[key] = SymStream("classes", lambda vm_, ix: STerm(cat(ix)), length=m, meta={"kind": "list", "at": cat, "pos": posc})
        return world._seqs[key]

    def m_iter(self, vm):
        self.world.iterated_seq = self.stream(vm)
        return self.world.iterated_seq


def h_get_instances():
    def run(vm):
        ctx = vm.ctx
        world = World(vm)
        world.assume_wf()
        pre = world.pre
        world.strictsub = z3.Function("strict_subclass", Cl, Cl, z3.BoolSort())
        (w,) = V("w", Wr)
        ctx.assume(z3.ForAll([w], z3.Implies(pre.W(w), pre.live(pre.ref(w)))))       # swept (proved by h_sweep)
        T = ctx.fresh_const("T", Cl, register=True)
        vm.spec.stubs["krrood.utils:recursive_subclasses"] = lambda it, a, k: ClassSeq(world, T, False)

        def binop(it, op, a, b):
            if isinstance(a, PyList) and isinstance(b, ClassSeq) and len(a.items) == 1 and isinstance(a.items[0], STerm) and z3.eq(a.items[0].t, T):
                return ClassSeq(world, T, True)
            raise AssertionError("unexpected binop")
        vm.spec.opaque_hooks["binop"] = binop
        target = lambda x: z3.And(pre.W(x), z3.Or(pre.typ(x) == T, world.strictsub(pre.typ(x), T)))
        cm = world.graph_obj.fields["_class_to_wrapped_instances"]
        requested = []
        orig_getitem = cm.m_getitem

        def getitem(vm_, k):
            requested.append(world.cls_code(vm_, k))
            return orig_getitem(vm_, k)
        cm.m_getitem = getitem

        def one_generic_yield(tag):
            """consume the generator; returns (wrapper id of the yielded instance, (i, j)) on the arbitrary-iteration path."""
            gen = vm.call_method(world.graph_obj, "get_instances_of_type", STerm(T))
            before = len(ctx.notes)
            seen = []
            for v in vm.iterate(gen):
                ks = {kk[1]: vv for kk, vv in ctx.ghost.items() if isinstance(kk, tuple) and kk[0] == "consumed"}
                i = next(z3.simplify(vv - 1) for n, vv in ks.items() if n == "classes")
                jn = [n for n in ks if n.startswith("classlist")]
                j = z3.simplify(ks[jn[-1]] - 1)
                seen.append((v, i, j))
                break
            return seen, before
        # ---- first generic occurrence
        try:
            seen, before = one_generic_yield("a")
        except PathEnd:
            modes = [n for n in ctx.notes if n[0] == "iter"]
            if len(modes) >= 2:
                ctx.fail("SymbolGraph.get_instances_of_type::every-wrapper-of-every-listed-class-is-yielded",
                         detail="an iteration of both loops ended without a yield")
            raise
        if not seen:
            ctx.cover("exhausted")
            return
        ctx.cover("yielded")
        v1, i1, j1 = seen[0]
        ok_obj = isinstance(v1, Obj) and "iid" in v1.fields
        ctx.check("SymbolGraph.get_instances_of_type::yields-instances", z3.BoolVal(ok_obj), detail=repr(v1))
        if not ok_obj:
            return
        iid1 = v1.fields["iid"]
        seq = world.iterated_seq
        (c,) = V("c", Cl)
        ctx.check("SymbolGraph.get_instances_of_type::complete-the-classes-iterated-are-T-and-every-strict-subclass",
                  z3.ForAll([c], z3.Implies(z3.Or(c == T, world.strictsub(c, T)),
                                            z3.And(0 <= seq.meta["pos"](c), seq.meta["pos"](c) < seq.length, seq.meta["at"](seq.meta["pos"](c)) == c))))
        ctx.check("SymbolGraph.get_instances_of_type::complete-the-inner-sequence-is-the-class-list-of-the-iterated-class",
                  z3.BoolVal(bool(requested)) if not requested else requested[-1] == seq.meta["at"](i1))
        ctx.check("SymbolGraph.get_instances_of_type::sound-every-yield-is-a-live-registered-instance-of-T-or-a-subclass",
                  z3.Exists([w], z3.And(target(w), pre.ref(w) == iid1, pre.live(iid1))))
        # ---- a second, independent generic occurrence: uniqueness
        seen2, _ = one_generic_yield("b")
        if seen2:
            v2, i2, j2 = seen2[0]
            if isinstance(v2, Obj) and "iid" in v2.fields:
                ctx.check("SymbolGraph.get_instances_of_type::unique-no-instance-is-yielded-at-two-positions",
                          z3.Implies(v2.fields["iid"] == iid1, z3.And(i1 == i2, j1 == j2)))
    return Harness("get_instances_of_type", run, spec=Spec(), covers=["yielded", "exhausted"], timeout_ms=30000)


def h_get_instances_complete():
    """Complete: every target wrapper sits at some position (i, j) of the two nested sequences (consequence of the stream
    contracts + I3); together with 'every iteration yields' (previous harness) every target instance is yielded."""
    def run(vm):
        ctx = vm.ctx
        world = World(vm)
        world.assume_wf()
        pre = world.pre
        world.strictsub = z3.Function("strict_subclass", Cl, Cl, z3.BoolSort())
        T = ctx.fresh_const("T", Cl, register=True)
        seq = ClassSeq(world, T, True).stream(vm)
        w0 = ctx.fresh_const("w_target", Wr, register=True)
        ctx.assume(z3.And(pre.W(w0), z3.Or(pre.typ(w0) == T, world.strictsub(pre.typ(w0), T))))
        i0 = world.class_pos(pre.typ(w0))
        ctx.check("SymbolGraph.get_instances_of_type::complete-the-class-of-every-target-wrapper-is-listed",
                  z3.And(0 <= i0, i0 < seq.length, seq.meta["at"](i0) == pre.typ(w0)))
        lst = world.graph_obj.fields["_class_to_wrapped_instances"].m_getitem(vm, STerm(pre.typ(w0))).m_iter(vm)
        j0 = lst.meta["pos"](w0)
        ctx.check("SymbolGraph.get_instances_of_type::complete-every-target-wrapper-is-in-the-list-of-its-class",
                  z3.And(0 <= j0, j0 < lst.length, lst.meta["at"](j0) == w0))
    return Harness("get_instances_of_type-complete", run, spec=Spec(), timeout_ms=30000)


# ------------------------------------------------------------------ recursive_subclasses (shape-exhaustive, bounded)
def hierarchies(n):
    """all DAG hierarchies over classes 1..n below root 0: parents[i] is a non-empty subset of {0..i-1}"""
    choices = []
    for i in range(1, n + 1):
        subsets = [s for r in range(1, i + 1) for s in itertools.combinations(range(i), r)]
        choices.append(subsets)
    for combo in itertools.product(*choices):
        yield {i + 1: set(p) for i, p in enumerate(combo)}


def h_recursive_subclasses():
    def run(vm):
        ctx = vm.ctx
        rs = vm.module_global("krrood.utils", "recursive_subclasses")
        shapes = 0
        for n in range(0, 4):
            for parents in hierarchies(n):
                shapes += 1
                classes = [vm.alloc(vm.ext("type"), {"cid": i}, tag=f"K{i}") for i in range(n + 1)]
                children = {i: [classes[j] for j in range(1, n + 1) if i in parents[j]] for i in range(n + 1)}

                def getattr_hook(it, v, name):
                    raise AssertionError(name)
                for c in classes:
                    c.fields["__subclasses__"] = Builtin("__subclasses__", lambda it, fr, a, k, _c=c: PyList(children[_c.fields["cid"]]))
                desc = {i: set() for i in range(n + 1)}
                for j in range(1, n + 1):      # descendants via transitive closure
                    stack = list(parents[j])
                    while stack:
                        p = stack.pop()
                        if j not in desc[p]:
                            desc[p].add(j)
                            stack.extend(parents.get(p, ()))
                for root in range(n + 1):
                    r = vm.call(rs, [classes[root]], {})
                    got = [x.fields["cid"] for x in vm.to_list(r)]
                    ok = sorted(got) == sorted(desc[root]) and len(set(got)) == len(got)
                    ctx.check("recursive_subclasses::every-strict-subclass-exactly-once", z3.BoolVal(ok),
                              detail=f"hierarchy parents={parents} root=K{root}: returned {['K%d' % g for g in got]}, strict subclasses {sorted(desc[root])}")
        ctx.inputs["hierarchy_shapes"] = shapes
    return Harness("recursive_subclasses", run, spec=Spec())


# ------------------------------------------------------------------ registration and domain source
def h_registration():
    def run(vm):
        ctx = vm.ctx
        added = []
        from .C12 import install as install_signature
        install_signature(vm)
        g = vm.alloc(vm.ext("object"), {}, tag="graph")
        g.fields["add_node"] = Builtin("add_node", lambda it, fr, a, k: added.append(a[0]))
        vm.spec.stubs["SymbolGraph.__call__"] = lambda it, a, k: g
        vm.loader.add_module("pyvc_synth_c13", '''
from dataclasses import dataclass
from krrood.entity_query_language.predicate import Symbol, Predicate


@dataclass(eq=False)
class Thing(Symbol):
    x: int = 0


@dataclass(eq=False)
class Sub(Thing):
    y: int = 0


@dataclass(eq=False)
class Pred(Predicate):
    a: int = 0

    def __call__(self):
        return True
''')
        for cname, expect in (("Thing", 1), ("Sub", 1), ("Pred", 0)):
            del added[:]
            C = vm.loader.cls("pyvc_synth_c13", cname)
            o = vm.call(C, [], {})
            ok = len(added) == expect and (expect == 0 or (added[0].cls.name == "WrappedInstance" and vm._getattr(added[0], "instance") is o
                                                           and added[0].fields["instance_type"] is C))
            ctx.check(f"Symbol.__new__::{'registers-the-instance-exactly-once' if expect else 'does-not-register-predicates'}",
                      z3.BoolVal(ok and isinstance(o, Obj) and o.cls is C), detail=f"{cname}: add_node calls {added}")
    return Harness("registration", run, spec=Spec())


def h_let_domain():
    def run(vm):
        ctx = vm.ctx
        calls = []
        g = vm.alloc(vm.ext("object"), {}, tag="graph")
        token = vm.alloc(vm.ext("object"), {}, tag="instances-of-type")
        g.fields["get_instances_of_type"] = Builtin("get_instances_of_type", lambda it, fr, a, k: (calls.append(a[0]), token)[1])
        vm.spec.stubs["SymbolGraph.__call__"] = lambda it, a, k: g
        vm.loader.add_module("pyvc_synth_c13b", '''
from dataclasses import dataclass
from krrood.entity_query_language.predicate import Symbol


@dataclass(eq=False)
class Thing(Symbol):
    x: int = 0
''')
        Thing = vm.loader.cls("pyvc_synth_c13b", "Thing")
        f = vm.module_global(ENT, "_get_domain_source_from_domain_and_type_values")
        src = vm.call(f, [None, Thing], {})
        ok = calls == [Thing] and isinstance(src, Obj) and src.cls.name == "From" and src.fields["domain"] is token
        ctx.check("let::domain-less-symbol-variable-ranges-over-get_instances_of_type-of-its-type", z3.BoolVal(ok), detail=f"{calls} {src!r}")
        made = []
        vm.spec.stubs["Variable.__call__"] = lambda it, a, k: (made.append(k), it.alloc(vm.loader.cls("krrood.entity_query_language.symbolic", "Variable"), dict(k)))[1]
        v = vm.call(vm.module_global(ENT, "let"), [Thing, None], {})
        ok2 = len(made) == 1 and made[0].get("_type_") is Thing and isinstance(made[0].get("_domain_source_"), Obj) and made[0]["_domain_source_"].fields["domain"] is token
        ctx.check("let::passes-that-source-to-the-variable", z3.BoolVal(ok2), detail=repr(made))
    return Harness("let-domain", run, spec=Spec())


def h_live_domain():
    """a variable without an explicit domain is RE-BOUND to get_instances_of_type(its type) whenever an evaluation starts -- whatever an
    earlier evaluation cached (nothing at all, when no instance existed then; or instances that died since) -- and the query
    descriptor announces the evaluation to every node of every selected expression, conditions or not"""
    def run(vm):
        ctx = vm.ctx
        SYM_ = "krrood.entity_query_language.symbolic"
        HD_ = "krrood.entity_query_language.hashed_data"
        calls = []
        g = vm.alloc(vm.ext("object"), {}, tag="graph")

        def gi(it, fr, a, k):
            calls.append(a[0])
            return PyList([vm.alloc(vm.ext("object"), {}, tag=f"live-instance-{len(calls)}")])
        g.fields["get_instances_of_type"] = Builtin("get_instances_of_type", gi)
        vm.spec.stubs["SymbolGraph.__call__"] = lambda it, a, k: g
        T = vm.alloc(vm.ext("type"), {"__name__": "T"}, tag="type-T")
        HI = vm.loader.cls(HD_, "HashedIterable")
        for cached in ("nothing (no instance existed at the earlier evaluation)", "one instance"):
            old = vm.call(HI, [], {})
            if cached.startswith("one"):
                vm.call_method(old, "set_iterable", PyList([vm.alloc(vm.ext("object"), {}, tag="cached-instance")]))
                list(vm.iterate(vm.call_method(old, "__iter__")))
            src = vm.alloc(vm.loader.cls(SYM_, "From"), {"domain": old, "live_type": T}, tag="source")
            var = vm.alloc(vm.loader.cls(SYM_, "Variable"), {"_id_": 5, "_domain_": old, "_domain_source_": src, "_predicate_type_": None, "_name__": "x"}, tag="variable")
            del calls[:]
            vm.call_method(var, "_start_evaluation_")
            new = var.fields["_domain_"]
            vals = [v_.fields.get("value") for v_ in vm.iterate(vm.call_method(new, "__iter__"))] if isinstance(new, Obj) else None
            ok = calls == [T] and new is not old and vals is not None and len(vals) == 1 and getattr(vals[0], "tag", "").startswith("live-instance")
            ctx.check("Variable._start_evaluation_::a-domain-less-variable-is-re-bound-to-the-instances-that-exist-now-whatever-was-cached", z3.BoolVal(bool(ok)),
                      detail=f"cached: {cached}; asked the graph for {calls}; domain replaced: {new is not old}; ranges over {vals!r}")
        # the descriptor tells the nodes of its selected expressions
        told = []
        nodes = [vm.alloc(vm.ext("object"), {"_start_evaluation_": Builtin("start", lambda it, fr, a, k, i=i: told.append(i))}, tag=f"node{i}") for i in range(3)]
        sel1 = vm.alloc(vm.ext("object"), {"_all_nodes_": PyList(nodes[:2])}, tag="selected-1")
        sel2 = vm.alloc(vm.ext("object"), {"_all_nodes_": PyList(nodes[2:])}, tag="selected-2")
        for has_condition in (False, True):
            d = vm.alloc(vm.loader.cls(SYM_, "SetOf"), {"_id_": 9, "selected_variables": PyList([sel1, sel2]),
                                                        "_child_": vm.alloc(vm.loader.cls(SYM_, "SymbolicExpression"), {"_id_": 8}, tag="condition") if has_condition else None}, tag="descriptor")
            del told[:]
            vm.call_method(d, "_start_evaluation_")
            ctx.check("QueryObjectDescriptor._start_evaluation_::every-node-of-every-selected-expression-is-told-with-or-without-conditions",
                      z3.BoolVal(sorted(told) == [0, 1, 2]), detail=f"conditions: {has_condition}; told {told}")
    return Harness("live-domain", run, spec=Spec())


def h_canary():
    def run(vm):
        ctx = vm.ctx
        world = World(vm)
        world.assume_wf()
        pre = world.pre
        (w,) = V("w", Wr)
        # deliberately false: claims every registered wrapper is live in every WF state (no sweep needed)
        ctx.check("CANARY", z3.ForAll([w], z3.Implies(pre.W(w), pre.live(pre.ref(w)))))
    return Harness("canary", run, expect_fail=True)


def harnesses():
    return [h_sweep(), h_get_instances(), h_get_instances_complete(), h_recursive_subclasses(), h_registration(), h_let_domain(), h_live_domain(), h_canary()]
