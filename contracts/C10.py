"""C10 — queries are lazy: building evaluates nothing, consuming pulls only what it needs.

Construction half (effect contract, every path): the public builders are executed on the real constructors with *opaque user
data* (domain containers, literals, attribute / keyword values of class UserVal).  Every operation on such a value that can
dispatch into user code (attribute read, call, iteration, truth test, len, comparison, hashing, `in`) is logged by the engine;
the obligation is: the log is empty on every path.  Allowed: isinstance / type / id and hasattr(container, "__iter__").

Evaluation half (laziness discipline): the operator bodies are executed with abstract child streams and abstract domains; any
materialising consumer (list / tuple / set / sorted / itertools.product / `in`) applied to a child stream or a domain is logged;
the obligation is: none, except where the operator inherently needs the whole stream (ForAll; stated).  With generator `for`
loops only, the first k results are a prefix and pull only a prefix.
"""
from __future__ import annotations
import z3

from pyvc.framework import Harness
from pyvc.interp import Spec, PyRaise, INLINE
from pyvc.values import Obj, PyList, PySet, Builtin, Opaque, SymStream, GenObj, SBool
from pyvc.ops import make_dict
from pyvc.repo import ClassInfo
from .lib import UserVal, install_user_hooks, user_effects, AnySeq

PROPERTY = "C10"
SYM = "krrood.entity_query_language.symbolic"
ENT = "krrood.entity_query_language.entity"
HD = "krrood.entity_query_language.hashed_data"
FUNCTIONS = [(ENT, "let"), (ENT, "_get_domain_source_from_domain_and_type_values"), (ENT, "entity"), (ENT, "set_of"), (ENT, "_extract_variables_and_expression"),
             (ENT, "and_"), (ENT, "or_"), (ENT, "not_"), (ENT, "contains"), (ENT, "in_"), (ENT, "flatten"), (ENT, "for_all"), (ENT, "exists"), (ENT, "inference"),
             ("krrood.entity_query_language.quantify_entity", "an"), ("krrood.entity_query_language.quantify_entity", "the"),
             (SYM, "SymbolicExpression.__post_init__"), (SYM, "SymbolicExpression._update_children_"), (SYM, "Variable.__post_init__"),
             (SYM, "Variable._update_domain_"), (SYM, "Variable._update_child_vars_from_kwargs_"), (SYM, "Literal.__init__"),
             (SYM, "BinaryOperator.__post_init__"), (SYM, "CanBehaveLikeAVariable.__getattr__"), (SYM, "CanBehaveLikeAVariable.__eq__"),
             (SYM, "CanBehaveLikeAVariable.__call__"), (SYM, "CanBehaveLikeAVariable.__getitem__"), (SYM, "optimize_or"),
             (SYM, "Exists._evaluate__"), (SYM, "Flatten._apply_mapping_"), (SYM, "Index._name_"), (SYM, "Call._name_"), (SYM, "Attribute._name_"),
             (SYM, "Comparator._name_"), (SYM, "QueryObjectDescriptor._name_"), (SYM, "Flatten._name_"),
             (HD, "HashedIterable.__post_init__"), (HD, "HashedIterable.set_iterable"), (HD, "HashedValue.__post_init__"),
             ("krrood.entity_query_language.utils", "is_iterable"), ("krrood.entity_query_language.utils", "make_list")]
ASSUMPTIONS = [
    "RWXNode (display graph) and the class-diagram lookups of Attribute are abstracted; the node labels handed to it are computed by the real _name_ properties (formatting a user value with f-string / str / repr is an effect)",
    "isinstance / type / id / hasattr(x, '__iter__') do not run user code (true for ordinary classes without metaclass tricks)",
    "copying a list or tuple literal with list(...) is a builtin operation, not an iteration of user code",
]
TRUSTED = ["effect log of the engine: every value-dependent operation on an opaque user value goes through the logged hooks"]
BOUNDED_ONLY_CLAUSES = ["how many domain elements the first k results pull (prefix bound) is measured by the bounded event-log driver "
                        "(deductively: no operator consumes a lazily produced child stream eagerly, and the result quantifier yields every "
                        "child result before it pulls the next one)",
                        "predicates over unbound variables use itertools.product (generate_combinations) and drain their argument domains: finding"]

SYNTH = '''
from dataclasses import dataclass


@dataclass(eq=False)
class Thing:
    a: int = 0
    b: int = 0
'''


def setup(vm):
    install_user_hooks(vm, fork_truth=False)
    from .C08 import Forest
    Forest(vm)                      # RWXNode abstraction, id generator
    # the node labels are computed by the real `_name_` properties at construction (they must not format user data)
    vm.spec.attr_hooks.pop(("SymbolicExpression", "_name_"), None)
    vm.loader.add_module("pyvc_synth_c10", SYNTH)
    vm.spec.attr_hooks[("Attribute", "_wrapped_owner_class_")] = lambda it, o: None
    # the class diagram is abstracted: every attribute has a scalar wrapped field of unknown type
    scalar_field = vm.alloc(vm.ext("object"), {"is_iterable": False, "type_endpoint": None, "is_optional": False}, tag="wrapped-field")
    vm.spec.attr_hooks[("Attribute", "_wrapped_field_")] = lambda it, o: scalar_field
    vm.spec.attr_hooks[("Attribute", "_relation_")] = lambda it, o: None
    vm.spec.attr_hooks[("Attribute", "_wrapped_type_")] = lambda it, o: None
    # assumed contract of inspect.signature (as in C12): the ordered parameter names of that callable
    from . import C12 as _C12

    def signature(it, fr, a, k):
        o = it.alloc(it.ext("object"), {}, tag="signature")
        o.fields["parameters"] = make_dict([(n, None) for n in _C12.names_of(it, a[0])])
        return o
    vm.builtins = dict(vm.builtins)
    vm.builtins["inspect.signature"] = Builtin("inspect.signature", signature)
    SE = vm.loader.cls(SYM, "SymbolicExpression")
    SE.class_attr_vals["_symbolic_expression_stack_"] = PyList([])
    SE.class_attr_vals["_id_expression_map_"] = make_dict([])
    # builtin type() of a user value is allowed
    return vm.loader.cls("pyvc_synth_c10", "Thing")


def g(vm, mod, name):
    return vm.module_global(mod, name)


def builders(vm, Thing):
    """(label, thunk) pairs covering the public construction vocabulary; thunks return the built node"""
    dom = UserVal("domain", iterable=True)
    lit = UserVal("literal")
    lit_list = PyList([UserVal("elem0"), UserVal("elem1")])
    let = g(vm, ENT, "let")
    x = vm.call(let, [Thing, dom], {})
    y = vm.call(let, [Thing, PyList([UserVal("y0")])], {})
    out = [("let(T, user-iterable)", lambda: vm.call(let, [Thing, UserVal("domain2", iterable=True)], {})),
           ("let(T, list)", lambda: vm.call(let, [Thing, PyList([UserVal("e")])], {})),
           ("x.a", lambda: vm._getattr(x, "a")),
           ("x.a.b", lambda: vm._getattr(vm._getattr(x, "a"), "b")),
           ("x.a == literal", lambda: vm.equals(vm._getattr(x, "a"), lit)),
           ("x.a == y.a", lambda: vm.equals(vm._getattr(x, "a"), vm._getattr(y, "a"))),
           ("x.a < literal", lambda: vm.compare(__import__("ast").Lt(), vm._getattr(x, "a"), lit)),
           ("x == literal-list", lambda: vm.equals(x, lit_list)),
           ("contains(literal-list, x.a)", lambda: vm.call(g(vm, ENT, "contains"), [lit_list, vm._getattr(x, "a")], {})),
           ("contains(x.items, literal)", lambda: vm.call(g(vm, ENT, "contains"), [vm._getattr(x, "items"), lit], {})),
           ("in_(x.a, user-container)", lambda: vm.call(g(vm, ENT, "in_"), [vm._getattr(x, "a"), UserVal("container", iterable=True)], {})),
           ("x.items[0]", lambda: vm.getitem(vm._getattr(x, "items"), 0)),
           ("x.items[user-key]", lambda: vm.getitem(vm._getattr(x, "items"), UserVal("key"))),
           ("x.method(literal, key=literal)", lambda: vm.call(vm._getattr(x, "method"), [lit], {"key": UserVal("kwarg")})),
           ("x.method(literal)", lambda: vm.call(vm._getattr(x, "method"), [lit], {})),
           ("flatten(x.items)", lambda: vm.call(g(vm, ENT, "flatten"), [vm._getattr(x, "items")], {})),
           ("flatten(user-container)", lambda: vm.call(g(vm, ENT, "flatten"), [UserVal("nested", iterable=True)], {})),
           ("and_/or_/not_", lambda: vm.call(g(vm, ENT, "not_"), [vm.call(g(vm, ENT, "or_"), [vm.call(g(vm, ENT, "and_"), [vm.equals(vm._getattr(x, "a"), lit), vm.equals(vm._getattr(y, "a"), lit)], {}),
                                                                                            vm.equals(vm._getattr(x, "b"), lit)], {})], {})),
           ("not_(literal)", lambda: vm.call(g(vm, ENT, "not_"), [UserVal("flag")], {})),
           ("exists / for_all", lambda: vm.call(g(vm, ENT, "for_all"), [y, vm.call(g(vm, ENT, "exists"), [x, vm.equals(vm._getattr(x, "a"), vm._getattr(y, "a"))], {})], {})),
           ("inference(T)(a=x.a, b=literal)", lambda: vm.call(vm.call(g(vm, ENT, "inference"), [Thing], {}), [], {"a": vm._getattr(x, "a"), "b": lit})),
           ("entity_matching(T, user-iterable)(a=variable-over-user-iterable)", lambda: vm.call(g(vm, "krrood.entity_query_language.quantify_entity", "an"),
               [vm.call(vm.call(g(vm, "krrood.entity_query_language.match", "entity_matching"), [Thing, UserVal("domain3", iterable=True)], {}), [], {"a": x, "b": lit})], {})),
           ("entity_matching(T, user-iterable)(a=match(T)(b=variable))", lambda: vm.call(g(vm, "krrood.entity_query_language.quantify_entity", "an"),
               [vm.call(vm.call(g(vm, "krrood.entity_query_language.match", "entity_matching"), [Thing, UserVal("domain4", iterable=True)], {}), [],
                        {"a": vm.call(vm.call(g(vm, "krrood.entity_query_language.match", "match"), [Thing], {}), [], {"b": y})})], {})),
           ("with cond: Add(y, user-constant)", lambda: _conclusion(vm, "Add", vm.equals(vm._getattr(x, "a"), lit), y, UserVal("concluded-value"))),
           ("with cond: Set(y, user-constant)", lambda: _conclusion(vm, "Set", vm.equals(vm._getattr(x, "b"), lit), y, UserVal("assigned-value"))),
           ("with cond: Add(y, x.a)", lambda: _conclusion(vm, "Add", vm.equals(vm._getattr(x, "a"), lit), y, vm._getattr(x, "a"))),
           ("an(entity(x, cond))", lambda: vm.call(g(vm, "krrood.entity_query_language.quantify_entity", "an"),
                                                [vm.call(g(vm, ENT, "entity"), [x, vm.equals(vm._getattr(x, "a"), lit)], {})], {})),
           ("the(set_of([x, x.a], cond))", lambda: vm.call(g(vm, "krrood.entity_query_language.quantify_entity", "the"),
                                                          [vm.call(g(vm, ENT, "set_of"), [PyList([x, vm._getattr(x, "a")]), vm.equals(vm._getattr(y, "a"), lit)], {})], {})),
           ]
    return out


def _conclusion(vm, kind, cond, var, value):
    """a conclusion written inside `with <condition>:` (the stack discipline of __enter__ / __exit__ is C08's subject)"""
    SE = vm.loader.cls(SYM, "SymbolicExpression")
    stack = SE.class_attr_vals["_symbolic_expression_stack_"]
    stack.items.append(cond)
    try:
        return vm.call(vm.loader.cls("krrood.entity_query_language.conclusion", kind), [var, value], {})
    finally:
        stack.items.pop()


def h_construction():
    def run(vm):
        ctx = vm.ctx
        Thing = setup(vm)
        base = len(ctx.effects)
        blds = builders(vm, Thing)
        ctx.check("construction::let-and-variables-touch-no-user-data", z3.BoolVal(not user_effects(ctx)), detail=repr(user_effects(ctx)))
        for label, thunk in blds:
            before = len(user_effects(ctx))
            try:
                r = thunk()
            except PyRaise as pr:
                ctx.fail("construction::no-exception", detail=f"{label}: {pr.exc!r} {pr.exc.fields.get('args')}")
                continue
            new = user_effects(ctx)[before:]
            ctx.check("construction::builders-run-no-user-code", z3.BoolVal(not new), detail=f"{label}: {new}")
            ctx.check("construction::builders-return-expression-nodes", z3.BoolVal(isinstance(r, Obj) and isinstance(r.cls, ClassInfo)), detail=f"{label}: {r!r}")
    return Harness("construction", run, spec=Spec(), max_paths=3000)


def h_symbolic_callables():
    """predicates / symbolic functions with a variable argument and user data: nothing of the body or the data runs"""
    def run(vm):
        ctx = vm.ctx
        Thing = setup(vm)
        from .C12 import install as install_c12
        from .lib import UserFn
        install_user_hooks(vm, fork_truth=False)
        truth_hook = vm.spec.opaque_hooks["truth"]
        install_c12(vm)
        vm.spec.opaque_hooks["truth"] = truth_hook
        made = []
        del vm.spec.stubs["Variable.__call__"]
        x = vm.call(g(vm, ENT, "let"), [Thing, UserVal("domain", iterable=True)], {})
        fn = UserFn("userpred", ["p", "q"])

        def call_hook(it, f, args, kwargs):
            ctx.effect("user", ("call", getattr(f, "name", "?"), None))
            return UserVal("result")
        vm.spec.opaque_hooks["call"] = call_hook
        wrapper = vm.call(g(vm, "krrood.entity_query_language.predicate", "symbolic_function"), [fn], {})
        before = len(user_effects(ctx))
        r = vm.call(wrapper, [vm._getattr(x, "a"), UserVal("threshold")], {})
        ctx.check("construction::symbolic-function-with-a-variable-runs-nothing", z3.BoolVal(len(user_effects(ctx)) == before and isinstance(r, Obj)),
                  detail=repr(user_effects(ctx)[before:]))
        HT = vm.loader.cls("krrood.entity_query_language.predicate", "HasType")
        before = len(user_effects(ctx))
        r = vm.call(HT, [vm._getattr(x, "a"), Thing], {})
        ctx.check("construction::predicate-with-a-variable-runs-nothing", z3.BoolVal(len(user_effects(ctx)) == before and isinstance(r, Obj) and r.cls.name == "Variable"),
                  detail=repr(user_effects(ctx)[before:]))
    return Harness("symbolic-callables", run, spec=Spec(), max_paths=3000)


def h_evaluation_discipline():
    """No operator of the condition fragment materialises a child stream: re-run the C01 step-lemma harnesses with a
    materialisation log (the engine refuses to materialise an abstract stream, so an `undecided` there is a finding here)."""
    from . import C01

    def run(vm):
        ctx = vm.ctx
        names = ["cover-AND", "cover-ElseIf", "cover-Union", "cover-Not", "cover-Comparator[generic]", "value-Variable[operand]", "value-Attribute[operand]",
                 "query-descriptor[2]"]
        hs = {h.name: h for h in C01.harnesses()}
        # each of those harnesses iterates its node's generator; materialisation of an abstract stream raises Unsupported
        # inside them (reported as undecided by C01); here the discipline is stated as its own obligation per operator
        from pyvc.ctx import Unsupported, PathEnd, Infeasible
        for n in names:
            h = hs[n]
            vm2 = type(vm)(vm.loader, ctx, h.spec)
            before = len([e for e in ctx.effects if e[0] == "materialise"])
            try:
                h.fn(vm2)
                mats = [e[1] for e in ctx.effects if e[0] == "materialise"][before:]
                ok, why = (not mats), f"a lazily produced child stream is consumed completely: {mats[:2]}"
            except PathEnd:
                raise
            except Unsupported as e:
                ok, why = ("materialis" not in str(e)), str(e)
            ctx.check(f"evaluation::{n.split('[')[0].replace('cover-', '').replace('value-', '')}-consumes-its-children-lazily", z3.BoolVal(ok), detail=why)
    return Harness("evaluation-discipline", run, spec=Spec(), max_paths=3000, ematching_only=True, timeout_ms=3000, retry_unknown=False)


def h_streaming_exists():
    """Exists._evaluate__ is demand driven: every result is yielded while the condition stream is being pulled -- none after
    it has ended (which is what collecting witnesses first and reporting them afterwards does)."""
    from .eqlmodel import EqlWorld, Bnd
    from pyvc.ctx import PathEnd

    def run(vm):
        ctx = vm.ctx
        world = EqlWorld(vm)
        cond = world.child("condition", 12)
        var = world.child("variable", 11, kind="operand")
        from .eqlmodel import Bs

        def member(it):          # whatever was put aside: some earlier result of the condition
            return it.alloc(world.OR, {"bindings": Bnd(it.ctx.fresh_const("b_held", Bs), world), "is_false": False, "operand": cond}, tag="held-back-result")
        vm.spec.opaque_hooks["havoc_container"] = lambda it, old, what: AnySeq(what, member)
        vm.spec.opaque_hooks["havoc_value"] = lambda it, old, what: AnySeq(what, member) if isinstance(old, (PyList, PySet)) or type(old).__name__ == "PyDict" else None
        node = vm.alloc(vm.loader.cls(SYM, "Exists"), {"variable": var, "condition": cond, "_id_": 10, "_is_false_": False, "_eval_parent_": None, "_conclusion_": None}, tag="Exists")
        gen = vm.call_method(node, "_evaluate__", Bnd(world.sigma0, world))
        try:
            for res in vm.iterate(gen):
                ended = [n for n in ctx.notes if n[0] == "exhausted" and str(n[2]).startswith("condition@")]
                ctx.cover("yielded-while-pulling") if not ended else None
                ctx.check("prompt::Exists._evaluate__::no-result-is-held-back-until-the-condition-stream-has-ended", z3.BoolVal(not ended),
                          detail="a result was yielded after the condition stream was exhausted")
        except PyRaise as pr:
            if pr.exc.cls.name == "KeyError":
                raise PathEnd()          # precondition: the quantified variable occurs in (is bound by) the condition
            raise
        mats = [e[1] for e in ctx.effects if e[0] == "materialise"]
        ctx.check("prompt::Exists._evaluate__::the-condition-stream-is-not-materialised", z3.BoolVal(not mats), detail=repr(mats[:2]))
    return Harness("streaming-Exists", run, spec=Spec(), covers=["yielded-while-pulling"], max_paths=400, ematching_only=True, timeout_ms=3000, retry_unknown=False)


def h_streaming_flatten():
    """Flatten._apply_mapping_ walks the inner iterable with a for loop: element i is yielded before element i+1 is pulled,
    and the inner iterable is never copied (list / tuple / sorted / make_list of it)."""
    def run(vm):
        ctx = vm.ctx
        install_user_hooks(vm, fork_truth=False)
        log = []
        inner = UserVal("inner", iterable=True)

        def iter_value(it, v):
            log.append("iter")
            return SymStream("inner-elements", lambda it2, i: UserVal("inner[i]"), length=ctx.fresh_int("n_inner"))

        def to_list(it, v):
            log.append("copied")
            return [UserVal("inner[0]")]
        vm.spec.opaque_hooks["iter_value"] = iter_value
        vm.spec.opaque_hooks["to_list"] = to_list
        vm.spec.opaque_hooks["collect_stream"] = lambda it, s, kind: (log.append("copied"), PyList([]))[1]
        vm.spec.opaque_hooks["havoc_container"] = lambda it, old, what: AnySeq(what, lambda it2: UserVal("remembered-element"))
        vm.spec.opaque_hooks["havoc_value"] = lambda it, old, what: AnySeq(what, lambda it2: UserVal("remembered-element")) if isinstance(old, (PyList, PySet)) else None
        HV = vm.loader.cls(HD, "HashedValue")
        node = vm.alloc(vm.loader.cls(SYM, "Flatten"), {"_id_": 10, "_is_false_": False}, tag="Flatten")
        value = vm.alloc(HV, {"value": inner, "id_": 7}, tag="hashed-value")
        n = 0
        from pyvc.ctx import PathEnd as _PathEnd
        pulled_before = len([x for x in ctx.notes if x[0] == "iter" and x[2] == "inner-elements"])

        def outputs():
            it_ = vm.iterate(vm.call_method(node, "_apply_mapping_", value))
            while True:
                try:
                    o_ = next(it_)
                except StopIteration:
                    return
                except _PathEnd:
                    pulled = len([x for x in ctx.notes if x[0] == "iter" and x[2] == "inner-elements"]) - pulled_before
                    # the path is cut after an arbitrary element: that element has been reported (every occurrence counts, equal or
                    # not to an earlier one: elements are told apart by identity, never skipped by ==)
                    ctx.check("Flatten._apply_mapping_::every-inner-element-is-reported-once", z3.BoolVal(n == pulled), detail=f"{pulled} elements pulled, {n} reported")
                    raise
                yield o_
        for out in outputs():
            n += 1
            ended = [x for x in ctx.notes if x[0] == "exhausted" and x[2] == "inner-elements"]
            ctx.cover("yielded-while-pulling") if not ended else None
            ctx.check("prompt::Flatten._apply_mapping_::no-element-is-held-back-until-the-inner-iterable-has-ended", z3.BoolVal(not ended))
        ctx.check("prompt::Flatten._apply_mapping_::the-inner-iterable-is-not-copied", z3.BoolVal("copied" not in log), detail=repr(log))
    return Harness("streaming-Flatten", run, spec=Spec(), covers=["yielded-while-pulling"], max_paths=400)


def h_start_evaluation():
    """announcing an evaluation to a variable with an explicit domain pulls nothing from that domain (the first results may never
    need this variable)"""
    def run(vm):
        ctx = vm.ctx
        install_user_hooks(vm)
        HI = vm.loader.cls(HD, "HashedIterable")
        pulled = []

        def source():
            for i in range(3):
                pulled.append(i)
                yield UserVal(f"v{i}")
        hi = vm.call(HI, [GenObj(source(), "user-generator")], {})
        From = vm.loader.cls(SYM, "From")
        src = vm.alloc(From, {"domain": hi, "live_type": None}, tag="domain-source")
        var = vm.alloc(vm.loader.cls(SYM, "Variable"), {"_id_": 5, "_domain_": hi, "_domain_source_": src, "_predicate_type_": None, "_name__": "x",
                                                       "_child_vars_": make_dict([])}, tag="variable")
        before = len(user_effects(ctx))
        vm.call_method(var, "_start_evaluation_")
        ctx.check("Variable._start_evaluation_::pulls-nothing-from-an-explicit-domain", z3.BoolVal(pulled == [] and len(user_effects(ctx)) == before),
                  detail=f"pulled {pulled}, effects {user_effects(ctx)[before:]}")
    return Harness("start-evaluation", run, spec=Spec())


def h_hashed_iterable():
    """HashedIterable.__iter__ replays the cache then pulls from the wrapped iterable one element at a time."""
    def run(vm):
        ctx = vm.ctx
        install_user_hooks(vm)
        HI = vm.loader.cls(HD, "HashedIterable")
        pulled = []

        def source():
            for i in range(3):
                pulled.append(i)
                yield UserVal(f"v{i}")
        hi = vm.call(HI, [GenObj(source(), "user-generator")], {})
        ctx.check("HashedIterable.__post_init__::wrapping-pulls-nothing", z3.BoolVal(pulled == [] and not user_effects(ctx)), detail=f"{pulled} {user_effects(ctx)}")
        it = vm.iterate(vm.call_method(hi, "__iter__"))
        first = next(it)
        ctx.check("HashedIterable.__iter__::first-element-pulls-one", z3.BoolVal(pulled == [0]), detail=repr(pulled))
        second = next(it)
        ctx.check("HashedIterable.__iter__::second-element-pulls-two", z3.BoolVal(pulled == [0, 1]), detail=repr(pulled))
    return Harness("hashed-iterable", run, spec=Spec())


def h_canary():
    def run(vm):
        ctx = vm.ctx
        install_user_hooks(vm)
        u = UserVal("data")
        vm.truth(u)
        # deliberately false: claims a truth test of user data is not an effect
        ctx.check("CANARY", z3.BoolVal(not user_effects(ctx)))
    return Harness("canary", run, expect_fail=True)


def prompt(h):
    """a C09 quantifier harness under the name of the laziness clause it carries: its loop invariant
    (results yielded = child results pulled, at every loop head) says that no result is held back while the child is advanced"""
    def run(vm):
        orig = vm.ctx.check
        vm.ctx.check = lambda oid, f, detail=None: orig("prompt::" + oid, f, detail)
        h.fn(vm)
    return Harness("prompt-" + h.name, run, spec=h.spec, covers=list(h.covers or []), max_paths=h.max_paths, timeout_ms=h.timeout_ms,
                   retry_unknown=h.retry_unknown, ematching_only=h.ematching_only)


def harnesses():
    from . import C09
    hq = {h.name: h for h in C09.harnesses()}
    return [h_construction(), h_symbolic_callables(), h_evaluation_discipline(), h_hashed_iterable(), h_start_evaluation(), h_streaming_exists(), h_streaming_flatten()] + \
        [prompt(hq[n]) for n in ("an-evaluate[none+var]", "an-evaluate[c+upper+var]") if n in hq] + [h_canary()]
