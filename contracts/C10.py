"""C10 — queries are lazy: building evaluates nothing, consuming pulls only what it needs.

Construction half (effect contract, every path): the public builders are executed on the real constructors with *opaque user
data* (domain containers, literals, attribute / keyword values of class UserVal).  Every operation on such a value that can
dispatch into user code (attribute read, call, iteration, truth test, len, comparison, hashing, `in`) is logged by the engine;
the obligation is: the log is empty on every path.  Allowed: isinstance / type / id and hasattr(container, "__iter__").

Evaluation half (laziness discipline): the operator bodies are executed with abstract child streams and abstract domains; any
materialising consumer (list / tuple / set / sorted / itertools.product / `in`) applied to a child stream or a domain is logged;
the obligation is: none, except where the operator inherently needs the whole stream (ForAll; stated).  With generator `for`
loops only, the first k results are a prefix and pull only a prefix.
"""
from __future__ import annotations
import z3

from pyvc.framework import Harness
from pyvc.interp import Spec, PyRaise, INLINE
from pyvc.values import Obj, PyList, PySet, Builtin, Opaque, SymStream, GenObj
from pyvc.ops import make_dict
from pyvc.repo import ClassInfo
from .lib import UserVal, install_user_hooks, user_effects

PROPERTY = "C10"
SYM = "krrood.entity_query_language.symbolic"
ENT = "krrood.entity_query_language.entity"
HD = "krrood.entity_query_language.hashed_data"
FUNCTIONS = [(ENT, "let"), (ENT, "_get_domain_source_from_domain_and_type_values"), (ENT, "entity"), (ENT, "set_of"), (ENT, "_extract_variables_and_expression"),
             (ENT, "and_"), (ENT, "or_"), (ENT, "not_"), (ENT, "contains"), (ENT, "in_"), (ENT, "flatten"), (ENT, "for_all"), (ENT, "exists"), (ENT, "inference"),
             ("krrood.entity_query_language.quantify_entity", "an"), ("krrood.entity_query_language.quantify_entity", "the"),
             (SYM, "SymbolicExpression.__post_init__"), (SYM, "SymbolicExpression._update_children_"), (SYM, "Variable.__post_init__"),
             (SYM, "Variable._update_domain_"), (SYM, "Variable._update_child_vars_from_kwargs_"), (SYM, "Literal.__init__"),
             (SYM, "BinaryOperator.__post_init__"), (SYM, "CanBehaveLikeAVariable.__getattr__"), (SYM, "CanBehaveLikeAVariable.__eq__"),
             (SYM, "CanBehaveLikeAVariable.__call__"), (SYM, "CanBehaveLikeAVariable.__getitem__"), (SYM, "optimize_or"),
             (HD, "HashedIterable.__post_init__"), (HD, "HashedIterable.set_iterable"), (HD, "HashedValue.__post_init__"),
             ("krrood.entity_query_language.utils", "is_iterable"), ("krrood.entity_query_language.utils", "make_list")]
ASSUMPTIONS = [
    "RWXNode (display graph) and the class-diagram lookups of Attribute are abstracted (no user data flows into them)",
    "isinstance / type / id / hasattr(x, '__iter__') do not run user code (true for ordinary classes without metaclass tricks)",
    "copying a list or tuple literal with list(...) is a builtin operation, not an iteration of user code",
]
TRUSTED = ["effect log of the engine: every value-dependent operation on an opaque user value goes through the logged hooks"]
BOUNDED_ONLY_CLAUSES = ["how many domain elements the first k results pull (prefix bound) is measured by the bounded event-log driver "
                        "(deductively: no operator consumes a lazily produced child stream eagerly, and the result quantifier yields every "
                        "child result before it pulls the next one)",
                        "predicates over unbound variables use itertools.product (generate_combinations) and drain their argument domains: finding"]

SYNTH = '''
from dataclasses import dataclass


@dataclass(eq=False)
class Thing:
    a: int = 0
    b: int = 0
'''


def setup(vm):
    install_user_hooks(vm, fork_truth=False)
    from .C08 import Forest
    Forest(vm)                      # RWXNode abstraction, id generator
    vm.loader.add_module("pyvc_synth_c10", SYNTH)
    vm.spec.attr_hooks[("Attribute", "_wrapped_owner_class_")] = lambda it, o: None
    vm.spec.attr_hooks[("Attribute", "_wrapped_field_")] = lambda it, o: None
    vm.spec.attr_hooks[("Attribute", "_relation_")] = lambda it, o: None
    vm.spec.attr_hooks[("Attribute", "_wrapped_type_")] = lambda it, o: None
    SE = vm.loader.cls(SYM, "SymbolicExpression")
    SE.class_attr_vals["_symbolic_expression_stack_"] = PyList([])
    SE.class_attr_vals["_id_expression_map_"] = make_dict([])
    # builtin type() of a user value is allowed
    return vm.loader.cls("pyvc_synth_c10", "Thing")


def g(vm, mod, name):
    return vm.module_global(mod, name)


def builders(vm, Thing):
    """(label, thunk) pairs covering the public construction vocabulary; thunks return the built node"""
    dom = UserVal("domain", iterable=True)
    lit = UserVal("literal")
    lit_list = PyList([UserVal("elem0"), UserVal("elem1")])
    let = g(vm, ENT, "let")
    x = vm.call(let, [Thing, dom], {})
    y = vm.call(let, [Thing, PyList([UserVal("y0")])], {})
    out = [("let(T, user-iterable)", lambda: vm.call(let, [Thing, UserVal("domain2", iterable=True)], {})),
           ("let(T, list)", lambda: vm.call(let, [Thing, PyList([UserVal("e")])], {})),
           ("x.a", lambda: vm._getattr(x, "a")),
           ("x.a.b", lambda: vm._getattr(vm._getattr(x, "a"), "b")),
           ("x.a == literal", lambda: vm.equals(vm._getattr(x, "a"), lit)),
           ("x.a == y.a", lambda: vm.equals(vm._getattr(x, "a"), vm._getattr(y, "a"))),
           ("x.a < literal", lambda: vm.compare(__import__("ast").Lt(), vm._getattr(x, "a"), lit)),
           ("x == literal-list", lambda: vm.equals(x, lit_list)),
           ("contains(literal-list, x.a)", lambda: vm.call(g(vm, ENT, "contains"), [lit_list, vm._getattr(x, "a")], {})),
           ("contains(x.items, literal)", lambda: vm.call(g(vm, ENT, "contains"), [vm._getattr(x, "items"), lit], {})),
           ("in_(x.a, user-container)", lambda: vm.call(g(vm, ENT, "in_"), [vm._getattr(x, "a"), UserVal("container", iterable=True)], {})),
           ("x.items[0]", lambda: vm.getitem(vm._getattr(x, "items"), 0)),
           ("x.method(literal)", lambda: vm.call(vm._getattr(x, "method"), [lit], {})),
           ("flatten(x.items)", lambda: vm.call(g(vm, ENT, "flatten"), [vm._getattr(x, "items")], {})),
           ("flatten(user-container)", lambda: vm.call(g(vm, ENT, "flatten"), [UserVal("nested", iterable=True)], {})),
           ("and_/or_/not_", lambda: vm.call(g(vm, ENT, "not_"), [vm.call(g(vm, ENT, "or_"), [vm.call(g(vm, ENT, "and_"), [vm.equals(vm._getattr(x, "a"), lit), vm.equals(vm._getattr(y, "a"), lit)], {}),
                                                                                            vm.equals(vm._getattr(x, "b"), lit)], {})], {})),
           ("not_(literal)", lambda: vm.call(g(vm, ENT, "not_"), [UserVal("flag")], {})),
           ("exists / for_all", lambda: vm.call(g(vm, ENT, "for_all"), [y, vm.call(g(vm, ENT, "exists"), [x, vm.equals(vm._getattr(x, "a"), vm._getattr(y, "a"))], {})], {})),
           ("inference(T)(a=x.a, b=literal)", lambda: vm.call(vm.call(g(vm, ENT, "inference"), [Thing], {}), [], {"a": vm._getattr(x, "a"), "b": lit})),
           ("an(entity(x, cond))", lambda: vm.call(g(vm, "krrood.entity_query_language.quantify_entity", "an"),
                                                [vm.call(g(vm, ENT, "entity"), [x, vm.equals(vm._getattr(x, "a"), lit)], {})], {})),
           ("the(set_of([x, x.a], cond))", lambda: vm.call(g(vm, "krrood.entity_query_language.quantify_entity", "the"),
                                                          [vm.call(g(vm, ENT, "set_of"), [PyList([x, vm._getattr(x, "a")]), vm.equals(vm._getattr(y, "a"), lit)], {})], {})),
           ]
    return out


def h_construction():
    def run(vm):
        ctx = vm.ctx
        Thing = setup(vm)
        base = len(ctx.effects)
        blds = builders(vm, Thing)
        ctx.check("construction::let-and-variables-touch-no-user-data", z3.BoolVal(not user_effects(ctx)), detail=repr(user_effects(ctx)))
        for label, thunk in blds:
            before = len(user_effects(ctx))
            try:
                r = thunk()
            except PyRaise as pr:
                ctx.fail("construction::no-exception", detail=f"{label}: {pr.exc!r} {pr.exc.fields.get('args')}")
                continue
            new = user_effects(ctx)[before:]
            ctx.check("construction::builders-run-no-user-code", z3.BoolVal(not new), detail=f"{label}: {new}")
            ctx.check("construction::builders-return-expression-nodes", z3.BoolVal(isinstance(r, Obj) and isinstance(r.cls, ClassInfo)), detail=f"{label}: {r!r}")
    return Harness("construction", run, spec=Spec(), max_paths=3000)


def h_symbolic_callables():
    """predicates / symbolic functions with a variable argument and user data: nothing of the body or the data runs"""
    def run(vm):
        ctx = vm.ctx
        Thing = setup(vm)
        from .C12 import install as install_c12
        from .lib import UserFn
        install_user_hooks(vm, fork_truth=False)
        truth_hook = vm.spec.opaque_hooks["truth"]
        install_c12(vm)
        vm.spec.opaque_hooks["truth"] = truth_hook
        made = []
        del vm.spec.stubs["Variable.__call__"]
        x = vm.call(g(vm, ENT, "let"), [Thing, UserVal("domain", iterable=True)], {})
        fn = UserFn("userpred", ["p", "q"])

        def call_hook(it, f, args, kwargs):
            ctx.effect("user", ("call", getattr(f, "name", "?"), None))
            return UserVal("result")
        vm.spec.opaque_hooks["call"] = call_hook
        wrapper = vm.call(g(vm, "krrood.entity_query_language.predicate", "symbolic_function"), [fn], {})
        before = len(user_effects(ctx))
        r = vm.call(wrapper, [vm._getattr(x, "a"), UserVal("threshold")], {})
        ctx.check("construction::symbolic-function-with-a-variable-runs-nothing", z3.BoolVal(len(user_effects(ctx)) == before and isinstance(r, Obj)),
                  detail=repr(user_effects(ctx)[before:]))
        HT = vm.loader.cls("krrood.entity_query_language.predicate", "HasType")
        before = len(user_effects(ctx))
        r = vm.call(HT, [vm._getattr(x, "a"), Thing], {})
        ctx.check("construction::predicate-with-a-variable-runs-nothing", z3.BoolVal(len(user_effects(ctx)) == before and isinstance(r, Obj) and r.cls.name == "Variable"),
                  detail=repr(user_effects(ctx)[before:]))
    return Harness("symbolic-callables", run, spec=Spec(), max_paths=3000)


def h_evaluation_discipline():
    """No operator of the condition fragment materialises a child stream: re-run the C01 step-lemma harnesses with a
    materialisation log (the engine refuses to materialise an abstract stream, so an `undecided` there is a finding here)."""
    from . import C01

    def run(vm):
        ctx = vm.ctx
        names = ["cover-AND", "cover-ElseIf", "cover-Union", "cover-Not", "cover-Comparator[generic]", "value-Variable[operand]", "value-Attribute[operand]",
                 "query-descriptor[2]"]
        hs = {h.name: h for h in C01.harnesses()}
        # each of those harnesses iterates its node's generator; materialisation of an abstract stream raises Unsupported
        # inside them (reported as undecided by C01); here the discipline is stated as its own obligation per operator
        from pyvc.ctx import Unsupported, PathEnd, Infeasible
        for n in names:
            h = hs[n]
            vm2 = type(vm)(vm.loader, ctx, h.spec)
            before = len([e for e in ctx.effects if e[0] == "materialise"])
            try:
                h.fn(vm2)
                mats = [e[1] for e in ctx.effects if e[0] == "materialise"][before:]
                ok, why = (not mats), f"a lazily produced child stream is consumed completely: {mats[:2]}"
            except PathEnd:
                raise
            except Unsupported as e:
                ok, why = ("materialis" not in str(e)), str(e)
            ctx.check(f"evaluation::{n.split('[')[0].replace('cover-', '').replace('value-', '')}-consumes-its-children-lazily", z3.BoolVal(ok), detail=why)
    return Harness("evaluation-discipline", run, spec=Spec(), max_paths=3000, ematching_only=True, timeout_ms=3000, retry_unknown=False)


def h_hashed_iterable():
    """HashedIterable.__iter__ replays the cache then pulls from the wrapped iterable one element at a time."""
    def run(vm):
        ctx = vm.ctx
        install_user_hooks(vm)
        HI = vm.loader.cls(HD, "HashedIterable")
        pulled = []

        def source():
            for i in range(3):
                pulled.append(i)
                yield UserVal(f"v{i}")
        hi = vm.call(HI, [GenObj(source(), "user-generator")], {})
        ctx.check("HashedIterable.__post_init__::wrapping-pulls-nothing", z3.BoolVal(pulled == [] and not user_effects(ctx)), detail=f"{pulled} {user_effects(ctx)}")
        it = vm.iterate(vm.call_method(hi, "__iter__"))
        first = next(it)
        ctx.check("HashedIterable.__iter__::first-element-pulls-one", z3.BoolVal(pulled == [0]), detail=repr(pulled))
        second = next(it)
        ctx.check("HashedIterable.__iter__::second-element-pulls-two", z3.BoolVal(pulled == [0, 1]), detail=repr(pulled))
    return Harness("hashed-iterable", run, spec=Spec())


def h_canary():
    def run(vm):
        ctx = vm.ctx
        install_user_hooks(vm)
        u = UserVal("data")
        vm.truth(u)
        # deliberately false: claims a truth test of user data is not an effect
        ctx.check("CANARY", z3.BoolVal(not user_effects(ctx)))
    return Harness("canary", run, expect_fail=True)


def prompt(h):
    """a C09 quantifier harness under the name of the laziness clause it carries: its loop invariant
    (results yielded = child results pulled, at every loop head) says that no result is held back while the child is advanced"""
    def run(vm):
        orig = vm.ctx.check
        vm.ctx.check = lambda oid, f, detail=None: orig("prompt::" + oid, f, detail)
        h.fn(vm)
    return Harness("prompt-" + h.name, run, spec=h.spec, covers=list(h.covers or []), max_paths=h.max_paths, timeout_ms=h.timeout_ms,
                   retry_unknown=h.retry_unknown, ematching_only=h.ematching_only)


def harnesses():
    from . import C09
    hq = {h.name: h for h in C09.harnesses()}
    return [h_construction(), h_symbolic_callables(), h_evaluation_discipline(), h_hashed_iterable()] + \
        [prompt(hq[n]) for n in ("an-evaluate[none+var]", "an-evaluate[c+upper+var]") if n in hq] + [h_canary()]
