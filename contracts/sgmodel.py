"""Abstract view of SymbolGraph (shared by C13, C14, C15, C20): ghost state as z3 functions, model containers standing for
the dict / defaultdict(list) / dict-of-sets fields and an *assumed contract* of rustworkx.PyDiGraph, and the
representation invariant WF.

Sorts (all Int): wrappers w > 0 (0 = None), instances i > 0, classes c, fields f, node indices n >= 0, addresses k.
State functions (pre-state as uninterpreted functions; updates build If-terms, no arrays):
    W(w)          w is registered (is the payload of a graph node)
    idx(w)        node index recorded in w.index
    ref(w)        the instance w refers to (fixed at construction)
    typ(w)        w.instance_type
    live(i)       instance i is alive *now* (may only go from true to false between calls)
    addr(i)       id(i); injective among simultaneously live instances only
    nodeAt(n)     payload of node n (0 = no such node)
    inst(k)       _instance_index[k] (0 = absent)
    cnt(c, w)     number of occurrences of w in _class_to_wrapped_instances[c]
    relp(f)       f in _relation_index
    rel(f, a, b)  (a, b) in _relation_index[f]
    edge(a, b, f) the graph has an edge a -> b whose payload has wrapped_field f
"""
from __future__ import annotations
import z3

from pyvc.values import Opaque, Builtin, SInt, SBool, STerm, Obj, SymStream, PySet
from pyvc.interp import PyRaise
from pyvc.ops import zint, wrap_int, wrap_bool

SG = "krrood.entity_query_language.symbol_graph"
I = z3.IntSort()
B = z3.BoolSort()
Wr = z3.DeclareSort("Wr")     # wrappers
In = z3.DeclareSort("In")     # instances
Cl = z3.DeclareSort("Cl")     # classes
Fd = z3.DeclareSort("Fd")     # wrapped fields
Nd = z3.DeclareSort("Nd")     # graph node indices
Ad = z3.DeclareSort("Ad")     # addresses (values of id())
NOW = z3.Const("none_w", Wr)  # "no wrapper" (None / absent)
NONE_AD = z3.Const("id_of_None", Ad)
NONE_ID = 999999      # id(None) as the engine models it: differs from the address of every instance (None is immortal)


class State:
    """A symbolic SymbolGraph state: each component is a Python callable building a z3 term."""
    NAMES = ["W", "idx", "ref", "typ", "live", "addr", "nodeAt", "inst", "cnt", "relp", "rel", "edge"]

    def __init__(self, tag="0"):
        F = z3.Function
        self.W = F(f"W{tag}", Wr, B)
        self.idx = F(f"idx{tag}", Wr, Nd)
        self.ref = F(f"ref{tag}", Wr, In)
        self.typ = F(f"typ{tag}", Wr, Cl)
        self.live = F(f"live{tag}", In, B)
        self.addr = F(f"addr{tag}", In, Ad)
        self.nodeAt = F(f"nodeAt{tag}", Nd, Wr)
        self.inst = F(f"inst{tag}", Ad, Wr)
        self.cnt = F(f"cnt{tag}", Cl, Wr, I)
        self.relp = F(f"relp{tag}", Fd, B)
        self.rel = F(f"rel{tag}", Fd, Nd, Nd, B)
        self.edge = F(f"edge{tag}", Nd, Nd, Fd, B)

    def copy(self):
        s = State.__new__(State)
        for n in State.NAMES:
            setattr(s, n, getattr(self, n))
        return s


def V(names, sort):
    return [z3.Const(n, sort) for n in names.split()]


def wf(S, parts=None):
    """The representation invariant as a dict name -> closed formula."""
    w, w2 = V("w w2", Wr)
    n, a, b = V("n a b", Nd)
    (k,) = V("k", Ad)
    (c,) = V("c", Cl)
    (f,) = V("f", Fd)
    out = {
        "I1a-registered-wrapper-is-the-payload-of-its-index": z3.ForAll([w], z3.Implies(S.W(w), S.nodeAt(S.idx(w)) == w)),
        "I1b-every-node-payload-is-registered-at-that-index": z3.ForAll([n], z3.Implies(S.nodeAt(n) != NOW, z3.And(S.W(S.nodeAt(n)), S.idx(S.nodeAt(n)) == n))),
        "I1c-none-is-not-registered": z3.Not(S.W(NOW)),
        "I2a-index-entry-points-to-a-registered-wrapper-recorded-under-its-address": z3.ForAll([k], z3.Implies(S.inst(k) != NOW, z3.And(S.W(S.inst(k)), S.addr(S.ref(S.inst(k))) == k))),
        "I2b-live-registered-wrapper-is-found-under-its-address": z3.ForAll([w], z3.Implies(z3.And(S.W(w), S.live(S.ref(w))), S.inst(S.addr(S.ref(w))) == w)),
        "I2c-registered-wrappers-have-distinct-referents": z3.ForAll([w, w2], z3.Implies(z3.And(S.W(w), S.W(w2), S.ref(w) == S.ref(w2)), w == w2)),
        "I3-class-lists-hold-exactly-the-wrappers-of-that-exact-type-once": z3.ForAll([c, w], S.cnt(c, w) == z3.If(z3.And(S.W(w), S.typ(w) == c), 1, 0)),
        "I4a-relation-index-mirrors-the-edges": z3.ForAll([f, a, b], S.rel(f, a, b) == S.edge(a, b, f)),
        "I4b-edges-connect-existing-nodes": z3.ForAll([a, b, f], z3.Implies(S.edge(a, b, f), z3.And(S.nodeAt(a) != NOW, S.nodeAt(b) != NOW))),
        "I4c-indexed-fields-are-present": z3.ForAll([f, a, b], z3.Implies(S.rel(f, a, b), S.relp(f))),
    }
    if parts:
        return {k_: v for k_, v in out.items() if k_.split("-")[0] in parts}
    return out


def env_axioms(S):
    """Facts about CPython the model relies on (assumed, stated in the evidence)."""
    i, j = V("i j", In)
    return [
        z3.ForAll([i, j], z3.Implies(z3.And(S.live(i), S.live(j), S.addr(i) == S.addr(j)), i == j)),  # ids unique among live
        z3.ForAll([i], S.addr(i) != NONE_AD),
    ]


def ad(k):
    """address term of an id() value as the engine produces it"""
    if isinstance(k, STerm):
        return k.t
    if isinstance(k, int) and k == NONE_ID:
        return NONE_AD
    raise AssertionError(f"not an address: {k!r}")


def nd(v):
    if isinstance(v, STerm):
        return v.t
    raise AssertionError(f"not a node index: {v!r}")


# ------------------------------------------------------------------ model containers (the abstract view of the fields)
class Model(Opaque):
    def __init__(self, tag, S):
        super().__init__(tag)
        self.S = S

    def m_truth(self, vm):
        raise AssertionError(f"truth of {self.tag}")


def wid_of(v):
    """z3 term of a wrapper value (None -> 0)."""
    if v is None:
        return NOW
    if isinstance(v, Obj) and "wid" in v.fields:
        return v.fields["wid"]
    raise AssertionError(f"not a wrapper: {v!r}")


class InstanceIndex(Model):
    """_instance_index : dict address -> wrapper."""

    def __init__(self, S, mk_wrapper):
        super().__init__("model:_instance_index", S)
        self.mk = mk_wrapper

    def _lookup(self, vm, k, default):
        S = self.S
        cur = S.inst(ad(k))
        if vm.ctx.branch(cur == NOW):
            return default
        return self.mk(vm, cur)

    def m_getattr(self, vm, name):
        S = self.S
        if name == "get":
            return Builtin("dict.get", lambda it, fr, a, kw: self._lookup(it, a[0], a[1] if len(a) > 1 else None))
        if name == "pop":
            def pop(it, fr, a, kw):
                k = ad(a[0])
                old = S.inst
                if len(a) < 2 and it.ctx.branch(old(k) == NOW):
                    it.raise_("KeyError", a[0])
                r = self._lookup(it, a[0], a[1] if len(a) > 1 else None)
                S.inst = lambda x, _old=old, _k=k: z3.If(x == _k, NOW, _old(x))
                return r
            return Builtin("dict.pop", pop)
        raise AssertionError(f"_instance_index.{name} is not modelled")

    def m_getitem(self, vm, k):
        r = self._lookup(vm, k, Model)
        if r is Model:
            vm.raise_("KeyError", k)
        return r

    def m_setitem(self, vm, k, val):
        S = self.S
        old, kk, w = S.inst, ad(k), wid_of(val)
        S.inst = lambda x: z3.If(x == kk, w, old(x))

    def m_contains(self, vm, k):
        return wrap_bool(self.S.inst(ad(k)) != NOW)

    def m_delitem(self, vm, k):
        S = self.S
        old, kk = S.inst, ad(k)
        if vm.ctx.branch(old(kk) == NOW):
            vm.raise_("KeyError", k)
        S.inst = lambda x: z3.If(x == kk, NOW, old(x))


class ClassList(Model):
    """_class_to_wrapped_instances[c] : the list of wrappers of exact type c."""

    def __init__(self, S, c, mk_wrapper):
        super().__init__("model:class-list", S)
        self.c = c
        self.mk = mk_wrapper

    def m_getattr(self, vm, name):
        S, c = self.S, self.c
        if name == "append":
            def append(it, fr, a, kw):
                w, old = wid_of(a[0]), S.cnt
                S.cnt = lambda cc, ww: z3.If(z3.And(cc == c, ww == w), old(cc, ww) + 1, old(cc, ww))
            return Builtin("list.append", append)
        if name == "remove":
            def remove(it, fr, a, kw):
                # list.remove: first element that `is` or `==` the argument.  The argument is found by identity; an
                # *earlier* element can only win through __eq__, i.e. for a value-equal twin of a live referent.
                w, old = wid_of(a[0]), S.cnt
                if it.ctx.branch(old(c, w) <= 0):
                    it.raise_("ValueError", "list.remove(x): x not in list")
                S.cnt = lambda cc, ww: z3.If(z3.And(cc == c, ww == w), old(cc, ww) - 1, old(cc, ww))
            return Builtin("list.remove", remove)
        raise AssertionError(f"class list .{name} is not modelled")

    def m_iter(self, vm):
        S, c = self.S, self.c
        ctx = vm.ctx
        cnt = S.cnt
        world = getattr(self, "world", None)
        if world is not None and cnt is world.pre.cnt:
            # the lists of the (unmodified) pre-state: one family of position functions shared by all readers
            at2, pos2, len2 = world.classlist_functions()
            mk = self.mk
            return SymStream(ctx._name("classlist"), lambda vm_, ix: mk(vm_, at2(c, ix)), length=len2(c),
                             meta={"kind": "list", "at": lambda ix: at2(c, ix), "pos": lambda ww: pos2(c, ww), "cls": c})
        n = ctx.fresh_int("len_classlist")
        at = z3.Function(ctx._name("classlist_at"), I, Wr)
        posw = z3.Function(ctx._name("classlist_pos"), Wr, I)
        i, j = z3.Ints("i j")
        (w,) = V("w", Wr)
        # the list's elements: exactly the wrappers with cnt > 0; a wrapper with cnt == 1 sits at exactly one position
        ctx.assume(z3.ForAll([i], z3.Implies(z3.And(0 <= i, i < n), cnt(c, at(i)) >= 1)))
        ctx.assume(z3.ForAll([w], z3.Implies(cnt(c, w) >= 1, z3.And(0 <= posw(w), posw(w) < n, at(posw(w)) == w))))
        ctx.assume(z3.ForAll([i], z3.Implies(z3.And(0 <= i, i < n, cnt(c, at(i)) == 1), posw(at(i)) == i)))
        mk = self.mk
        s = SymStream(ctx._name("classlist"), lambda vm_, ix: mk(vm_, at(ix)), length=n, meta={"kind": "list", "at": at, "pos": posw, "cls": c})
        return s


class ClassMap(Model):
    """_class_to_wrapped_instances : defaultdict(list)."""

    def __init__(self, S, mk_wrapper, cls_code):
        super().__init__("model:_class_to_wrapped_instances", S)
        self.mk = mk_wrapper
        self.cls_code = cls_code

    def m_getitem(self, vm, k):
        cl = ClassList(self.S, self.cls_code(vm, k), self.mk)
        cl.world = getattr(self, "world", None)
        return cl


class PairSet(Model):
    """_relation_index[f] : set of (source index, target index)."""

    def __init__(self, S, f):
        super().__init__("model:relation-pairs", S)
        self.f = f

    @staticmethod
    def _pair(p):
        assert isinstance(p, tuple) and len(p) == 2, p
        return nd(p[0]), nd(p[1])

    def m_contains(self, vm, p):
        a, b = self._pair(p)
        return wrap_bool(self.S.rel(self.f, a, b))

    def m_truth(self, vm):
        # bool(set): some pair is in it
        ctx = vm.ctx
        if ctx.branch(ctx.fresh_bool("pairs_nonempty")):
            x0, y0 = ctx.fresh_const("pair_src", Nd), ctx.fresh_const("pair_tgt", Nd)
            ctx.assume(self.S.rel(self.f, x0, y0))
            return True
        x, y = V("px py", Nd)
        ctx.assume(z3.ForAll([x, y], z3.Not(self.S.rel(self.f, x, y))))
        return False

    def m_getattr(self, vm, name):
        S, f = self.S, self.f
        if name == "add":
            def add(it, fr, args, kw):
                a, b = self._pair(args[0])
                old = S.rel
                S.rel = lambda ff, x, y: z3.Or(z3.And(ff == f, x == a, y == b), old(ff, x, y))
            return Builtin("set.add", add)
        if name in ("discard", "remove"):
            def discard(it, fr, args, kw):
                a, b = self._pair(args[0])
                old = S.rel
                S.rel = lambda ff, x, y: z3.And(z3.Not(z3.And(ff == f, x == a, y == b)), old(ff, x, y))
            return Builtin("set.discard", discard)
        raise AssertionError(f"relation pair set .{name} is not modelled")


class RelationIndex(Model):
    """_relation_index : dict field -> set of index pairs."""

    def __init__(self, S, field_code):
        super().__init__("model:_relation_index", S)
        self.field_code = field_code

    def m_contains(self, vm, f):
        return wrap_bool(self.S.relp(self.field_code(vm, f)))

    def m_getitem(self, vm, f):
        fc = self.field_code(vm, f)
        if not vm.ctx.branch(self.S.relp(fc)):
            vm.raise_("KeyError", f)
        return PairSet(self.S, fc)

    def m_delitem(self, vm, f):
        S = self.S
        fc = self.field_code(vm, f)
        if not vm.ctx.branch(S.relp(fc)):
            vm.raise_("KeyError", f)
        oldp, oldr = S.relp, S.rel
        S.relp = lambda ff: z3.And(ff != fc, oldp(ff))
        S.rel = lambda ff, x, y: z3.And(ff != fc, oldr(ff, x, y))

    def m_setitem(self, vm, f, val):
        S = self.S
        fc = self.field_code(vm, f)
        if not (isinstance(val, PySet) and not val.items):
            raise AssertionError("only `index[f] = set()` is modelled")
        oldp, oldr = S.relp, S.rel
        S.relp = lambda ff: z3.Or(ff == fc, oldp(ff))
        S.rel = lambda ff, x, y: z3.And(ff != fc, oldr(ff, x, y))

    def m_getattr(self, vm, name):
        if name == "get":
            def get(it, fr, a, kw):
                fc = self.field_code(it, a[0])
                if it.ctx.branch(self.S.relp(fc)):
                    return PairSet(self.S, fc)
                return a[1] if len(a) > 1 else None
            return Builtin("dict.get", get)
        if name == "setdefault":
            def setdefault(it, fr, a, kw):
                # dict.setdefault(f, set()): the existing pair set if f is a key, else the empty set is stored and returned
                fc = self.field_code(it, a[0])
                if not it.ctx.branch(self.S.relp(fc)):
                    self.m_setitem(it, a[0], a[1] if len(a) > 1 else None)
                return PairSet(self.S, fc)
            return Builtin("dict.setdefault", setdefault)
        raise AssertionError(f"_relation_index.{name} is not modelled")


class Graph(Model):
    """Assumed contract of rustworkx.PyDiGraph as krrood uses it."""

    def __init__(self, S, mk_wrapper, field_code):
        super().__init__("model:_instance_graph", S)
        self.mk = mk_wrapper
        self.field_code = field_code

    def m_getattr(self, vm, name):
        S = self.S
        ctx = vm.ctx
        if name == "add_node":
            def add_node(it, fr, a, kw):
                # returns an index that is not in use *now* (it may have been used before: indices are recycled)
                n = ctx.fresh_const("new_index", Nd, register=True)
                ctx.assume(S.nodeAt(n) == NOW)
                w, old = wid_of(a[0]), S.nodeAt
                S.nodeAt = lambda x: z3.If(x == n, w, old(x))
                return STerm(n)
            return Builtin("PyDiGraph.add_node", add_node)
        if name == "remove_node":
            def remove_node(it, fr, a, kw):
                n = nd(a[0])
                oldn, olde = S.nodeAt, S.edge
                S.nodeAt = lambda x: z3.If(x == n, NOW, oldn(x))
                S.edge = lambda x, y, f: z3.And(x != n, y != n, olde(x, y, f))   # incident edges go with the node
            return Builtin("PyDiGraph.remove_node", remove_node)
        if name == "nodes":
            def nodes(it, fr, a, kw):
                # a snapshot list of the payloads, each node once
                n = ctx.fresh_int("n_nodes")
                at = z3.Function(ctx._name("node_list_at"), I, Nd)
                i, j = z3.Ints("i j")
                (x,) = V("x", Nd)
                pre = S.nodeAt          # snapshot: membership refers to the state at the call
                posn = z3.Function(ctx._name("node_list_pos"), Nd, I)
                ctx.assume(z3.ForAll([i], z3.Implies(z3.And(0 <= i, i < n), z3.And(pre(at(i)) != NOW, posn(at(i)) == i))))
                ctx.assume(z3.ForAll([x], z3.Implies(pre(x) != NOW, z3.And(0 <= posn(x), posn(x) < n, at(posn(x)) == x))))
                mk = self.mk
                return SymStream(ctx._name("nodes"), lambda vm_, ix: mk(vm_, pre(at(ix))), length=n,
                                 meta={"kind": "list", "at": at, "pos": posn, "pre_nodeAt": pre})
            return Builtin("PyDiGraph.nodes", nodes)
        if name in ("in_edges", "out_edges"):
            def edges(it, fr, a, kw, _incoming=(name == "in_edges")):
                # snapshot list of (source, target, payload) of the edges entering / leaving the node, each edge once
                n0 = nd(a[0])
                m = ctx.fresh_int("n_edges")
                tag = ctx._name("in_edges" if _incoming else "out_edges")
                other = z3.Function(tag + "_other", I, Nd)
                fld = z3.Function(tag + "_field", I, Fd)
                pos = z3.Function(tag + "_pos", Nd, Fd, I)
                pre_edge = S.edge
                i, j = z3.Ints("i j")
                (x,) = V("x", Nd)
                (f,) = V("f", Fd)

                def e(xx, ff):
                    return pre_edge(xx, n0, ff) if _incoming else pre_edge(n0, xx, ff)
                ctx.assume(z3.ForAll([i], z3.Implies(z3.And(0 <= i, i < m), z3.And(e(other(i), fld(i)), pos(other(i), fld(i)) == i))))
                ctx.assume(z3.ForAll([x, f], z3.Implies(e(x, f), z3.And(0 <= pos(x, f), pos(x, f) < m, other(pos(x, f)) == x, fld(pos(x, f)) == f))))

                def elem(vm_, ix):
                    fo = vm_.alloc(vm_.ext("object"), {"fcode": fld(ix), "name": "field"}, tag="field")
                    ro = vm_.alloc(vm_.ext("object"), {"wrapped_field": fo}, tag="edge-payload")
                    o_ = STerm(other(ix))
                    return (o_, STerm(n0), ro) if _incoming else (STerm(n0), o_, ro)
                return SymStream(tag, elem, length=m, meta={"kind": "list", "pos": pos, "incoming": _incoming, "node": n0, "edge": pre_edge})
            return Builtin("PyDiGraph." + name, edges)
        if name == "add_edge":
            def add_edge(it, fr, a, kw):
                x0, y0 = nd(a[0]), nd(a[1])
                f0 = self.field_code(it, it._getattr(a[2], "wrapped_field"))
                old = S.edge
                S.edge = lambda x, y, f: z3.Or(z3.And(x == x0, y == y0, f == f0), old(x, y, f))
                return SInt(ctx.fresh_int("edge_index"))
            return Builtin("PyDiGraph.add_edge", add_edge)
        raise AssertionError(f"PyDiGraph.{name} is not modelled")


# ------------------------------------------------------------------ building a symbolic SymbolGraph object
class World:
    """A SymbolGraph object whose fields are the model containers over state S, plus factories for wrappers/instances."""

    def __init__(self, vm, S=None):
        self.vm = vm
        ctx = vm.ctx
        self.S = S or State()
        self.pre = self.S.copy()
        self.fields_by_code = {}
        self.materialized = []      # wrapper objects created from symbolic ids
        self.written = {}           # wid term (as str) -> (Obj) wrappers whose fields were mutated by the code
        # node indices and addresses are Python ints (the model keeps them as terms of uninterpreted sorts)
        def sterm_isinstance(it, v, c):
            names = [getattr(x, "name", "") for x in (c if isinstance(c, tuple) else (c,))]
            return v.t.sort() in (Nd, Ad) and any(n in ("int", "object") for n in names)
        vm.spec.opaque_hooks.setdefault("sterm_isinstance", sterm_isinstance)
        # a LIVE user instance may be falsy (a Symbol class can define __len__ / __bool__): its truth value is arbitrary, but
        # the same whenever it is asked within one path
        truths = {}

        def obj_truth(it, o):
            if getattr(o, "tag", None) != "instance":
                return None
            if o.oid not in truths:
                truths[o.oid] = SBool(it.ctx.fresh_bool("instance_is_truthy"))
            return truths[o.oid]
        vm.spec.opaque_hooks.setdefault("obj_truth", obj_truth)
        SGc = vm.loader.cls(SG, "SymbolGraph")
        self.graph_obj = vm.alloc(SGc, {}, tag="symbol-graph")
        g = self.graph_obj
        g.fields["_instance_graph"] = Graph(self.S, self.mk_wrapper, self.field_code)
        g.fields["_instance_index"] = InstanceIndex(self.S, self.mk_wrapper)
        g.fields["_class_to_wrapped_instances"] = ClassMap(self.S, self.mk_wrapper, self.cls_code)
        g.fields["_class_to_wrapped_instances"].world = self
        g.fields["_relation_index"] = RelationIndex(self.S, self.field_code)
        g.fields["_class_diagram"] = Opaque("class-diagram")
        vm.spec.stubs["SymbolGraph.__call__"] = lambda it, a, k: g
        for f in env_axioms(self.pre):
            ctx.assume(f)
        self.class_codes = {}

    def classlist_functions(self):
        """Position functions of the class lists of the pre-state (contract of `list`: elements = wrappers with cnt >= 1)."""
        if not hasattr(self, "_clf"):
            ctx = self.vm.ctx
            at2 = z3.Function("classlist_at", Cl, I, Wr)
            pos2 = z3.Function("classlist_pos", Cl, Wr, I)
            len2 = z3.Function("classlist_len", Cl, I)
            i = z3.Int("i")
            (w,) = V("w", Wr)
            (c,) = V("c", Cl)
            cnt = self.pre.cnt
            ctx.assume(z3.ForAll([c, i], z3.Implies(z3.And(0 <= i, i < len2(c)), cnt(c, at2(c, i)) >= 1)))
            ctx.assume(z3.ForAll([c, w], z3.Implies(cnt(c, w) >= 1, z3.And(0 <= pos2(c, w), pos2(c, w) < len2(c), at2(c, pos2(c, w)) == w))))
            ctx.assume(z3.ForAll([c, i], z3.Implies(z3.And(0 <= i, i < len2(c), cnt(c, at2(c, i)) == 1), pos2(c, at2(c, i)) == i)))
            ctx.assume(z3.ForAll([c], len2(c) >= 0))
            self._clf = (at2, pos2, len2)
        return self._clf

    # codes
    def cls_code(self, vm, c):
        if isinstance(c, STerm):
            return c.t
        key = getattr(c, "qualname", getattr(c, "name", repr(c)))
        if key not in self.class_codes:
            self.class_codes[key] = z3.Const(f"class_{key.split('.')[-1]}", Cl)
            for other in list(self.class_codes.values())[:-1]:
                vm.ctx.assume(other != self.class_codes[key])
        return self.class_codes[key]

    def field_code(self, vm, f):
        if isinstance(f, STerm):
            return f.t
        if isinstance(f, Obj) and "fcode" in f.fields:
            return f.fields["fcode"]
        raise AssertionError(f"not a field: {f!r}")

    def new_field(self, name):
        t = self.vm.ctx.fresh_const(f"field_{name}", Fd, register=True)
        o = self.vm.alloc(self.vm.ext("object"), {"fcode": t, "name": name}, tag=f"field-{name}")
        return o

    # wrappers
    def mk_wrapper(self, vm, wid):
        """Materialise the registered wrapper with identity `wid` (fields read from the pre-state functions)."""
        S0 = self.pre
        WI = vm.loader.cls(SG, "WrappedInstance")
        for o in self.materialized:
            if z3.eq(z3.simplify(o.fields["wid"]), z3.simplify(wid)):
                return o
        o = vm.alloc(WI, {}, tag="wrapper")
        o.fields["wid"] = wid
        o.fields["__ident__"] = wid
        o.fields["instance_id"] = STerm(S0.addr(S0.ref(wid)))      # recorded at construction: id(instance)
        o.fields["index"] = STerm(S0.idx(wid))
        o.fields["instance_type"] = STerm(S0.typ(wid))
        o.fields["instance_reference"] = self.weakref_to(S0.ref(wid))
        o.fields["_symbol_graph_"] = self.graph_obj
        o.fields["inferred"] = False
        self.materialized.append(o)
        return o

    def weakref_to(self, iid):
        vm = self.vm
        me = self

        class WeakRef(Opaque):
            def m_call(self_, vm_, args, kwargs):
                if vm_.ctx.branch(me.pre.live(iid)):
                    return me.instance(iid)
                return None
        return WeakRef("weakref")

    def instance(self, iid):
        vm = self.vm
        for o in getattr(self, "_instances", []):
            if z3.eq(z3.simplify(o.fields["iid"]), z3.simplify(iid)):
                return o
        o = vm.alloc(vm.ext("object"), {"iid": iid, "__ident__": iid}, tag="instance")
        o.fields["__id__"] = STerm(self.pre.addr(iid))
        self.__dict__.setdefault("_instances", []).append(o)
        return o

    def fresh_wrapper(self, name="w0", registered=None):
        """A wrapper with a fresh symbolic identity (registered or not per `registered`)."""
        ctx = self.vm.ctx
        wid = ctx.fresh_const(name, Wr, register=True)
        ctx.assume(wid != NOW)
        if registered is True:
            ctx.assume(self.pre.W(wid))
        elif registered is False:
            ctx.assume(z3.Not(self.pre.W(wid)))
        return self.mk_wrapper(self.vm, wid)

    # post-state view of wrapper fields (the code may have assigned w.index)
    def post_idx(self):
        S0 = self.pre
        mats = list(self.materialized)

        def idx(w):
            t = S0.idx(w)
            for o in mats:
                cur = o.fields.get("index")
                if isinstance(cur, STerm) and z3.eq(cur.t, S0.idx(o.fields["wid"])):
                    continue
                t = z3.If(w == o.fields["wid"], nd(cur), t)
            return t
        return idx

    def post_state(self, W_post):
        """State after the call: containers' current functions + wrapper fields; W_post is the *specified* new W."""
        P = self.S.copy()
        P.idx = self.post_idx()
        P.W = W_post
        return P

    def havoc(self, names):
        """Replace the named state components by fresh uninterpreted functions (loop havoc)."""
        ctx = self.vm.ctx
        for nme in names:
            old = getattr(self.pre, nme)
            fresh = z3.Function(ctx._name(f"hv_{nme}"), *[old.domain(i) for i in range(old.arity())], old.range())
            setattr(self.S, nme, fresh)

    def assume_wf(self, parts=None):
        for name, f in wf(self.pre, parts).items():
            self.vm.ctx.assume(f)

    def check_wf(self, prefix, P, parts=None):
        for name, f in wf(P, parts).items():
            self.vm.ctx.check(f"{prefix}::preserves-{name}", f)
