"""C16 — every way of writing a descriptor-managed collection field keeps the data and infers alike.

Model: a list field is a sequence (order and duplicates kept), a set field a set; ghost log Rel(owner, element, inferred)
records every PropertyDescriptorRelation(...).add_to_graph() the write triggers.
Contract per write operation W from contents c0:   contents' == python_model(W, c0)   and   for every element that
became part of the field by W: Rel(owner, e, inferred=False) was logged during W.
The operations are executed as *statements of the interpreted program* (`owner.items += [a]` goes through
__get__, the inherited list.__iadd__ and __set__, exactly as CPython sequences it).
Contents are enumerated up to length 3 with opaque, pairwise distinct elements (order, duplicates and aliasing
patterns exhaustive at that size) — stated in the evidence; not an unbounded-length proof.
"""
from __future__ import annotations
import ast
import z3

from pyvc.framework import Harness
from pyvc.interp import Spec, PyRaise, Frame, INLINE
from pyvc.values import Obj, PyList, PySet, Builtin
from pyvc.ops import key_of

PROPERTY = "C16"
PD = "krrood.ontomatic.property_descriptor.property_descriptor"
MC = "krrood.ontomatic.property_descriptor.monitored_container"
FUNCTIONS = [(PD, "PropertyDescriptor.__set__"), (PD, "PropertyDescriptor.__get__"),
             (PD, "PropertyDescriptor._ensure_monitored_type"), (PD, "PropertyDescriptor._bind_owner_if_container_type"),
             (PD, "PropertyDescriptor.add_relation_to_the_graph"),
             (MC, "MonitoredContainer.__init__"), (MC, "MonitoredContainer.__init_subclass__"),
             (MC, "MonitoredContainer._bind_owner"), (MC, "MonitoredContainer._on_add"), (MC, "MonitoredContainer._update"),
             (MC, "MonitoredList.append"), (MC, "MonitoredList.extend"), (MC, "MonitoredList.insert"),
             (MC, "MonitoredList.__setitem__"), (MC, "MonitoredList._add_item"), (MC, "MonitoredList._clear"),
             (MC, "MonitoredSet.add"), (MC, "MonitoredSet.update"), (MC, "MonitoredSet._add_item"), (MC, "MonitoredSet._clear")]
ASSUMPTIONS = [
    "builtin list/set methods (append, insert, __setitem__, add, clear, __iadd__, __ior__) have Python semantics",
    "obj.f += v is executed as tmp = obj.f; tmp = tmp.__iadd__(v); obj.f = tmp (likewise |=)",
    "weakref.ref(o)() returns o while o is alive",
    "__init_subclass__ registered MonitoredList for list and MonitoredSet for set (the hook is executed by the harness as "
    "Python does at class creation)",
    "elements are Symbol instances: truthy, hashable by identity, not iterable",
]
TRUSTED = ["assumed contracts of the list/set builtins the monitored containers inherit from"]
BOUNDED_ONLY_CLAUSES = ["contents and arguments are enumerated up to length 3 (element values opaque); the inferences a recorded "
                        "relation triggers are C15's subject"]

SYNTH = '''
from dataclasses import dataclass
from krrood.entity_query_language.predicate import Symbol


@dataclass(eq=False)
class Owner(Symbol):
    """user classes may define __len__ / __bool__: a live instance can be falsy"""
    size: int = 1

    def __len__(self):
        return self.size


@dataclass(eq=False)
class Elem(Symbol):
    size: int = 1

    def __len__(self):
        return self.size


@dataclass
class Named(Symbol):
    """value-equal but distinct objects (dataclass equality), as the dataset's Company/Person are"""
    name: str = ""

    def __hash__(self):
        return hash(self.name)
'''


def cls(vm, mod, name):
    return vm.loader.cls(mod, name)


def setup(vm, kind):
    """owner object with a descriptor-managed field `items` of the given kind ('list' | 'set')."""
    ctx = vm.ctx
    vm.loader.add_module("pyvc_synth_c16", SYNTH)
    Owner = cls(vm, "pyvc_synth_c16", "Owner")
    Elem = cls(vm, "pyvc_synth_c16", "Elem")
    # monitored_type_map as class creation fills it
    mcm = vm.loader.module(MC)
    mcm.values["monitored_type_map"] = vm.ev(ast.parse("{}", mode="eval").body, Frame(vm, mcm))
    hook = cls(vm, MC, "MonitoredContainer").methods["__init_subclass__"]
    for sub in ("MonitoredList", "MonitoredSet"):
        vm.call_func(hook, [cls(vm, MC, sub)], {})
    wf = vm.alloc(vm.ext("object"), {"name": "items", "public_name": "items"}, tag="wrapped-field")
    desc = vm.alloc(cls(vm, PD, "PropertyDescriptor"), {"domain": Owner, "field_name": "items", "wrapped_field": wf,
                                                        "private_attr_name": "_items", "is_iterable": True}, tag="descriptor")
    wf.fields["property_descriptor"] = desc
    Owner.class_attr_vals["items"] = desc
    rel = []

    def relation_ctor(it, a, k):
        src, tgt, field = a[1], a[2], a[3]
        inferred = k.get("inferred", a[4] if len(a) > 4 else False)
        o = it.alloc(it.ext("object"), {}, tag="relation")
        o.fields["add_to_graph"] = Builtin("add_to_graph", lambda it2, fr, a2, k2: rel.append((src, tgt, inferred, field)))
        return o
    vm.spec.stubs["PropertyDescriptorRelation.__call__"] = relation_ctor
    # every instance is as large as it likes (possibly empty, i.e. falsy): one symbolic size for the owner, one for the elements
    from pyvc.values import SInt
    osz, esz = ctx.fresh_int("owner_size", register=True), ctx.fresh_int("element_size", register=True)
    ctx.assume(osz >= 0)
    ctx.assume(esz >= 0)
    owner = vm.alloc(Owner, {"size": SInt(osz)}, tag="owner")
    elems = {n: vm.alloc(Elem, {"size": SInt(esz)}, tag=n) for n in ("e1", "e2", "a", "b", "c")}
    Named = cls(vm, "pyvc_synth_c16", "Named")
    elems["n1"] = vm.alloc(Named, {"name": "same"}, tag="n1")
    elems["n1_twin"] = vm.alloc(Named, {"name": "same"}, tag="n1_twin")
    return owner, elems, rel, desc


def run_stmt(vm, src, env):
    fr = Frame(vm, vm.loader.module("pyvc_synth_c16"))
    fr.locals.update(env)
    gen = vm.exec_block(ast.parse(src).body, fr)
    try:
        while True:
            next(gen)
    except StopIteration:
        pass
    return fr


def contents(vm, owner):
    v = owner.fields.get("_items")
    if isinstance(v, Obj) and "__data__" in v.fields:
        d = v.fields["__data__"]
        return v, list(d.items)
    return v, None


LIST_OPS = [
    # (name, statement, python model on a list `c` with names bound, elements that become part of the field)
    ("assign-empty", "owner.items = []", lambda c, E: [], lambda c, E: []),
    ("assign-one", "owner.items = [a]", lambda c, E: [E["a"]], lambda c, E: [E["a"]]),
    ("assign-ordered", "owner.items = [b, a, c]", lambda c, E: [E["b"], E["a"], E["c"]], lambda c, E: [E["b"], E["a"], E["c"]]),
    ("assign-duplicates", "owner.items = [a, b, a]", lambda c, E: [E["a"], E["b"], E["a"]], lambda c, E: [E["a"], E["b"]]),
    ("assign-tuple-source", "owner.items = [a, e1]", lambda c, E: [E["a"], E["e1"]], lambda c, E: [E["a"], E["e1"]]),
    ("assign-self", "owner.items = owner.items", lambda c, E: list(c), lambda c, E: []),
    ("iadd", "owner.items += [a, b]", lambda c, E: list(c) + [E["a"], E["b"]], lambda c, E: [E["a"], E["b"]]),
    ("iadd-empty", "owner.items += []", lambda c, E: list(c), lambda c, E: []),
    ("append", "owner.items.append(a)", lambda c, E: list(c) + [E["a"]], lambda c, E: [E["a"]]),
    ("append-existing", "owner.items.append(e1)", lambda c, E: list(c) + [E["e1"]], lambda c, E: [E["e1"]]),
    ("extend", "owner.items.extend([a, b])", lambda c, E: list(c) + [E["a"], E["b"]], lambda c, E: [E["a"], E["b"]]),
    ("insert-front", "owner.items.insert(0, a)", lambda c, E: [E["a"]] + list(c), lambda c, E: [E["a"]]),
    ("insert-middle", "owner.items.insert(1, a)", lambda c, E: list(c[:1]) + [E["a"]] + list(c[1:]), lambda c, E: [E["a"]]),
    ("setitem", "owner.items[0] = a", lambda c, E: [E["a"]] + list(c[1:]), lambda c, E: [E["a"]]),
    ("setitem-last", "owner.items[-1] = b", lambda c, E: list(c[:-1]) + [E["b"]], lambda c, E: [E["b"]]),
    ("extend-generator", "owner.items.extend(x for x in [a, b])", lambda c, E: list(c) + [E["a"], E["b"]], lambda c, E: [E["a"], E["b"]]),
    ("extend-iterator", "owner.items.extend(iter([a]))", lambda c, E: list(c) + [E["a"]], lambda c, E: [E["a"]]),
    ("iadd-generator", "owner.items += (x for x in [a])", lambda c, E: list(c) + [E["a"]], lambda c, E: [E["a"]]),
    ("append-twin", "owner.items.append(n1); owner.items.append(n1_twin)", lambda c, E: list(c) + [E["n1"], E["n1_twin"]], lambda c, E: [E["n1"], E["n1_twin"]]),
    ("setitem-twin", "owner.items.append(n1); owner.items[-1] = n1_twin", lambda c, E: list(c) + [E["n1_twin"]], lambda c, E: [E["n1_twin"]]),
    ("setitem-slice", "owner.items[0:1] = [a, b]", lambda c, E: [E["a"], E["b"]] + list(c[1:]), lambda c, E: [E["a"], E["b"]]),
    ("setitem-slice-insert", "owner.items[0:0] = [a]", lambda c, E: [E["a"]] + list(c), lambda c, E: [E["a"]]),
    ("assign-reversed-self", "owner.items = reversed(owner.items)", lambda c, E: list(reversed(c)), lambda c, E: []),
    ("assign-generator-over-self", "owner.items = (x for x in owner.items)", lambda c, E: list(c), lambda c, E: []),
    ("insert-twin", "owner.items.append(n1); owner.items.insert(0, n1_twin)", lambda c, E: [E["n1_twin"]] + list(c) + [E["n1"]], lambda c, E: [E["n1_twin"]]),
]
SET_OPS = [
    ("assign-empty", "owner.items = set()", lambda c, E: [], lambda c, E: []),
    ("assign-two", "owner.items = {a, b}", lambda c, E: [E["a"], E["b"]], lambda c, E: [E["a"], E["b"]]),
    ("assign-overlap", "owner.items = {a, e1}", lambda c, E: [E["a"], E["e1"]], lambda c, E: [E["a"], E["e1"]]),
    ("assign-self", "owner.items = owner.items", lambda c, E: list(c), lambda c, E: []),
    ("ior", "owner.items |= {a, b}", lambda c, E: list(c) + [E["a"], E["b"]], lambda c, E: [E["a"], E["b"]]),
    ("ior-existing", "owner.items |= {e1}", lambda c, E: list(c) + [E["e1"]], lambda c, E: []),
    ("add", "owner.items.add(a)", lambda c, E: list(c) + [E["a"]], lambda c, E: [E["a"]]),
    ("add-existing", "owner.items.add(e1)", lambda c, E: list(c) + [E["e1"]], lambda c, E: []),
    ("update", "owner.items.update({a, b})", lambda c, E: list(c) + [E["a"], E["b"]], lambda c, E: [E["a"], E["b"]]),
    ("update-list", "owner.items.update([a, a, e2])", lambda c, E: list(c) + [E["a"], E["e2"]], lambda c, E: [E["a"]]),
    ("update-generator", "owner.items.update(x for x in [a, b])", lambda c, E: list(c) + [E["a"], E["b"]], lambda c, E: [E["a"], E["b"]]),
    ("assign-generator-over-self", "owner.items = (x for x in owner.items)", lambda c, E: list(c), lambda c, E: []),
    ("ior-iterator-set", "owner.items |= set(iter([a]))", lambda c, E: list(c) + [E["a"]], lambda c, E: [E["a"]]),
]
INITIALS = {"empty": [], "one": ["e1"], "two": ["e1", "e2"]}


def same_seq(xs, ys):
    return len(xs) == len(ys) and all(x is y for x, y in zip(xs, ys))


def same_set(xs, ys):
    return {key_of(x) for x in xs} == {key_of(y) for y in ys} and len({key_of(x) for x in xs}) == len(xs)


def h_ops(kind, init_name):
    ops_ = LIST_OPS if kind == "list" else SET_OPS
    init = INITIALS[init_name]

    def run(vm):
        ctx = vm.ctx
        for name, stmt, model, added in ops_:
            if "setitem" in name and "slice-insert" not in name and not init:
                continue
            owner, E, rel, desc = setup(vm, kind)
            env = dict(E, owner=owner)
            # establish the initial contents by a first assignment (itself a checked write)
            src0 = "owner.items = " + ("[" + ", ".join(init) + "]" if kind == "list" else ("{" + ", ".join(init) + "}" if init else "set()"))
            run_stmt(vm, src0, env)
            cont, c0 = contents(vm, owner)
            want0 = [E[n] for n in init]
            ok0 = c0 is not None and (same_seq(c0, want0) if kind == "list" else same_set(c0, want0))
            mono = "MonitoredList" if kind == "list" else "MonitoredSet"
            ctx.check(f"PropertyDescriptor.__set__[{kind}]::first-assignment-stores-exactly-the-assigned-elements",
                      z3.BoolVal(ok0 and cont.cls is cls(vm, MC, mono)), detail=f"{src0} -> {c0}")
            ctx.check(f"PropertyDescriptor.__set__[{kind}]::first-assignment-records-every-element",
                      z3.BoolVal(all(any(r[0] is owner and r[1] is e and r[2] is False for r in rel) for e in want0)), detail=repr(rel))
            if not ok0:
                continue
            del rel[:]
            try:
                run_stmt(vm, stmt, env)
            except PyRaise as pr:
                ctx.fail(f"{kind}.{name}::no-exception", detail=f"{stmt} from {init}: {pr.exc!r}")
                continue
            cont1, c1 = contents(vm, owner)
            want = model(c0, E)
            if kind == "set":
                seen, w2 = set(), []
                for x in want:
                    if key_of(x) not in seen:
                        seen.add(key_of(x))
                        w2.append(x)
                want = w2
            ok = c1 is not None and (same_seq(c1, want) if kind == "list" else same_set(c1, want))
            ctx.check(f"{kind}.{name}::contents-are-what-python-semantics-dictate", z3.BoolVal(ok),
                      detail=f"`{stmt}` from {init}: field holds {c1}, python semantics give {want}")
            new = added(c0, E)
            okr = all(any(r[0] is owner and r[1] is e and r[2] is False for r in rel) for e in new)
            ctx.check(f"{kind}.{name}::every-element-that-became-part-of-the-field-is-recorded", z3.BoolVal(okr),
                      detail=f"`{stmt}` from {init}: recorded {[(r[1], r[2]) for r in rel]}, needed {new}")
            ctx.check(f"{kind}.{name}::field-stays-a-monitored-container-bound-to-its-owner",
                      z3.BoolVal(cont1 is not None and isinstance(cont1, Obj) and cont1.cls is cls(vm, MC, mono)
                                 and vm._getattr(cont1, "_owner") is owner))
            # reading the field returns the same container
            ctx.check(f"{kind}.{name}::get-returns-the-stored-container", z3.BoolVal(vm._getattr(owner, "items") is cont1))
    return Harness(f"{kind}-ops-from-{init_name}", run, spec=Spec())


def h_any_length(kind, op):
    """assignment / extend / update with a source of ANY length (loop rule): for an arbitrary element of the source exactly that
    element is added to the container and exactly its relation (owner, element, not inferred) is recorded; nothing is skipped."""
    loop_of = {"assign": ("PropertyDescriptor.__set__", 0), "extend": ("MonitoredList.extend", 0), "update": ("MonitoredSet.update", 0)}[op]
    var_of = {"assign": "v", "extend": "item", "update": "value"}[op]

    def run(vm):
        from pyvc.values import SymStream
        from pyvc.interp import LoopSpec
        ctx = vm.ctx
        owner, E, rel, desc = setup(vm, kind)
        env = dict(E, owner=owner)
        run_stmt(vm, "owner.items = [e1]" if kind == "list" else "owner.items = {e1}", env)
        cont, c0 = contents(vm, owner)
        data = cont.fields["__data__"]
        Elem = cls(vm, "pyvc_synth_c16", "Elem")
        earlier = vm.alloc(Elem, {"size": 1}, tag="added-by-an-earlier-iteration")

        def element(it, i):
            # an arbitrary iteration starts from an arbitrary container: empty (first iteration) or already filled
            data.items[:] = [earlier] if it.ctx.choice(2, "container-already-has-elements?") == 1 else []
            return it.alloc(Elem, {"size": 1}, tag="arbitrary-element")
        source = SymStream("assigned-elements", element, length=ctx.fresh_int("n_source"))
        if op == "assign":
            vm.spec.stubs["krrood.entity_query_language.utils:make_list"] = lambda it, a, k: source if a[0] is source else INLINE
            vm.spec.stubs["krrood.ontomatic.property_descriptor.property_descriptor:make_list"] = vm.spec.stubs["krrood.entity_query_language.utils:make_list"]
        del rel[:]
        mark = len(ctx.effects)
        vm.spec.opaque_hooks["havoc_container"] = lambda it, old, name: old

        def inv(it, fr):
            if any(n[0] == "early-exit" for n in ctx.notes):
                return z3.BoolVal(False)
            cur = it.loop_value(fr, loop_of[1]) if fr.func is not None and fr.func.qualname == loop_of[0] else it.loop_value(fr, 0)
            adds = [e[1] for e in ctx.effects[mark:] if e[0] == "mutate" and e[1][0] is data and e[1][1] in ("append", "add")]
            if not (isinstance(cur, Obj) and cur.tag == "arbitrary-element"):
                return z3.BoolVal(not adds and not rel)
            in_data = any(x is cur for x in data.items)
            ok = len(adds) == 1 and in_data and len(rel) == 1 and rel[0][0] is owner and rel[0][1] is cur and rel[0][2] is False
            return z3.BoolVal(ok)
        vm.spec.loops[loop_of] = LoopSpec(inv=inv)
        vm.spec.stream_loops["assigned-elements"] = vm.spec.loops[loop_of]
        if op == "assign":
            vm.call_method(desc, "__set__", owner, source)
            cleared = [e[1] for e in ctx.effects[mark:] if e[0] == "mutate" and e[1][0] is data and e[1][1] == "clear"]
            ctx.check(f"PropertyDescriptor.__set__[{kind}]::the-old-contents-are-dropped-once-before-the-new-ones-arrive", z3.BoolVal(len(cleared) == 1), detail=repr(cleared))
        else:
            vm.call_method(cont, op, source)
        ctx.check(f"{kind}.{op}[any-length]::every-element-of-the-source-is-visited", z3.BoolVal(not any(n[0] == "early-exit" for n in ctx.notes)))
        ctx.cover("exit")
    return Harness(f"{kind}-{op}-any-length", run, spec=Spec(), covers=["exit"])


def h_inferred_paths():
    """_update / _on_add(inferred=True): membership test first, weak reference stored, relation not re-added."""
    def run(vm):
        ctx = vm.ctx
        for kind in ("list", "set"):
            owner, E, rel, desc = setup(vm, kind)
            env = dict(E, owner=owner)
            run_stmt(vm, "owner.items = [e1]" if kind == "list" else "owner.items = {e1}", env)
            cont, c0 = contents(vm, owner)
            del rel[:]
            r1 = vm.call_method(cont, "_update", E["e1"])
            r2 = vm.call_method(cont, "_update", E["a"])
            _, c1 = contents(vm, owner)
            ctx.check(f"MonitoredContainer._update[{kind}]::adds-only-new-values-and-reports-it",
                      z3.BoolVal(r1 is False and r2 is True and len(c1) == 2 and c1[0] is E["e1"] and c1[1] is E["a"] and not rel),
                      detail=f"{r1} {r2} {c1} {rel}")
            ok = vm.call_method(desc, "update_value", owner, E["b"]) is True and vm.call_method(desc, "update_value", owner, E["b"]) is False
            _, c2 = contents(vm, owner)
            ctx.check(f"PropertyDescriptor.update_value[{kind}]::writes-the-inferred-value-once", z3.BoolVal(ok and len(c2) == 3 and c2[2] is E["b"]),
                      detail=repr(c2))
    return Harness("inferred-paths", run, spec=Spec())


def h_single_valued():
    """Non-container field: assignment stores the value and records the relation."""
    def run(vm):
        ctx = vm.ctx
        owner, E, rel, desc = setup(vm, "list")
        desc.fields["is_iterable"] = False
        run_stmt(vm, "owner.items = a", dict(E, owner=owner))
        ctx.check("PropertyDescriptor.__set__[single]::stores-and-records",
                  z3.BoolVal(owner.fields.get("_items") is E["a"] and len(rel) == 1 and rel[0][0] is owner and rel[0][1] is E["a"] and rel[0][2] is False),
                  detail=repr(rel))
        before = dict(owner.fields)
        run_stmt(vm, "owner.items = d", dict(E, owner=owner, d=desc))
        ctx.check("PropertyDescriptor.__set__::assigning-a-descriptor-is-ignored", z3.BoolVal(owner.fields == before))
    return Harness("single-valued", run, spec=Spec())


def h_bind_owner():
    """reading or assigning a managed container binds it to THAT owner, whoever it was bound to before (a container handed over
    from another individual's field records its writes for the individual that holds it now)"""
    def run(vm):
        ctx = vm.ctx
        owner, elems, rel, desc = setup(vm, "list")
        Owner = cls(vm, "pyvc_synth_c16", "Owner")
        from pyvc.values import SInt
        other = vm.alloc(Owner, {"size": SInt(ctx.fresh_int("other_size"))}, tag="previous-owner")
        for kind in ("MonitoredList", "MonitoredSet"):
            for before in ("unbound", "bound-to-another-individual", "bound-to-this-one"):
                cont = vm.call(cls(vm, MC, kind), [], {"descriptor": desc})
                if before != "unbound":
                    vm.call_method(cont, "_bind_owner", other if before.startswith("bound-to-another") else owner)
                vm.call(vm._getattr(cls(vm, PD, "PropertyDescriptor"), "_bind_owner_if_container_type"), [cont], {"owner": owner})
                now = vm._getattr(cont, "_owner")
                ctx.check("PropertyDescriptor._bind_owner_if_container_type::the-container-is-bound-to-the-individual-that-holds-it-now",
                          z3.BoolVal(now is owner), detail=f"{kind}, {before}: owner afterwards {now!r}")
        # and a write through it afterwards is recorded for that individual
        cont = vm.call(cls(vm, MC, "MonitoredList"), [], {"descriptor": desc})
        vm.call_method(cont, "_bind_owner", other)
        owner.fields["_items"] = cont
        del rel[:]
        run_stmt(vm, "owner.items.append(e1)", {"owner": owner, "e1": elems["e1"]})
        ctx.check("PropertyDescriptor.__get__::a-write-through-a-handed-over-container-is-recorded-for-its-present-holder",
                  z3.BoolVal(len(rel) == 1 and rel[0][0] is owner and rel[0][1] is elems["e1"]), detail=repr(rel))
    return Harness("bind-owner", run, spec=Spec())


def h_canary():
    def run(vm):
        owner, E, rel, desc = setup(vm, "list")
        run_stmt(vm, "owner.items = [a, b]", dict(E, owner=owner))
        _, c = contents(vm, owner)
        # deliberately false: claims assignment reverses the list
        vm.ctx.check("CANARY", z3.BoolVal(same_seq(c, [E["b"], E["a"]])))
    return Harness("canary", run, expect_fail=True)


def harnesses():
    hs = []
    for kind in ("list", "set"):
        for init in INITIALS:
            hs.append(h_ops(kind, init))
    hs += [h_any_length("list", "assign"), h_any_length("set", "assign"), h_any_length("list", "extend"), h_any_length("set", "update")]
    hs += [h_inferred_paths(), h_single_valued(), h_bind_owner(), h_canary()]
    return hs


def harnesses_thorough():
    """thorough tier: initial contents of length 3 as well"""
    INITIALS["three"] = ["e1", "e2", "e1"] if False else ["e1", "e2", "a"]
    try:
        hs = harnesses()
    finally:
        pass
    return hs
