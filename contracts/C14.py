"""C14 — asserting a relation has the same effect whatever objects lived and died before.

Induction over histories: every SymbolGraph operation preserves the representation invariant WF (sgmodel.py) from *any*
WF state — in particular from states in which instances have died (environment step: live(i) may be false for any
registered wrapper) and in which the graph hands out previously used node indices and CPython previously used
addresses.  The clauses that carry C14 are I2 (id-keyed index), I4 (relation index mirrors the edges) and the
posts of remove_node ("nothing of the removed wrapper is left behind"), add_relation/relation_exists and
ensure_wrapped_instance.
"""
from __future__ import annotations
import z3

from pyvc.framework import Harness
from pyvc.interp import Spec, PyRaise, INLINE, LoopSpec
from pyvc.values import SInt, SBool, Obj, Opaque
from pyvc.ops import zint, zbool
from .sgmodel import World, State, wf, wid_of, SG, NONE_ID, V, Wr, In, Cl, Fd, Nd, Ad, NOW

PROPERTY = "C14"
FUNCTIONS = [(SG, "SymbolGraph.add_node"), (SG, "SymbolGraph.remove_node"), (SG, "SymbolGraph.remove_dead_instances"),
             (SG, "SymbolGraph.add_relation"), (SG, "SymbolGraph.relation_exists"),
             (SG, "SymbolGraph.get_wrapped_instance"), (SG, "SymbolGraph.ensure_wrapped_instance"),
             (SG, "WrappedInstance.__post_init__"), (SG, "PredicateClassRelation.__post_init__"),
             (SG, "PredicateClassRelation.add_to_graph")]
ASSUMPTIONS = [
    "rustworkx.PyDiGraph: add_node returns an index not in use now (possibly used before); remove_node drops the node and its "
    "incident edges; nodes() is a snapshot list with each node once; add_edge adds an edge between existing nodes",
    "id() is injective among simultaneously live objects only; a dead object's address may be handed to a new object; id(None) "
    "differs from every instance address",
    "a weak reference returns its referent while it is alive and None afterwards; death is an environment step between calls",
    "dict / defaultdict(list) / set operations have Python semantics (model containers in contracts/sgmodel.py)",
    "remove_node is reached for dead referents (the sweep); list.remove finds the wrapper by identity",
]
TRUSTED = ["assumed contract of rustworkx.PyDiGraph, of id()/weakref and of the dict/list/set builtins (sgmodel.py)"]
BOUNDED_ONLY_CLAUSES = ["that the INFERENCES a new relation triggers (C15's rules, which walk the neighbouring edges) are unaffected by edges of dead, "
                        "not yet swept instances is carried by one obligation on the transitive rule's neighbour selection and otherwise by the "
                        "garbage-prefix driver; the registry operations themselves are proved from any well-formed state"]


def graph_call(vm, world, name, *args):
    return vm.call_method(world.graph_obj, name, *args)


# ------------------------------------------------------------------ remove_node
def remove_node_loop_specs(world_box):
    """Invariants of the two purge loops of remove_node: the relation index is the pre-state index minus the incident
    edges already visited; nothing else changes."""
    (f,) = V("f", Fd)
    a, b = V("a b", Nd)

    def stream_of(vm, fr, incoming):
        for k in vm.ctx.ghost:
            if isinstance(k, tuple) and k[0] == "consumed" and k[1].startswith("in_edges" if incoming else "out_edges"):
                return k
        return None

    def inv(incoming):
        def fn(vm, fr):
            world = world_box[0]
            pre = getattr(world, "entry", None) or world.pre      # the state at the entry of remove_node
            S = world.S
            i0 = world.pre.idx(world.w0.fields["wid"])
            fs = []
            key = stream_of(vm, fr, incoming)
            k = vm.ctx.ghost.get(key, 0) if key else 0
            k = z3.IntVal(k) if isinstance(k, int) else k
            streams = world_box[1]
            pos_in = streams.get("in")
            pos_out = streams.get("out")
            if incoming:
                gone = (lambda ff, x, y: z3.And(y == i0, pre.edge(x, y, ff), pos_in(x, ff) < k)) if pos_in is not None else (lambda ff, x, y: z3.BoolVal(False))
            else:
                gone = lambda ff, x, y: z3.Or(z3.And(y == i0, pre.edge(x, y, ff)),
                                              z3.And(x == i0, pre.edge(x, y, ff), pos_out(y, ff) < k) if pos_out is not None else z3.BoolVal(False))
            fs.append(z3.ForAll([f, a, b], S.rel(f, a, b) == z3.And(pre.rel(f, a, b), z3.Not(gone(f, a, b)))))
            fs.append(z3.ForAll([f], S.relp(f) == pre.relp(f)))
            return z3.And(fs)
        return fn

    def modifies(vm, fr, names, attrs, conts):
        world_box[0].havoc(["rel", "relp"])
        return names, set(), set()
    return {("SymbolGraph.remove_node", 0): LoopSpec(inv=inv(True), modifies=modifies, name="index minus visited incoming edges"),
            ("SymbolGraph.remove_node", 1): LoopSpec(inv=inv(False), modifies=modifies, name="index minus incoming and visited outgoing edges")}


def h_remove_node():
    box = [None, {}]
    spec = Spec()
    spec.loops.update(remove_node_loop_specs(box))
    by_stream = remove_node_loop_specs(box)
    spec.stream_loops["in_edges"] = by_stream[("SymbolGraph.remove_node", 0)]
    spec.stream_loops["out_edges"] = by_stream[("SymbolGraph.remove_node", 1)]

    def run(vm):
        ctx = vm.ctx
        world = World(vm)
        box[0] = world
        box[1].clear()
        world.assume_wf()
        pre = world.pre
        w0 = world.fresh_wrapper("w0", registered=True)
        world.w0 = w0
        wid0 = w0.fields["wid"]
        # remember the position functions of the edge snapshots for the invariants
        g = world.graph_obj.fields["_instance_graph"]
        orig = g.m_getattr

        def m_getattr(vm_, name):
            b = orig(vm_, name)
            if name in ("in_edges", "out_edges"):
                def wrapped(it, fr, a, kw, _b=b, _n=name):
                    s_ = _b.fn(it, fr, a, kw)
                    box[1]["in" if _n == "in_edges" else "out"] = s_.meta["pos"]
                    return s_
                from pyvc.values import Builtin
                return Builtin(b.name, wrapped)
            return b
        g.m_getattr = m_getattr
        ctx.assume(z3.Not(pre.live(pre.ref(wid0))))       # the referent has died (sweep)
        graph_call(vm, world, "remove_node", w0)
        ctx.cover("returned")
        P = world.post_state(lambda w: z3.And(pre.W(w), w != wid0))
        world.check_wf("SymbolGraph.remove_node", P)
        (k,), (c,), (f,), (w,) = V("k", Ad), V("c", Cl), V("f", Fd), V("w", Wr)
        a, b = V("a b", Nd)
        i0 = pre.idx(wid0)
        ctx.check("SymbolGraph.remove_node::leaves-no-id-index-entry-for-the-removed-wrapper", z3.ForAll([k], P.inst(k) != wid0))
        ctx.check("SymbolGraph.remove_node::leaves-no-class-list-entry", z3.ForAll([c], P.cnt(c, wid0) == 0))
        ctx.check("SymbolGraph.remove_node::leaves-no-relation-index-pair-with-the-freed-node-index",
                  z3.ForAll([f, a, b], z3.Implies(P.rel(f, a, b), z3.And(a != i0, b != i0))))
        ctx.check("SymbolGraph.remove_node::other-wrappers-untouched",
                  z3.ForAll([w], z3.Implies(z3.And(pre.W(w), w != wid0),
                                            z3.And(P.idx(w) == pre.idx(w), P.nodeAt(pre.idx(w)) == w,
                                                   z3.Implies(pre.live(pre.ref(w)), P.inst(pre.addr(pre.ref(w))) == w)))))
    return Harness("remove_node", run, spec=spec, covers=["returned"], timeout_ms=20000)


# ------------------------------------------------------------------ add_node
def h_add_node():
    def run(vm):
        ctx = vm.ctx
        world = World(vm)
        world.assume_wf()
        pre = world.pre
        w0 = world.fresh_wrapper("w_new", registered=False)
        wid0 = w0.fields["wid"]
        (w,) = V("w", Wr)
        ctx.assume(pre.live(pre.ref(wid0)))
        ctx.assume(z3.ForAll([w], z3.Implies(pre.W(w), pre.ref(w) != pre.ref(wid0))))     # the instance is not registered yet
        graph_call(vm, world, "add_node", w0)
        ctx.cover("returned")
        P = world.post_state(lambda x: z3.Or(pre.W(x), x == wid0))
        world.check_wf("SymbolGraph.add_node", P)
        ctx.check("SymbolGraph.add_node::wrapper-found-under-the-address-of-its-instance", P.inst(pre.addr(pre.ref(wid0))) == wid0)
        ctx.check("SymbolGraph.add_node::back-pointer-set", z3.BoolVal(w0.fields.get("_symbol_graph_") is world.graph_obj))
        ctx.check("SymbolGraph.add_node::other-wrappers-untouched",
                  z3.ForAll([w], z3.Implies(pre.W(w), z3.And(P.idx(w) == pre.idx(w), P.nodeAt(pre.idx(w)) == w))))
        (f,) = V("f", Fd)
        a, b = V("a b", Nd)
        ctx.check("SymbolGraph.add_node::edges-and-relation-index-untouched",
                  z3.ForAll([f, a, b], z3.And(P.rel(f, a, b) == pre.rel(f, a, b), P.edge(a, b, f) == pre.edge(a, b, f))))
    return Harness("add_node", run, spec=Spec(), covers=["returned"], timeout_ms=20000)


# ------------------------------------------------------------------ add_relation / relation_exists
def relation_obj(vm, world, src, tgt, field):
    PCR = vm.loader.cls(SG, "PredicateClassRelation")
    return vm.alloc(PCR, {"source": src, "target": tgt, "wrapped_field": field, "inferred": False}, tag="relation")


def h_add_relation():
    def run(vm):
        ctx = vm.ctx
        world = World(vm)
        world.assume_wf()
        pre = world.pre
        same = ctx.choice(2, "source-is-target")
        src = world.fresh_wrapper("src", registered=True)
        tgt = src if same else world.fresh_wrapper("tgt", registered=True)
        fld = world.new_field("f0")
        f0 = fld.fields["fcode"]
        si, ti = pre.idx(src.fields["wid"]), pre.idx(tgt.fields["wid"])
        rel = relation_obj(vm, world, src, tgt, fld)
        existed = pre.edge(si, ti, f0)
        ex = graph_call(vm, world, "relation_exists", rel)
        ctx.check("SymbolGraph.relation_exists::iff-the-edge-is-in-the-graph", zbool(ex) == existed)
        r = graph_call(vm, world, "add_relation", rel)
        ctx.cover("returned")
        P = world.post_state(pre.W)
        ctx.check("SymbolGraph.add_relation::returns-true-iff-the-edge-was-new", zbool(r) == z3.Not(existed))
        (f,) = V("f", Fd)
        a, b = V("a b", Nd)
        ctx.check("SymbolGraph.add_relation::edge-present-afterwards-and-nothing-else-changes",
                  z3.ForAll([f, a, b], P.edge(a, b, f) == z3.Or(pre.edge(a, b, f), z3.And(a == si, b == ti, f == f0))))
        world.check_wf("SymbolGraph.add_relation", P)
        ex2 = graph_call(vm, world, "relation_exists", rel)
        ctx.check("SymbolGraph.relation_exists::true-after-add", zbool(ex2))
    return Harness("add_relation", run, spec=Spec(), covers=["returned"], timeout_ms=20000)


# ------------------------------------------------------------------ get / ensure wrapped instance
def h_ensure_registered():
    def run(vm):
        ctx = vm.ctx
        world = World(vm)
        world.assume_wf()
        pre = world.pre
        w = world.fresh_wrapper("w_of_x", registered=True)
        wid = w.fields["wid"]
        ctx.assume(pre.live(pre.ref(wid)))
        x = world.instance(pre.ref(wid))
        r = graph_call(vm, world, "ensure_wrapped_instance", x)
        ctx.cover("returned")
        ctx.check("SymbolGraph.ensure_wrapped_instance::returns-the-wrapper-whose-referent-is-the-argument",
                  z3.BoolVal(isinstance(r, Obj) and "wid" in r.fields) if not (isinstance(r, Obj) and "wid" in r.fields) else r.fields["wid"] == wid)
        P = world.post_state(pre.W)
        world.check_wf("SymbolGraph.ensure_wrapped_instance[registered]", P)
        r2 = graph_call(vm, world, "get_wrapped_instance", w)
        ctx.check("SymbolGraph.get_wrapped_instance::wrapper-argument-is-returned-as-is", z3.BoolVal(r2 is w))
    return Harness("ensure-registered", run, spec=Spec(), covers=["returned"], timeout_ms=20000)


def h_ensure_unregistered():
    def run(vm):
        ctx = vm.ctx
        world = World(vm)
        world.assume_wf()
        pre = world.pre
        xi = ctx.fresh_const("x", In, register=True)
        (wv,) = V("w", Wr)
        ctx.assume(pre.live(xi))
        ctx.assume(z3.ForAll([wv], z3.Implies(pre.W(wv), pre.ref(wv) != xi)))      # x is not registered
        ctx.assume(pre.inst(pre.addr(xi)) == NOW)                                   # and nothing is left behind under its address
        x = world.instance(xi)
        made = []

        def ctor(it, a, k):
            nw = world.fresh_wrapper("w_created", registered=False)
            ctx.assume(pre.ref(nw.fields["wid"]) == xi)
            made.append((nw, a[1:]))
            return nw
        vm.spec.stubs["WrappedInstance.__call__"] = ctor
        r = graph_call(vm, world, "ensure_wrapped_instance", x)
        ctx.cover("returned")
        ok = len(made) == 1 and made[0][1] == [x] and r is made[0][0]
        ctx.check("SymbolGraph.ensure_wrapped_instance::unregistered-instance-gets-one-new-wrapper", z3.BoolVal(ok))
        if ok:
            wid = r.fields["wid"]
            P = world.post_state(lambda y: z3.Or(pre.W(y), y == wid))
            world.check_wf("SymbolGraph.ensure_wrapped_instance[new]", P)
            ctx.check("SymbolGraph.ensure_wrapped_instance::new-wrapper-registered-under-the-address", P.inst(pre.addr(xi)) == wid)
    return Harness("ensure-unregistered", run, spec=Spec(), covers=["returned"], timeout_ms=20000)


def h_wrapped_instance_ctor():
    """WrappedInstance(instance): stores a *weak* reference and the type, nothing else that could keep it alive."""
    def run(vm):
        ctx = vm.ctx
        inst = vm.alloc(vm.loader.cls("krrood.entity_query_language.symbolic", "SetOf"), {}, tag="some-instance")
        w = vm.call(vm.loader.cls(SG, "WrappedInstance"), [inst], {})
        ref = w.fields.get("instance_reference")
        ok = (isinstance(ref, Obj) and getattr(ref.cls, "name", "") == "weakref" and ref.fields["referent"] is inst
              and w.fields.get("instance_type") is inst.cls and w.fields.get("index") is None)
        strong = [k for k, v in w.fields.items() if v is inst]
        ctx.check("WrappedInstance.__post_init__::holds-the-instance-weakly-and-records-its-type", z3.BoolVal(ok and not strong),
                  detail=f"fields={w.fields} strong={strong}")
        ctx.check("WrappedInstance.instance::dereferences-the-weak-reference", z3.BoolVal(vm._getattr(w, "instance") is inst))
        ref.fields["alive"] = False
        ctx.check("WrappedInstance.instance::none-after-death", z3.BoolVal(vm._getattr(w, "instance") is None))
    return Harness("wrapped-instance-ctor", run, spec=Spec())


def h_relation_post_init():
    """PredicateClassRelation(source, target, ..): both ends are resolved through ensure_wrapped_instance; add_to_graph
    returns what add_relation returns."""
    def run(vm):
        ctx = vm.ctx
        calls = []
        g = vm.alloc(vm.ext("object"), {}, tag="graph")
        from pyvc.values import Builtin
        wrap = {}

        def ensure(it, fr, a, k):
            calls.append(("ensure", a[0]))
            wrap.setdefault(id(a[0]), it.alloc(it.ext("object"), {}, tag="wrapped"))
            return wrap[id(a[0])]
        g.fields["ensure_wrapped_instance"] = Builtin("ensure", ensure)
        g.fields["add_relation"] = Builtin("add_relation", lambda it, fr, a, k: (calls.append(("add", a[0])), "RESULT")[1])
        vm.spec.stubs["SymbolGraph.__call__"] = lambda it, a, k: g
        s = vm.alloc(vm.ext("object"), {}, tag="s")
        t = vm.alloc(vm.ext("object"), {}, tag="t")
        fld = vm.alloc(vm.ext("object"), {}, tag="field")
        r = vm.call(vm.loader.cls(SG, "PredicateClassRelation"), [s, t, fld], {})
        ok = r.fields["source"] is wrap[id(s)] and r.fields["target"] is wrap[id(t)] and r.fields["wrapped_field"] is fld and r.fields["inferred"] is False
        ctx.check("PredicateClassRelation.__post_init__::ends-resolved-through-ensure_wrapped_instance", z3.BoolVal(ok), detail=repr(calls))
        res = vm.call_method(r, "add_to_graph")
        ctx.check("PredicateClassRelation.add_to_graph::is-add_relation", z3.BoolVal(res == "RESULT" and calls[-1] == ("add", r)))
    return Harness("relation-post-init", run, spec=Spec())


def h_canary():
    def run(vm):
        ctx = vm.ctx
        world = World(vm)
        world.assume_wf()
        pre = world.pre
        src = world.fresh_wrapper("src", registered=True)
        fld = world.new_field("f0")
        rel = relation_obj(vm, world, src, src, fld)
        r = graph_call(vm, world, "add_relation", rel)
        # deliberately false: claims add_relation always reports a new edge
        ctx.check("CANARY", zbool(r))
    return Harness("canary", run, expect_fail=True)


def harnesses():
    from .C13 import h_sweep          # the lazy sweep is part of what C14 relies on (proved in C13's module)
    from .C15 import h_transitive_sources      # which neighbouring edges the transitive rule composes with (dead far ends excluded)
    return [h_sweep(), h_remove_node(), h_add_node(), h_add_relation(), h_ensure_registered(), h_ensure_unregistered(),
            h_wrapped_instance_ctor(), h_relation_post_init(), h_transitive_sources(), h_canary()]
