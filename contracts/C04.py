"""C04 — object -> DAO -> object round trip preserves structure, types and aliasing.

Abstract view: a conversion state's memo is a partial INJECTIVE map between the objects of the source graph and the objects of
the target graph (keyed by id()).  Contracts on the real bodies of dao.py (SQLAlchemy's mapper is an assumed model: a list of
columns and a list of relationships with key / direction / uselist):

  DataAccessObject.to_dao(obj, state)   memo hit  => returns the memoised DAO, allocates nothing, writes nothing
                                        memo miss => one DAO of exactly the DAO class is allocated and registered for obj BEFORE any
                                                     field is converted (that is what makes cycles and shared references one object),
                                                     then filled by the default / alternative-parent strategy
  to_dao_default / get_columns_from / get_relationships_from / _extract_*:
        every data column (not pk, not fk, not the polymorphic tag) is copied under the same name;
        a single-valued relationship is None for None, else the DAO the (recursive) conversion returns for that value WITH THE SAME
        STATE; a collection relationship is the list of the conversions of its elements, in order, duplicates kept
  DataAccessObject.from_dao(state)      memo hit => the memoised object; miss => an uninitialised instance of the original class is
                                        allocated and memoised BEFORE relationships are followed; scalars and relationships become
                                        constructor arguments; references found in progress are patched from the memo afterwards;
                                        an AlternativeMapping result is replaced by create_from_dao() and re-memoised
  FromDAOState.parse_single / parse_collection / apply_circular_fixes, ToDAOState.get_existing / register
Round trip: to_dao's memo is an isomorphism onto the DAO graph, from_dao's memo an isomorphism from it (induction over the
recursion with the contracts above as hypotheses for the recursive calls); their composition is the statement.  That
composition is argued here and measured by the bounded driver on random object graphs.
"""
from __future__ import annotations
import z3

from pyvc.framework import Harness
from pyvc.interp import Spec, PyRaise, INLINE
from pyvc.values import Obj, PyList, PyDict, Builtin, Opaque
from pyvc.ops import make_dict, key_of, dict_items as dict_items_
from pyvc.repo import ClassInfo

PROPERTY = "C04"
DAO = "krrood.ormatic.dao"
FUNCTIONS = [("krrood.ormatic.alternative_mappings", "FunctionMapping.create_instance"), ("krrood.ormatic.alternative_mappings", "FunctionMapping.create_from_dao"),
             (DAO, "DataAccessObject.to_dao"), (DAO, "DataAccessObject.to_dao_default"), (DAO, "DataAccessObject.to_dao_if_subclass_of_alternative_mapping"),
             (DAO, "DataAccessObject.partition_parent_child_relationships"), (DAO, "DataAccessObject.get_columns_from"),
             (DAO, "DataAccessObject.get_relationships_from"), (DAO, "DataAccessObject._extract_single_relationship"),
             (DAO, "DataAccessObject._extract_collection_relationship"), (DAO, "DataAccessObject.from_dao"),
             (DAO, "DataAccessObject._allocate_uninitialized_and_memoize"), (DAO, "DataAccessObject._collect_scalar_kwargs"),
             (DAO, "DataAccessObject._collect_relationship_kwargs"), (DAO, "DataAccessObject._call_initializer_or_assign"),
             (DAO, "DataAccessObject._apply_circular_fixes"), (DAO, "DataAccessObject._build_base_kwargs_for_alternative_parent"),
             (DAO, "DataAccessObject.uses_alternative_mapping"), (DAO, "is_data_column"),
             (DAO, "ToDAOState.get_existing"), (DAO, "ToDAOState.register"), (DAO, "ToDAOState.apply_alternative_mapping_if_needed"),
             (DAO, "FromDAOState.has"), (DAO, "FromDAOState.get"), (DAO, "FromDAOState.allocate_and_memoize"),
             (DAO, "FromDAOState.parse_single"), (DAO, "FromDAOState.parse_collection"), (DAO, "FromDAOState.apply_circular_fixes"),
             (DAO, "AlternativeMapping.to_dao"), (DAO, "to_dao")]
ASSUMPTIONS = [
    "sqlalchemy.inspection.inspect(DAO class) lists the mapped columns (name, primary_key, foreign_keys) and relationships (key, "
    "direction, uselist) of the generated class; attribute names of DAO and domain class coincide (ORMatic generates them so: C06)",
    "id() of live objects is injective; the conversion states keep the source objects alive (keep_alive) while their ids are keys",
    "get_dao_class maps a domain class to its generated DAO class (registry lookup over subclasses: C13)",
    "recursive conversions satisfy the same contract (induction over the recursion; termination because every call either hits the "
    "memo or registers a new object of a finite graph first)",
    "user-written AlternativeMapping.create_instance / create_from_dao are inverse on the data they carry",
    "DAO attributes are plain attributes (SQLAlchemy instrumentation, e.g. back-population of bidirectional relationships, is not modelled)",
]
TRUSTED = ["mapper model of SQLAlchemy", "the composition of the two memo isomorphisms into the round-trip statement (argued)"]
BOUNDED_ONLY_CLAUSES = ["mapper width: 5 columns / 4 relationships of every kind; collections of length 3 with a repeated element",
                        "whole round trips on random object graphs with sharing and cycles are measured by the bounded driver",
                        "whole graphs below an alternatively mapped parent (sharing through the rebuilt parent part) are additionally measured by the bounded driver"]

SYNTH = '''
from krrood.ormatic.dao import DataAccessObject, AlternativeMapping


class Thing:
    def __init__(self, **kw):
        self._init_calls = getattr(self, "_init_calls", 0) + 1
        for k, v in kw.items():
            setattr(self, k, v)


class ThingDAO(DataAccessObject):
    pass


class ChildDAO(DataAccessObject):
    pass


class SubThing(Thing):
    pass


class SubDAO(ChildDAO):
    pass


class Mapped(AlternativeMapping):
    def __init__(self, **kw):
        for k, v in kw.items():
            setattr(self, k, v)

    def create_from_dao(self):
        return ("created-from", self)
'''


def cls(vm, mod, name):
    return vm.loader.cls(mod, name)


class Columns(Opaque):
    """sqlalchemy ColumnCollection (assumed): iterates the columns in order; `name in collection` tests by column key"""

    def __init__(self, cols):
        super().__init__("column-collection")
        self.cols = list(cols)

    def m_iter(self, vm):
        return PyList(list(self.cols))

    def m_contains(self, vm, k):
        return any(c is k or c.fields.get("name") == k for c in self.cols)

    def m_truth(self, vm):
        return bool(self.cols)


class Rels(Opaque):
    """sqlalchemy mapper.relationships (assumed): iterates the RelationshipProperty objects in order; keys() / `name in` by key"""

    def __init__(self, rels):
        super().__init__("relationship-collection")
        self.rels = list(rels)

    def m_iter(self, vm):
        return PyList(list(self.rels))

    def m_contains(self, vm, k):
        return any(r is k or r.fields.get("key") == k for r in self.rels)

    def m_truth(self, vm):
        return bool(self.rels)

    def m_getattr(self, vm, name):
        if name == "keys":
            return Builtin("keys", lambda it, fr, a, k: PyList([r.fields.get("key") for r in self.rels]))
        if name == "values":
            return Builtin("values", lambda it, fr, a, k: PyList(list(self.rels)))
        vm.raise_("AttributeError", name)


class DW:
    def __init__(self, vm):
        self.vm = vm
        vm.loader.add_module("pyvc_synth_c04", SYNTH)
        L = vm.loader
        self.dirs = {n: L.external("sqlalchemy.orm", n) for n in ("MANYTOONE", "ONETOMANY", "MANYTOMANY")}
        self.ThingDAO, self.ChildDAO, self.Thing = (cls(vm, "pyvc_synth_c04", n) for n in ("ThingDAO", "ChildDAO", "Thing"))
        self.Mapped = cls(vm, "pyvc_synth_c04", "Mapped")
        self.SubThing, self.SubDAO = cls(vm, "pyvc_synth_c04", "SubThing"), cls(vm, "pyvc_synth_c04", "SubDAO")
        self.mapper = self.make_mapper()
        insp = vm.alloc(vm.ext("object"), {"inspect": Builtin("inspect", lambda it, fr, a, k: self.mapper)}, tag="sqlalchemy.inspection")
        L.externals[("sqlalchemy", "inspection")] = insp
        vm.spec.stubs["HasGeneric.original_class"] = lambda it, a, k: self.Thing
        self.events = []

    def col(self, name, pk=False, fk=0):
        return self.vm.alloc(self.vm.ext("object"), {"name": name, "primary_key": pk, "foreign_keys": PyList([1] * fk)}, tag=f"column-{name}")

    def rel(self, key, direction, uselist):
        return self.vm.alloc(self.vm.ext("object"), {"key": key, "direction": self.dirs[direction], "uselist": uselist, "target": "t"}, tag=f"relationship-{key}")

    def make_mapper(self):
        cols = [self.col("database_id", pk=True), self.col("owner_id", fk=1), self.col("polymorphic_type"), self.col("a"), self.col("b")]
        rels = [self.rel("one", "MANYTOONE", False), self.rel("other", "ONETOMANY", False), self.rel("many", "ONETOMANY", True), self.rel("links", "MANYTOMANY", True)]
        return self.vm.alloc(self.vm.ext("object"), {"columns": PyList(cols), "relationships": PyList(rels)}, tag="mapper")

    def state(self, kind):
        return self.vm.call(cls(self.vm, DAO, kind), [], {})

    def domain(self, tag, **f):
        return self.vm.alloc(self.Thing, dict(f), tag=tag)


def nested_to_dao(W, top_cls):
    """contract of the recursive conversion: memo hit -> memoised DAO; miss -> a fresh DAO of the value's DAO class, registered"""
    vm = W.vm
    depth = [0]

    def stub(it, a, k):
        if depth[0] == 0:
            depth[0] = 1
            return INLINE
        c, obj = a[0], a[1]
        state = k.get("state", a[2] if len(a) > 2 else None)
        W.events.append(("convert", obj, state))
        if state is None:                       # `state or ToDAOState()`: a conversion without a state starts a new memo
            state = W.state("ToDAOState")
        memo = state.fields["memo"]
        kk = key_of(1000000 + obj.oid)
        if kk in memo.keys:
            return memo.vals[kk]
        d = it.alloc(c, {}, tag=f"dao-of-{obj.tag}")
        it.call_method(state, "register", obj, d)
        return d
    vm.spec.stubs["DataAccessObject.to_dao"] = stub
    vm.spec.stubs[f"{DAO}:get_dao_class"] = lambda it, a, k: W.SubDAO if a[0] is W.SubThing else W.ChildDAO
    return depth


# ------------------------------------------------------------------------------------------------ to_dao
def h_to_dao():
    def run(vm):
        ctx = vm.ctx
        W = DW(vm)
        st = W.state("ToDAOState")
        c1 = W.domain("child1")
        c2 = vm.alloc(W.SubThing, {}, tag="child2")           # a subclass instance in a base-typed position
        c3 = W.domain("child3")
        variant = ctx.choice(3, "graph")
        obj = W.domain("root", a=1, b="x", database_id=99, owner_id=98, polymorphic_type="nope",
                       one=c1 if variant != 1 else None, other=c3, many=PyList([c1, c2, c2]), links=PyList([]))
        if variant == 2:
            obj.fields["one"] = obj                      # a cycle back to the object being converted
        filled = []
        vm.spec.stubs["DataAccessObject.to_dao_default"] = INLINE_MARK = None
        del vm.spec.stubs["DataAccessObject.to_dao_default"]
        nested_to_dao(W, W.ThingDAO)
        hit = ctx.choice(2, "memo-hit?") == 0
        if hit:
            known = vm.alloc(W.ThingDAO, {}, tag="known-dao")
            vm.call_method(st, "register", obj, known)
            heap_before = len(vm.heap)
            r = vm.call(vm._getattr(W.ThingDAO, "to_dao"), [obj], {"state": st})
            ctx.check("DataAccessObject.to_dao::a-converted-object-is-answered-from-the-memo", z3.BoolVal(r is known and not W.events), detail=f"{r!r} {W.events}")
            ctx.check("DataAccessObject.to_dao::a-memo-hit-allocates-no-second-dao",
                      z3.BoolVal(not [o for o in vm.heap[heap_before:] if isinstance(o, Obj) and o.cls in (W.ThingDAO, W.ChildDAO)]))
            ctx.cover("hit")
            return
        r = vm.call(vm._getattr(W.ThingDAO, "to_dao"), [obj], {"state": st})
        memo = st.fields["memo"]
        ctx.check("DataAccessObject.to_dao::a-new-object-gets-one-dao-of-exactly-its-dao-class", z3.BoolVal(isinstance(r, Obj) and r.cls is W.ThingDAO))
        ctx.check("DataAccessObject.to_dao::the-dao-is-registered-for-the-object", z3.BoolVal(memo.vals.get(key_of(1000000 + obj.oid)) is r
                                                                                             and st.fields["keep_alive"].vals.get(key_of(1000000 + obj.oid)) is obj))
        # registration precedes the conversion of the fields: a nested conversion of the object itself found it in the memo
        if variant == 2:
            ctx.check("DataAccessObject.to_dao::registration-precedes-the-fields-so-a-cycle-closes-on-the-same-dao", z3.BoolVal(r.fields.get("one") is r), detail=repr(r.fields.get("one")))
        ctx.check("DataAccessObject.get_columns_from::every-data-column-is-copied-under-its-name",
                  z3.BoolVal(r.fields.get("a") == 1 and r.fields.get("b") == "x"), detail=repr(r.fields))
        ctx.check("DataAccessObject.get_columns_from::keys-and-the-polymorphic-tag-are-not-copied",
                  z3.BoolVal(all(n not in r.fields for n in ("database_id", "owner_id", "polymorphic_type"))), detail=repr(sorted(r.fields)))
        d1 = memo.vals.get(key_of(1000000 + c1.oid))
        d2 = memo.vals.get(key_of(1000000 + c2.oid))
        d3 = memo.vals.get(key_of(1000000 + c3.oid))
        if variant == 1:
            ctx.check("DataAccessObject._extract_single_relationship::none-stays-none", z3.BoolVal("one" in r.fields and r.fields["one"] is None))
        elif variant == 0:
            ctx.check("DataAccessObject._extract_single_relationship::the-reference-becomes-the-dao-of-the-referenced-object", z3.BoolVal(r.fields.get("one") is d1 and d1 is not None))
        ctx.check("DataAccessObject._extract_single_relationship::a-scalar-one-to-many-is-treated-as-a-reference", z3.BoolVal(r.fields.get("other") is d3 and d3 is not None))
        many = r.fields.get("many")
        ctx.check("DataAccessObject._extract_collection_relationship::elements-in-order-duplicates-kept-one-dao-per-object",
                  z3.BoolVal(isinstance(many, PyList) and len(many.items) == 3 and many.items[0] is d1 and many.items[1] is d2 and many.items[2] is d2), detail=repr(many))
        ctx.check("DataAccessObject._extract_collection_relationship::every-element-is-converted-with-the-dao-class-of-its-own-type",
                  z3.BoolVal(isinstance(many, PyList) and len(many.items) == 3 and many.items[0].cls is W.ChildDAO and many.items[1].cls is W.SubDAO and many.items[2].cls is W.SubDAO),
                  detail=repr(many))
        links = r.fields.get("links")
        ctx.check("DataAccessObject._extract_collection_relationship::an-empty-collection-stays-empty", z3.BoolVal(isinstance(links, PyList) and links.items == []))
        ctx.check("DataAccessObject.get_relationships_from::every-nested-conversion-shares-the-state",
                  z3.BoolVal(all(e[2] is st for e in W.events) and len(W.events) >= 3), detail=repr(W.events))
        ctx.check("DataAccessObject.to_dao::distinct-objects-get-distinct-daos", z3.BoolVal(len({id(x) for x in (r, d1, d2) if x is not None}) == len([x for x in (r, d1, d2) if x is not None])))
        ctx.cover(f"miss{variant}")
    return Harness("to-dao", run, spec=Spec(), covers=["hit", "miss0", "miss1", "miss2"])


def h_top_level_to_dao():
    """to_dao(obj): looks the DAO class up, fails with NoDAOFoundError when there is none, otherwise delegates with a state"""
    def run(vm):
        ctx = vm.ctx
        W = DW(vm)
        obj = W.domain("root")
        calls = []
        found = ctx.choice(2, "dao-class-found?") == 0
        vm.spec.stubs[f"{DAO}:get_dao_class"] = lambda it, a, k: W.ThingDAO if found else None
        vm.spec.stubs["DataAccessObject.to_dao"] = lambda it, a, k: calls.append((a[0], a[1], a[2] if len(a) > 2 else k.get("state"))) or "the-dao"
        vm.spec.opaque_hooks["type"] = lambda it, v: W.Thing
        f = vm.module_global(DAO, "to_dao")
        try:
            r = vm.call(f, [obj], {})
            ok = found and r == "the-dao" and len(calls) == 1 and calls[0][0] is W.ThingDAO and calls[0][1] is obj and isinstance(calls[0][2], Obj)
        except PyRaise as pr:
            ok = (not found) and pr.exc.cls.name == "NoDAOFoundError" and not calls
        ctx.check("to_dao::delegates-to-the-dao-class-of-the-objects-type-or-fails-loudly", z3.BoolVal(ok), detail=repr(calls))
    return Harness("top-level-to-dao", run, spec=Spec())


def h_alternative_to_dao():
    """AlternativeMapping.to_dao: memoised DAO if converted before, the object itself if it already is the mapping, else create_instance"""
    def run(vm):
        ctx = vm.ctx
        W = DW(vm)
        st = W.state("ToDAOState")
        case = ctx.choice(3, "case")
        made = []
        vm.spec.stubs["AlternativeMapping.create_instance"] = lambda it, a, k: made.append(a[1]) or "instance"
        f = W.Mapped.find("to_dao", vm.loader)[2]
        if case == 0:
            obj = W.domain("o")
            known = vm.alloc(W.ThingDAO, {}, tag="known")
            vm.call_method(st, "register", obj, known)
            r = vm.call_func(f, [W.Mapped, obj, st], {})
            ctx.check("AlternativeMapping.to_dao::memoised-dao-wins", z3.BoolVal(r is known and not made))
        elif case == 1:
            obj = vm.alloc(W.Mapped, {}, tag="already-mapped")
            r = vm.call_func(f, [W.Mapped, obj, st], {})
            ctx.check("AlternativeMapping.to_dao::a-mapping-instance-is-passed-through", z3.BoolVal(r is obj and not made))
        else:
            obj = W.domain("o")
            r = vm.call_func(f, [W.Mapped, obj, st], {})
            ctx.check("AlternativeMapping.to_dao::otherwise-the-users-create_instance-is-used", z3.BoolVal(r == "instance" and made == [obj]))
        ctx.cover(f"case{case}")
    return Harness("alternative-to-dao", run, spec=Spec(), covers=["case0", "case1", "case2"])


# ------------------------------------------------------------------------------------------------ from_dao
def h_from_dao():
    def run(vm):
        ctx = vm.ctx
        W = DW(vm)
        st = W.state("FromDAOState")
        variant = ctx.choice(3, "graph")
        d1, d2 = vm.alloc(W.ChildDAO, {}, tag="dao1"), vm.alloc(W.ChildDAO, {}, tag="dao2")
        dao = vm.alloc(W.ThingDAO, {"a": 1, "b": "x", "database_id": 5, "owner_id": 6, "polymorphic_type": "T", "one": d1 if variant != 1 else None,
                                    "other": d2, "many": PyList([d1, d2, d2]), "links": PyList([])}, tag="root-dao")
        if variant == 2:
            dao.fields["one"] = dao
        vm.spec.stubs["DataAccessObject._argument_names"] = lambda it, a, k: PyList(["a", "b", "one", "other", "many", "links"])
        order = []
        depth = [0]

        def nested(it, a, k):
            if depth[0] == 0:
                depth[0] = 1
                return INLINE
            d = a[0]
            state = k.get("state", a[1] if len(a) > 1 else None)
            order.append(("convert", d, state, dict(st.fields["memo"].vals)))
            if it.truth(it.call_method(state, "has", d)):
                return it.call_method(state, "get", d)
            o = it.alloc(W.Thing, {}, tag=f"object-of-{d.tag}")
            state.fields["memo"].keys[key_of(1000000 + d.oid)] = 1000000 + d.oid
            state.fields["memo"].vals[key_of(1000000 + d.oid)] = o
            return o
        vm.spec.stubs["DataAccessObject.from_dao"] = nested
        inits = []
        hit = ctx.choice(2, "memo-hit?") == 0
        if hit:
            known = W.domain("known-object")
            st.fields["memo"].keys[key_of(1000000 + dao.oid)] = 1000000 + dao.oid
            st.fields["memo"].vals[key_of(1000000 + dao.oid)] = known
            r = vm.call_method(dao, "from_dao", state=st)
            ctx.check("DataAccessObject.from_dao::a-converted-dao-is-answered-from-the-memo", z3.BoolVal(r is known and not order and not inits))
            ctx.cover("hit")
            return
        try:
            r = vm.call_method(dao, "from_dao", state=st)
        except PyRaise as pr:
            ctx.fail("DataAccessObject.from_dao::no-exception", detail=f"{pr.exc!r} {pr.exc.fields.get('args')}")
            return
        memo = st.fields["memo"]
        ctx.check("DataAccessObject.from_dao::the-result-is-an-instance-of-exactly-the-original-class", z3.BoolVal(isinstance(r, Obj) and r.cls is W.Thing))
        ctx.check("DataAccessObject.from_dao::the-result-is-memoised-for-the-dao", z3.BoolVal(memo.vals.get(key_of(1000000 + dao.oid)) is r))
        ctx.check("DataAccessObject.from_dao::memoised-before-relationships-are-followed",
                  z3.BoolVal(bool(order) and all(key_of(1000000 + dao.oid) in e[3] for e in order)), detail=repr(len(order)))
        o1, o2 = memo.vals.get(key_of(1000000 + d1.oid)), memo.vals.get(key_of(1000000 + d2.oid))
        ctx.check("DataAccessObject._collect_scalar_kwargs::data-columns-become-constructor-arguments-keys-do-not",
                  z3.BoolVal(r.fields.get("a") == 1 and r.fields.get("b") == "x" and all(n not in r.fields for n in ("database_id", "owner_id", "polymorphic_type"))), detail=repr(sorted(r.fields)))
        if variant == 0:
            ctx.check("DataAccessObject.from_dao::a-reference-becomes-the-object-of-the-referenced-dao", z3.BoolVal(r.fields.get("one") is o1 and o1 is not None))
        elif variant == 1:
            ctx.check("DataAccessObject.from_dao::none-stays-none", z3.BoolVal("one" in r.fields and r.fields["one"] is None))
        else:
            ctx.check("DataAccessObject.from_dao::a-cycle-closes-on-the-same-object", z3.BoolVal(r.fields.get("one") is r), detail=repr(r.fields.get("one")))
        ctx.check("DataAccessObject.from_dao::scalar-one-to-many-is-a-reference", z3.BoolVal(r.fields.get("other") is o2 and o2 is not None))
        many = r.fields.get("many")
        items = many.items if isinstance(many, PyList) else None
        ctx.check("DataAccessObject.from_dao::collections-keep-order-and-duplicates-one-object-per-dao",
                  z3.BoolVal(items is not None and len(items) == 3 and items[0] is o1 and items[1] is o2 and items[2] is o2), detail=repr(many))
        links = r.fields.get("links")
        ctx.check("DataAccessObject.from_dao::an-empty-collection-stays-empty", z3.BoolVal(isinstance(links, PyList) and links.items == []), detail=repr(links))
        ctx.check("DataAccessObject.from_dao::every-nested-conversion-shares-the-state", z3.BoolVal(all(e[2] is st for e in order)))
        ctx.check("DataAccessObject.from_dao::the-constructor-runs-once-on-the-memoised-instance", z3.BoolVal(r.fields.get("_init_calls") == 1), detail=repr(r.fields.get("_init_calls")))
        ctx.check("DataAccessObject.from_dao::in-progress-mark-is-removed", z3.BoolVal(key_of(1000000 + dao.oid) not in st.fields["in_progress"].keys))
        ctx.cover(f"miss{variant}")
    return Harness("from-dao", run, spec=Spec(), covers=["hit", "miss0", "miss1", "miss2"])


def h_from_dao_alternative():
    """a DAO whose original class is an AlternativeMapping: the mapping object is replaced by create_from_dao() and re-memoised"""
    def run(vm):
        ctx = vm.ctx
        W = DW(vm)
        st = W.state("FromDAOState")
        vm.spec.stubs["HasGeneric.original_class"] = lambda it, a, k: W.Mapped
        W.mapper.fields["relationships"] = PyList([])
        dao = vm.alloc(W.ThingDAO, {"a": 1, "b": 2}, tag="alt-dao")
        vm.spec.stubs["DataAccessObject._argument_names"] = lambda it, a, k: PyList(["a", "b"])
        r = vm.call_method(dao, "from_dao", state=st)
        ok = isinstance(r, tuple) and r[0] == "created-from" and isinstance(r[1], Obj) and r[1].cls is W.Mapped and r[1].fields.get("a") == 1
        ctx.check("DataAccessObject.from_dao::an-alternative-mapping-is-turned-into-the-domain-object-it-describes", z3.BoolVal(ok), detail=repr(r))
        ctx.check("DataAccessObject.from_dao::the-memo-holds-the-final-object-not-the-mapping", z3.BoolVal(st.fields["memo"].vals.get(key_of(1000000 + dao.oid)) is r))
    return Harness("from-dao-alternative", run, spec=Spec())


def h_to_dao_below_alternative_parent():
    """to_dao_if_subclass_of_alternative_mapping: the inherited part is taken from the parent's MAPPING of the object, the own part
    from the object; the object stays registered under its own DAO (the temporary removal from the memo is undone)."""
    def run(vm):
        ctx = vm.ctx
        W = DW(vm)
        st = W.state("ToDAOState")
        pcols = [W.col("database_id", pk=True), W.col("p1")]
        prels = [W.rel("prel", "MANYTOONE", False)]
        ccols = pcols + [W.col("c1"), W.col("polymorphic_type")]
        # the alternatively mapped class may be a GRANDPARENT: a class in between declares a relationship of its own (irel); the
        # object's own part is everything its DAO has beyond the alternatively mapped ancestor's DAO
        irels = prels + [W.rel("irel", "MANYTOONE", False)]
        crels = irels + [W.rel("crel", "ONETOMANY", True)]
        attrs = [vm.alloc(vm.ext("object"), {"columns": PyList([c]), "key": c.fields["name"]}, tag="column-attr") for c in ccols]
        pmapper = vm.alloc(vm.ext("object"), {"columns": Columns(pcols), "relationships": Rels(prels), "inherits": None}, tag="parent-mapper")
        imapper = vm.alloc(vm.ext("object"), {"columns": Columns(pcols), "relationships": Rels(irels), "inherits": pmapper}, tag="intermediate-mapper")
        cmapper = vm.alloc(vm.ext("object"), {"columns": Columns(ccols), "relationships": Rels(crels), "column_attrs": PyList(attrs), "inherits": imapper}, tag="child-mapper")
        ParentDAO = W.ChildDAO            # stands for the DAO of the alternatively mapped parent
        insp = vm.loader.externals[("sqlalchemy", "inspection")]
        insp.fields["inspect"] = Builtin("inspect", lambda it, fr, a, k: pmapper if a[0] is ParentDAO else cmapper)
        vm.spec.stubs["HasGeneric.original_class"] = lambda it, a, k: W.Mapped if a[0] is ParentDAO else W.Thing
        k1, k2 = W.domain("kid-of-mapping"), W.domain("kid-of-object")
        k3 = W.domain("kid-of-the-intermediate-class")
        obj = W.domain("root", p1="object-p1", c1="object-c1", prel=k2, irel=k3, crel=PyList([k2]))
        mapping = vm.alloc(W.Mapped, {"p1": "mapped-p1", "prel": k1}, tag="mapping-of-root")
        vm.spec.stubs["AlternativeMapping.create_instance"] = lambda it, a, k: mapping
        nested_to_dao(W, W.ThingDAO)[0] = 1            # every DataAccessObject.to_dao call below is answered by the contract
        dao = vm.alloc(W.ThingDAO, {}, tag="dao-under-construction")
        vm.call_method(st, "register", obj, dao)
        vm.call_method(dao, "to_dao_if_subclass_of_alternative_mapping", obj, ParentDAO, st)
        memo = st.fields["memo"]
        ctx.check("DataAccessObject.to_dao_if_subclass_of_alternative_mapping::the-object-stays-registered-under-its-own-dao",
                  z3.BoolVal(memo.vals.get(key_of(1000000 + obj.oid)) is dao), detail=repr(memo.vals.get(key_of(1000000 + obj.oid))))
        ctx.check("DataAccessObject.to_dao_if_subclass_of_alternative_mapping::inherited-columns-come-from-the-parents-mapping-own-columns-from-the-object",
                  z3.BoolVal(dao.fields.get("p1") == "mapped-p1" and dao.fields.get("c1") == "object-c1" and "polymorphic_type" not in dao.fields and "database_id" not in dao.fields),
                  detail=repr(dao.fields))
        d1, d2 = memo.vals.get(key_of(1000000 + k1.oid)), memo.vals.get(key_of(1000000 + k2.oid))
        crel = dao.fields.get("crel")
        ctx.check("DataAccessObject.to_dao_if_subclass_of_alternative_mapping::inherited-relationships-come-from-the-mapping-own-relationships-from-the-object",
                  z3.BoolVal(d1 is not None and dao.fields.get("prel") is d1 and isinstance(crel, PyList) and len(crel.items) == 1 and crel.items[0] is d2 and d2 is not None),
                  detail=f"{dao.fields.get('prel')!r} {crel!r}")
        d3 = memo.vals.get(key_of(1000000 + k3.oid))
        ctx.check("DataAccessObject.to_dao_if_subclass_of_alternative_mapping::relationships-declared-between-the-mapped-ancestor-and-the-objects-class-come-from-the-object",
                  z3.BoolVal(d3 is not None and dao.fields.get("irel") is d3), detail=f"irel = {dao.fields.get('irel')!r}")
        ctx.check("DataAccessObject.to_dao_if_subclass_of_alternative_mapping::nested-conversions-share-the-state", z3.BoolVal(all(e[2] is st for e in W.events)), detail=repr(W.events))
    return Harness("to-dao-below-alternative-parent", run, spec=Spec())


def h_from_dao_below_alternative_parent():
    """_build_base_kwargs_for_alternative_parent: the parent part of an inherited DAO is rebuilt through ONE nested from_dao on a fresh
    DAO of the alternatively mapped base that carries the data columns and relationships of this DAO -- in the SAME conversion state
    (objects first reached through the parent part are memoised for everybody); arguments the DAO lacks are read off the result"""
    def run(vm):
        ctx = vm.ctx
        W = DW(vm)
        st = W.state("FromDAOState")
        pcols = [W.col("database_id", pk=True), W.col("p1"), W.col("polymorphic_type")]
        prels = [W.rel("holder", "MANYTOONE", False)]
        pmapper = vm.alloc(vm.ext("object"), {"columns": Columns(pcols), "relationships": Rels(prels)}, tag="parent-mapper")
        insp = vm.loader.externals[("sqlalchemy", "inspection")]
        insp.fields["inspect"] = Builtin("inspect", lambda it, fr, a, k: pmapper)
        vm.spec.stubs["DataAccessObject.uses_alternative_mapping"] = lambda it, a, k: True
        calls = []
        rebuilt = W.domain("rebuilt-parent-part", owner="the-owner", p1="parent-p1")

        def nested_from_dao(it, a, k):
            calls.append((a[0], k.get("state", a[1] if len(a) > 1 else None)))
            return rebuilt
        vm.spec.stubs["DataAccessObject.from_dao"] = nested_from_dao
        shared = vm.alloc(W.ChildDAO, {}, tag="dao-of-a-shared-object")
        me = vm.alloc(W.SubDAO, {"database_id": 7, "p1": "p1-value", "polymorphic_type": "sub", "holder": shared, "own": 3}, tag="inherited-dao")
        kw = vm.call_method(me, "_build_base_kwargs_for_alternative_parent", PyList(["owner", "own", "p1", "missing"]), st)
        ok_call = (len(calls) == 1 and isinstance(calls[0][0], Obj) and calls[0][0].cls is W.ChildDAO and calls[0][0] is not me and calls[0][1] is st)
        ctx.check("DataAccessObject._build_base_kwargs_for_alternative_parent::one-nested-conversion-of-a-fresh-parent-dao-in-the-same-state", z3.BoolVal(bool(ok_call)),
                  detail=f"{calls!r} (state given: {st!r})")
        if ok_call:
            p = calls[0][0]
            ctx.check("DataAccessObject._build_base_kwargs_for_alternative_parent::the-parent-dao-carries-this-daos-data-columns-and-relationships",
                      z3.BoolVal(p.fields.get("p1") == "p1-value" and p.fields.get("holder") is shared and "database_id" not in p.fields and "polymorphic_type" not in p.fields),
                      detail=repr(p.fields))
        got = dict(dict_items_(kw)) if isinstance(kw, PyDict) else None
        ctx.check("DataAccessObject._build_base_kwargs_for_alternative_parent::arguments-this-dao-lacks-are-read-off-the-rebuilt-parent-part",
                  z3.BoolVal(got == {"owner": "the-owner"}), detail=repr(got))
    return Harness("from-dao-below-alternative-parent", run, spec=Spec())


def h_states():
    def run(vm):
        ctx = vm.ctx
        W = DW(vm)
        ts = W.state("ToDAOState")
        o, d = W.domain("o"), vm.alloc(W.ThingDAO, {}, tag="d")
        ctx.check("ToDAOState.get_existing::unknown-object-has-no-dao", z3.BoolVal(vm.call_method(ts, "get_existing", o) is None))
        vm.call_method(ts, "register", o, d)
        ctx.check("ToDAOState.register::then-get_existing-returns-it-and-the-object-is-kept-alive",
                  z3.BoolVal(vm.call_method(ts, "get_existing", o) is d and ts.fields["keep_alive"].vals.get(key_of(1000000 + o.oid)) is o))
        o2 = W.domain("o2")
        ctx.check("ToDAOState.get_existing::another-object-is-not-confused", z3.BoolVal(vm.call_method(ts, "get_existing", o2) is None))
        fs = W.state("FromDAOState")
        ctx.check("FromDAOState.has::false-before", z3.BoolVal(vm.truth(vm.call_method(fs, "has", d)) is False))
        r = vm.call_method(fs, "allocate_and_memoize", d, W.Thing)
        ctx.check("FromDAOState.allocate_and_memoize::uninitialised-instance-of-the-class-memoised-and-marked",
                  z3.BoolVal(isinstance(r, Obj) and r.cls is W.Thing and vm.truth(vm.call_method(fs, "has", d)) is True and vm.call_method(fs, "get", d) is r
                             and fs.fields["in_progress"].vals.get(key_of(1000000 + d.oid)) is True))
        # apply_circular_fixes: placeholders are replaced from the memo, lists element-wise in order
        d3 = vm.alloc(W.ChildDAO, {}, tag="d3")
        r3 = vm.call_method(fs, "allocate_and_memoize", d3, W.Thing)
        target = W.domain("target", x=None, ys=None)
        vm.call_method(fs, "apply_circular_fixes", target, make_dict([("x", d), ("ys", PyList([d3, d, d]))]))
        ys = target.fields["ys"]
        ctx.check("FromDAOState.apply_circular_fixes::references-are-patched-from-the-memo-in-order",
                  z3.BoolVal(target.fields["x"] is r and isinstance(ys, PyList) and [id(v) for v in ys.items] == [id(r3), id(r), id(r)]))
        # deferred fixes: EVERY (holder, attribute) that was handed a placeholder for an object still under construction is patched
        # when that object is finished -- several holders under the same attribute name, one holder under several attributes
        fs2 = W.state("FromDAOState")
        d4 = vm.alloc(W.ChildDAO, {}, tag="dao-under-construction")
        done = vm.call_method(fs2, "allocate_and_memoize", d4, W.Thing)
        h1, h2 = W.domain("holder-1", tags=None, main=None), W.domain("holder-2", tags=None)
        for holder, key, value in ((h1, "tags", PyList([d4])), (h2, "tags", PyList([d4, d4])), (h1, "main", d4)):
            holder.fields[key] = value
            vm.call_method(fs2, "_defer_fix_if_in_progress", d4, holder, key, value)
        other_dao = vm.alloc(W.ChildDAO, {}, tag="a-finished-dao")
        vm.call_method(fs2, "_defer_fix_if_in_progress", other_dao, h2, "tags", PyList([other_dao]))       # not in progress: nothing to remember
        from pyvc.ops import dict_del
        dict_del(fs2.fields["in_progress"], 1000000 + d4.oid)          # the object is finished
        vm.call_method(fs2, "apply_deferred_fixes", d4)
        t1, t2 = h1.fields["tags"], h2.fields["tags"]
        ok = (isinstance(t1, PyList) and [id(v) for v in t1.items] == [id(done)] and isinstance(t2, PyList) and [id(v) for v in t2.items] == [id(done), id(done)]
              and h1.fields["main"] is done)
        ctx.check("FromDAOState.apply_deferred_fixes::every-holder-and-attribute-that-got-a-placeholder-is-patched", z3.BoolVal(bool(ok)),
                  detail=f"holder-1.tags={t1!r} holder-1.main={h1.fields['main']!r} holder-2.tags={t2!r}")
        left = fs2.fields["deferred_fixes"]
        ctx.check("FromDAOState.apply_deferred_fixes::nothing-stays-pending-for-the-finished-object", z3.BoolVal(key_of(1000000 + d4.oid) not in left.vals), detail=repr(left))
    return Harness("states", run, spec=Spec())


def h_is_data_column():
    def run(vm):
        ctx = vm.ctx
        W = DW(vm)
        f = vm.module_global(DAO, "is_data_column")
        table = [(W.col("x"), True), (W.col("id", pk=True), False), (W.col("fk", fk=1), False), (W.col("polymorphic_type"), False), (W.col("both", pk=True, fk=2), False)]
        for c, want in table:
            ctx.check("is_data_column::neither-key-nor-foreign-key-nor-polymorphic-tag", z3.BoolVal(vm.truth(vm.call(f, [c], {})) is want), detail=c.tag)
    return Harness("is-data-column", run, spec=Spec())


def h_canary():
    def run(vm):
        W = DW(vm)
        f = vm.module_global(DAO, "is_data_column")
        # deliberately false: claims a primary key column is a data column
        vm.ctx.check("CANARY", z3.BoolVal(vm.truth(vm.call(f, [W.col("id", pk=True)], {})) is True))
    return Harness("canary", run, expect_fail=True)


FUNC_SYNTH = '''
def make(x):
    return ("module-level", x)


def other(x):
    return ("other", x)


class A:
    @staticmethod
    def make(x):
        return ("A", x)


class B:
    @staticmethod
    def make(x):
        return ("B", x)

    @staticmethod
    def other(x):
        return ("B-other", x)
'''


def h_function_mapping():
    """a function is persisted as (module, owning class, name) and comes back as exactly the function found under that triple --
    for every function, whatever was converted before (same-named functions of other classes / of the module)"""
    def run(vm):
        ctx = vm.ctx
        AM = "krrood.ormatic.alternative_mappings"
        vm.loader.add_module("pyvc_synth_c04_functions", FUNC_SYNTH)
        from pyvc.values import ModuleVal, FuncVal

        def import_module(it, fr, a, k):
            m = it.loader.module(a[0], must=False)
            if m is None:
                it.raise_("ModuleNotFoundError", a[0])
            return ModuleVal(a[0], m)
        vm.builtins = dict(vm.builtins)
        vm.builtins["importlib.import_module"] = Builtin("import_module", import_module)
        FM = vm.loader.cls(AM, "FunctionMapping")
        m = vm.loader.module("pyvc_synth_c04_functions")
        g = lambda *path: (vm._getattr(vm._getattr(ModuleVal("pyvc_synth_c04_functions", m), path[0]), path[1]) if len(path) == 2
                           else vm._getattr(ModuleVal("pyvc_synth_c04_functions", m), path[0]))
        fns = [("A.make", g("A", "make"), "A"), ("B.make", g("B", "make"), "B"), ("make", g("make"), None), ("B.other", g("B", "other"), "B"), ("other", g("other"), None)]
        vm.spec.opaque_hooks["getattr"] = lambda it, o, name: it.raise_("AttributeError", name)
        import itertools as _it
        for order in (fns, fns[::-1], [fns[2], fns[0], fns[1], fns[4], fns[3]]):
            for label, f, owner in order:
                f = f.func if hasattr(f, "func") and not isinstance(f, FuncVal) else f
                dao = vm.call_method(FM, "create_instance", f)
                ok_d = isinstance(dao, Obj) and dao.fields.get("module_name") == "pyvc_synth_c04_functions" and dao.fields.get("function_name") == label.split(".")[-1] \
                    and dao.fields.get("class_name") == owner
                ctx.check("FunctionMapping.create_instance::records-module-owning-class-and-name", z3.BoolVal(bool(ok_d)), detail=f"{label}: {dao.fields if isinstance(dao, Obj) else dao}")
                back = vm.call_method(dao, "create_from_dao")
                back = back.func if hasattr(back, "func") and not isinstance(back, FuncVal) else back
                ctx.check("FunctionMapping.create_from_dao::returns-the-function-found-under-module-class-name-whatever-was-converted-before",
                          z3.BoolVal(back is f), detail=f"{label} came back as {back!r} (order {[l for l, _, _ in order]})")
    return Harness("function-mapping", run, spec=Spec())


def h_argument_names():
    """DataAccessObject._argument_names: every parameter of the original class's __init__ except self, in declaration order --
    positional-or-keyword AND keyword-only ones (dataclass fields declared kw_only, e.g. back references): a name that is left
    out comes back as its default after from_dao.  Assumed: inspect.signature(f).parameters is the ordered mapping name ->
    Parameter(name, kind) of f."""
    def run(vm):
        ctx = vm.ctx
        DAO = vm.loader.cls("krrood.ormatic.dao", "DataAccessObject")
        kinds = {k: Opaque("inspect.Parameter." + k) for k in ("POSITIONAL_ONLY", "POSITIONAL_OR_KEYWORD", "VAR_POSITIONAL", "KEYWORD_ONLY", "VAR_KEYWORD")}
        ParameterCls = vm.alloc(vm.ext("object"), dict(kinds, empty=Opaque("inspect.Parameter.empty")), tag="inspect.Parameter")
        vm.loader.externals[("inspect", "Parameter")] = ParameterCls
        init = Builtin("original-class-__init__", lambda it, fr, a, k: None)
        params = [("self", "POSITIONAL_OR_KEYWORD"), ("a", "POSITIONAL_OR_KEYWORD"), ("b", "POSITIONAL_OR_KEYWORD"), ("world", "KEYWORD_ONLY"), ("note", "KEYWORD_ONLY")]

        def signature(it, fr, a, k):
            if a[0] is not init:
                raise AssertionError("signature of another callable")
            o = it.alloc(it.ext("object"), {}, tag="signature")
            o.fields["parameters"] = make_dict([(n, it.alloc(it.ext("object"), {"name": n, "kind": kinds[kd], "default": ParameterCls.fields["empty"]}, tag="parameter-" + n))
                                                for n, kd in params])
            return o
        vm.builtins = dict(vm.builtins)
        vm.builtins["inspect.signature"] = Builtin("inspect.signature", signature)
        vm.loader.externals[("inspect", "signature")] = vm.builtins["inspect.signature"]
        vm.spec.opaque_hooks["eq"] = lambda it, x, y: x is y
        original = vm.alloc(vm.ext("object"), {"__init__": init}, tag="original-class")
        vm.spec.stubs["HasGeneric.original_class"] = lambda it, a, k: original
        dao = vm.alloc(DAO, {}, tag="dao")
        r = vm.call_method(dao, "_argument_names")
        got = list(r.items) if isinstance(r, PyList) else r
        ctx.check("DataAccessObject._argument_names::every-constructor-parameter-but-self-in-order-keyword-only-ones-included",
                  z3.BoolVal(got == ["a", "b", "world", "note"]), detail=repr(got))
    return Harness("argument-names", run, spec=Spec())


def harnesses():
    return [h_argument_names(), h_function_mapping(), h_to_dao(), h_top_level_to_dao(), h_alternative_to_dao(), h_to_dao_below_alternative_parent(), h_from_dao(), h_from_dao_alternative(), h_from_dao_below_alternative_parent(), h_states(), h_is_data_column(), h_canary()]
