"""C03 — evaluations are repeatable and do not interfere with each other.

Python runs one evaluation at a time: another evaluation (of the same or of another query sharing nodes) can only run while
this one is suspended at a `yield` that reached the user.  Seen modularly, a generator method loses control only at its OWN
yields.  So interference-freedom is a rely/guarantee contract per generator:

  rely       after each of its own yields any other evaluation may have written ANY value into the scratch fields of ANY
             expression node (`_is_false_`, `_eval_parent_`, `left_evaluated`, `right_evaluated`) and may have advanced any shared
             domain iterator; what a child exposes at the child's yield (its truth flag) is valid until the consumer's own
             next yield (snapshot rule);
  guarantee  the sequence of results it yields is still the one its cover / value contract (C01) prescribes.

Obligations (generated from the real bodies):
 A. every operator harness of C01 (AND, ElseIf, Union, Not, Comparator, Variable, Attribute, the query descriptor) is re-run
    with the scratch fields of all nodes havoc'd after every yield that reaches the consumer; Ext / Sound / Frame per yield
    and Complete / Unique across paths must still be discharged.  (Entry state: as the enclosing evaluation left it - a node
    whose id is already bound reads its own flag; that protocol between a node and its enclosing evaluation is assumed.)
 B. HashedIterable.__iter__ (the shared, lazily cached variable domain): for sources of length <= 4 (with duplicates) and EVERY
    schedule in which other live iterators pull 0..2 further values while this one is suspended, the iterator yields exactly
    the distinct values of the source, in source order, once each; it never holds a dictionary iterator across a yield.
 C. starting an evaluation (ResultQuantifier.evaluate) announces it to every node before anything is pulled, and a
    ConclusionSelector then forgets the de-duplication memory of earlier evaluations (SeenSet.clear): sequential
    re-evaluation of a rule query starts from the state a fresh query has.
Known finding: two LIVE evaluations of one rule query still share `concluded_before` (listed in known_findings.json).
"""
from __future__ import annotations
import itertools
import z3

from pyvc.framework import Harness
from pyvc.interp import Spec, PyRaise
from pyvc.values import Obj, PyList, PyDict, GenObj, SBool, Builtin, Opaque
from pyvc.repo import ClassInfo
from pyvc.ops import make_dict
from .lib import UserVal, install_user_hooks
from . import C01

PROPERTY = "C03"
SYM = "krrood.entity_query_language.symbolic"
HDM = "krrood.entity_query_language.hashed_data"
CS = "krrood.entity_query_language.conclusion_selector"
CACHE = "krrood.entity_query_language.cache_data"
FUNCTIONS = [f for f in C01.FUNCTIONS if f[1].endswith("_evaluate__") or "evaluate_selected" in f[1] or "get_constrained_values" in f[1]] + [
    (HDM, "HashedIterable.__iter__"), (HDM, "HashedIterable.__post_init__"), (HDM, "HashedValue.__post_init__"),
    (SYM, "ResultQuantifier.evaluate"), (SYM, "ResultQuantifier._evaluate__"), (SYM, "The._evaluate__"), (SYM, "SymbolicExpression._start_evaluation_"), (CS, "ConclusionSelector._start_evaluation_"), (SYM, "OR._start_evaluation_"),
    (CACHE, "SeenSet.clear"), (CACHE, "SeenSet.add"), (CACHE, "SeenSet.check")]
ASSUMPTIONS = [
    "one thread: another evaluation runs only while this one is suspended at a yield that reached the user",
    "the children of an operator satisfy the same rely/guarantee contract (induction over the expression tree) and the C01 cover contract",
    "entry protocol: a node that finds its own id already bound in the incoming bindings reads the truth flag its enclosing "
    "evaluation left there since that evaluation's last own yield (not havoc'd at entry)",
    "user attributes / predicates / domains are pure and repeatable (a one-shot generator domain is consumed once into the shared cache)",
    "lru_cache'd projections depend only on the immutable expression structure",
]
TRUSTED = ["the C01 child contract (eqlmodel.py) used as induction hypothesis"]
BOUNDED_ONLY_CLAUSES = [
    "HashedIterable.__iter__ is executed for sources of length <= 4 (all interference schedules of up to 2 foreign pulls per suspension)",
    "whole-query schedules (nested loops, alternating iterators, abandonment, rule trees) are measured by the bounded driver",
]

import ast as _ast


def scratch_fields(vm):
    """Evaluation scratch state = every attribute some evaluation-time method of an expression class writes
    (computed from the real source on every run: generator methods and the *_update_* / update_* helpers they use)."""
    names = set()
    for modname in (SYM, CS):
        m = vm.loader.module(modname)
        for c in m.classes.values():
            for mname, fv in c.methods.items():
                node = getattr(fv, "node", None)
                if node is None or mname in ("__init__", "__post_init__") or "@" in mname:
                    continue
                is_gen = any(isinstance(n, (_ast.Yield, _ast.YieldFrom)) for n in _ast.walk(node))
                if not (is_gen or "update" in mname):
                    continue
                for n in _ast.walk(node):
                    if isinstance(n, _ast.Attribute) and isinstance(n.ctx, _ast.Store):
                        names.add(n.attr)
                    elif isinstance(n, _ast.AugAssign) and isinstance(n.target, _ast.Attribute):
                        names.add(n.target.attr)
    return names - {"_id_", "_child_", "left", "right", "_node_", "_var_"}


def _is_expression(vm, o):
    if not isinstance(o, Obj) or not isinstance(o.cls, ClassInfo):
        return False
    try:
        return vm.is_subclass(o.cls, vm.loader.cls(SYM, "SymbolicExpression")) is True
    except Exception:
        return False


def havoc_scratch(vm, counter, names):
    """what any other evaluation may have done to the shared expression nodes while this one was suspended"""
    from pyvc.values import SInt
    ctx = vm.ctx
    foreign = None
    for o in list(vm.heap):
        if not _is_expression(vm, o):
            continue
        for f in names:
            if f not in o.fields:
                continue
            cur = o.fields[f]
            if isinstance(cur, (bool, SBool)):
                o.fields[f] = SBool(ctx.fresh_bool(f"other_{f}_{next(counter)}"))
            elif isinstance(cur, (int, SInt)):
                o.fields[f] = SInt(ctx.fresh_int(f"other_{f}_{next(counter)}"))
            elif f == "_eval_parent_":
                if foreign is None:
                    foreign = vm.alloc(vm.loader.cls(SYM, "SymbolicExpression"), {"_id_": 990000 + next(counter)}, tag="parent-in-another-evaluation")
                o.fields[f] = foreign


def interfering(h):
    """the C01 harness `h` with interference after every yield that reaches its consumer"""
    def run(vm):
        counter = itertools.count()
        names = scratch_fields(vm)
        vm.ctx.inputs["scratch_fields"] = sorted(names)
        depth = [0]
        orig_iterate = vm.iterate
        orig_check = vm.ctx.check

        def check(oid, formula, detail=None):
            return orig_check("interleaved::" + oid, formula, detail)
        vm.ctx.check = check

        def iterate(v):
            if depth[0] == 0 and isinstance(v, GenObj):
                depth[0] = 1
                try:
                    for x in orig_iterate(v):
                        yield x
                        havoc_scratch(vm, counter, names)        # the consumer had control: anything may have run
                finally:
                    depth[0] = 0
            else:
                yield from orig_iterate(v)
        vm.iterate = iterate
        # ... and between two iterations of a loop over a child stream the consumer had control as well: at an ARBITRARY iteration
        # (the loop rule) the scratch state is whatever other evaluations left (a node shared between two positions of one query is
        # evaluated in the other position while this generator is suspended)
        orig_havoc = vm.havoc

        def havoc(fr, body_nodes, spec, name):
            orig_havoc(fr, body_nodes, spec, name)
            if depth[0] == 1:
                havoc_scratch(vm, counter, names)
        vm.havoc = havoc
        h.fn(vm)

    fin = None
    if h.finalize is not None:
        def fin(ctxs):
            out = h.finalize(ctxs)
            for c in out:
                c.oid = "interleaved::" + c.oid
            return out
    return Harness("interleaved-" + h.name, run, spec=h.spec, covers=list(getattr(h, "covers", []) or []), finalize=fin,
                   max_paths=h.max_paths, timeout_ms=h.timeout_ms, retry_unknown=h.retry_unknown, ematching_only=h.ematching_only)


OPERATOR_HARNESSES = ["cover-AND", "cover-ElseIf", "cover-Union", "cover-Not", "cover-Comparator[generic]", "cover-Comparator[eq]",
                      "value-Variable[operand]", "value-Variable[condition<AND]", "value-Variable[condition<Not]", "value-Attribute[operand]", "value-Attribute[condition<Not]", "value-Attribute[condition<AND]",
                      "query-descriptor[1]", "query-descriptor[2]", "query-descriptor[no-condition]"]


# ------------------------------------------------------------------------------------------------ B. the shared domain
def h_hashed_iterable(n, dup):
    """one iterator of a HashedIterable over a one-shot source of n values (value number `dup`, if any, occurs twice);
    while it is suspended, other iterators pull 0..2 further values."""
    def run(vm):
        ctx = vm.ctx
        install_user_hooks(vm)
        HI = vm.loader.cls(HDM, "HashedIterable")
        HV = vm.loader.cls(HDM, "HashedValue")
        vals = [UserVal(f"v{i}") for i in range(n)]
        order = list(range(n))
        if dup is not None and n:
            order.insert(min(dup + 2, len(order)), dup)       # the same object again, later in the source
        pulled = []

        def source():
            for i in order:
                pulled.append(i)
                yield vals[i]
        hi = vm.call(HI, [GenObj(source(), "one-shot-source")], {})
        ctx.check("HashedIterable.__post_init__::wrapping-pulls-nothing", z3.BoolVal(pulled == []))
        distinct = []
        for i in order:
            if i not in distinct:
                distinct.append(i)

        def other_iterator_pulls(k):
            """another live iterator that has caught up advances the shared source by k new values (through the same real code)"""
            other = vm.iterate(vm.call_method(hi, "__iter__"))
            have = len(hi.fields["values"].keys)
            for _ in range(have + k):
                try:
                    next(other)
                except StopIteration:
                    break
        got = []
        it = vm.iterate(vm.call_method(hi, "__iter__"))
        while True:
            k = ctx.choice(3, "foreign-pulls-while-suspended")
            if k:
                other_iterator_pulls(k)
            try:
                hv = next(it)
            except StopIteration:
                break
            except RuntimeError as e:          # a dictionary iterator held across a yield
                ctx.fail("HashedIterable.__iter__::no-container-iterator-is-held-across-a-yield", detail=str(e))
                return
            v = hv.fields.get("value") if isinstance(hv, Obj) else hv
            got.append(vals.index(v) if v in vals else None)
            if len(got) > len(order) + 2:
                break
        ctx.check("HashedIterable.__iter__::yields-every-distinct-value-of-the-source-once-in-order-under-any-interleaving",
                  z3.BoolVal(got == distinct), detail=f"source {order}: yielded {got}, expected {distinct}")
        # a later iterator (sequential re-evaluation) sees the same
        again = []
        for hv in vm.iterate(vm.call_method(hi, "__iter__")):
            v = hv.fields.get("value")
            again.append(vals.index(v) if v in vals else None)
        ctx.check("HashedIterable.__iter__::a-later-iterator-replays-the-same-sequence", z3.BoolVal(again == distinct), detail=f"{again} vs {distinct}")
        ctx.check("HashedIterable.__iter__::the-source-is-pulled-once", z3.BoolVal(pulled == order), detail=repr(pulled))
        ctx.cover("done")
    return Harness(f"shared-domain[{n},{dup}]", run, spec=Spec(), covers=["done"], max_paths=4000)


# ------------------------------------------------------------------------------------------------ C. evaluation start
def h_evaluation_start():
    def run(vm):
        ctx = vm.ctx
        SeenSet = vm.loader.cls(CACHE, "SeenSet")
        ES = vm.loader.cls(CS, "ExceptIf")
        t, f = vm.call(SeenSet, [], {}), vm.call(SeenSet, [], {})
        from pyvc.values import PySet
        chosen = PySet(["a-conclusion-left-by-an-abandoned-evaluation"])
        sel = vm.alloc(ES, {"concluded_before": make_dict([(True, t), (False, f)]), "_id_": 5, "_conclusion_": chosen}, tag="selector")
        # an earlier evaluation recorded something (through the real add)
        vm.call_method(t, "add", make_dict([(1, "a")]))
        vm.call_method(f, "add", make_dict([]))               # the empty assignment: 'everything seen'
        seen_before = vm.call_method(t, "check", make_dict([(1, "a")])) is True and vm.call_method(f, "check", make_dict([(2, "b")])) is True
        vm.call_method(sel, "_start_evaluation_")
        # whatever objects hold the records now (the old ones cleared, or new ones): read them through the selector
        from pyvc.ops import dict_get as _dg
        now = vm._getattr(sel, "concluded_before")
        t, f = _dg(now, True), _dg(now, False)
        fresh = all(vm.call_method(s, "check", make_dict([(1, "a")])) is False and vm.call_method(s, "check", make_dict([(2, "b")])) is False
                    for s in (t, f))
        # ... and the records of the two truth values are independent of each other
        vm.call_method(f, "add", make_dict([(3, "c")]))
        independent = vm.call_method(t, "check", make_dict([(3, "c")])) is False and vm.call_method(f, "check", make_dict([(3, "c")])) is True
        vm.call_method(f, "clear")
        ctx.check("ConclusionSelector._start_evaluation_::true-and-false-results-are-remembered-separately", z3.BoolVal(independent and t is not f))
        ctx.check("ConclusionSelector._start_evaluation_::forgets-what-earlier-evaluations-concluded", z3.BoolVal(seen_before and fresh),
                  detail=f"remembered before={seen_before}, forgotten after={fresh}")
        ctx.check("ConclusionSelector._start_evaluation_::conclusions-selected-by-an-abandoned-evaluation-are-dropped", z3.BoolVal(chosen.items == []), detail=repr(chosen))
        # OR nodes: operand flags of an abandoned evaluation are reset
        nxt = vm.alloc(vm.loader.cls(CS, "Next"), {"concluded_before": make_dict([(True, vm.call(SeenSet, [], {})), (False, vm.call(SeenSet, [], {}))]), "_id_": 6,
                                                   "_conclusion_": PySet([]), "left_evaluated": True, "right_evaluated": True}, tag="next-selector")
        vm.call_method(nxt, "_start_evaluation_")
        ctx.check("OR._start_evaluation_::operand-flags-of-an-abandoned-evaluation-are-reset",
                  z3.BoolVal(nxt.fields["left_evaluated"] is False and nxt.fields["right_evaluated"] is False))
        same = vm._getattr(sel, "concluded_before")
        ctx.check("ConclusionSelector._start_evaluation_::both-truth-branches-are-reset",
                  z3.BoolVal(all(len(s.fields["constraints"].items) == 0 and len(s.fields["exact"].items) == 0 and s.fields["all_seen"] is False for s in (t, f))))
        # evaluate(): every node is told, before the first pull
        An = vm.loader.cls(SYM, "An")
        q = vm.alloc(An, {}, tag="an")
        log = []
        nodes = []
        for i in range(3):
            nd = vm.alloc(vm.ext("object"), tag=f"node{i}")
            nd.fields["_start_evaluation_"] = Builtin("_start_evaluation_", lambda it, fr, a, k, i=i: log.append(("start", i)))
            nodes.append(nd)
        # the node list is read off the expression tree AS IT IS when the evaluation starts (the real _all_nodes_ / _descendants_
        # run on a display node whose descendants the harness changes between two evaluations: a rule tree may grow)
        wrappers = PyList([vm.alloc(vm.ext("object"), {"data": nd}, tag=f"display-node{i}") for i, nd in enumerate(nodes[:2])])
        q.fields["_node_"] = vm.alloc(vm.ext("object"), {"descendants": wrappers}, tag="display-node-of-the-query")
        q.fields["_start_evaluation_"] = Builtin("_start_evaluation_", lambda it, fr, a, k: log.append(("start", "q")))
        g = vm.alloc(vm.ext("object"), tag="graph")
        g.fields["remove_dead_instances"] = Builtin("sweep", lambda it, fr, a, k: None)
        vm.spec.stubs["SymbolGraph.__call__"] = lambda vm_, a, k: g

        def inner():
            log.append("pull")
            yield "r"
        vm.spec.stubs["ResultQuantifier._evaluate__"] = lambda vm_, a, k: GenObj(inner(), "_evaluate__")
        vm.spec.stubs["ResultQuantifier._process_result_"] = lambda vm_, a, k: a[1]
        pending = vm.call_method(q, "evaluate")
        ctx.check("ResultQuantifier.evaluate::creating-the-iterator-does-nothing-the-evaluation-starts-with-the-first-pull", z3.BoolVal(log == []), detail=repr(log))
        out = list(vm.iterate(pending))
        ctx.check("ResultQuantifier.evaluate::every-node-is-told-that-an-evaluation-starts-before-anything-is-pulled",
                  z3.BoolVal(sorted(map(str, log[:-1])) == sorted(map(str, [("start", "q"), ("start", 0), ("start", 1)])) and log[-1] == "pull" and out == ["r"]), detail=repr(log))
        # the tree grows (a refinement / alternative added to the rule after the first evaluation): the next evaluation tells the new node too
        wrappers.items.append(vm.alloc(vm.ext("object"), {"data": nodes[2]}, tag="display-node2"))
        del log[:]
        out = list(vm.iterate(vm.call_method(q, "evaluate")))
        ctx.check("ResultQuantifier.evaluate::nodes-added-after-an-earlier-evaluation-are-told-too",
                  z3.BoolVal(("start", 2) in log and log and log[-1] == "pull" and log.index(("start", 2)) < log.index("pull")), detail=repr(log))
    return Harness("evaluation-start", run, spec=Spec())


def h_canary():
    def run(vm):
        install_user_hooks(vm)
        HI = vm.loader.cls(HDM, "HashedIterable")
        vals = [UserVal("a"), UserVal("b")]
        hi = vm.call(HI, [PyList(vals)], {})
        got = [hv.fields["value"] for hv in vm.iterate(vm.call_method(hi, "__iter__"))]
        # deliberately false: claims the domain is yielded in reverse order
        vm.ctx.check("CANARY", z3.BoolVal(got == vals[::-1]))
    return Harness("canary", run, expect_fail=True)


QUANTIFIER_HARNESSES = ["an-evaluate[none+var]", "an-evaluate[c]", "an-evaluate[c+upper+var]", "the-evaluate-stream[var]"]


def harnesses():
    from . import C09
    hs = {h.name: h for h in C01.harnesses()}
    out = [interfering(hs[n]) for n in OPERATOR_HARNESSES if n in hs]
    hq = {h.name: h for h in C09.harnesses()}
    out += [interfering(hq[n]) for n in QUANTIFIER_HARNESSES if n in hq]
    # a predicate / symbolic-function call shared between two positions: its per-binding lemma under the same interference
    from . import C12
    hp = {h.name: h for h in C12.harnesses()}
    out += [interfering(hp[n]) for n in ("instantiate-function-2", "instantiate-predicate-2") if n in hp]
    for n in range(0, 5):
        out.append(h_hashed_iterable(n, None))
    for n, d in ((2, 0), (3, 0), (3, 1), (4, 1)):
        out.append(h_hashed_iterable(n, d))
    from .C13 import h_live_domain          # what an evaluation start re-binds (live domains) and whom the descriptor tells
    out += [h_evaluation_start(), h_live_domain(), h_canary()]
    return out


def harnesses_thorough():
    """thorough tier: shared-domain sources up to length 6"""
    out = harnesses()
    extra = [h_hashed_iterable(5, None), h_hashed_iterable(5, 2), h_hashed_iterable(6, None), h_hashed_iterable(6, 0)]
    for h in extra:
        h.max_paths = 60000
    return out[:-1] + extra + out[-1:]
