"""Abstract model for the EQL evaluation engine (C01, C02, C08, C11): bindings as an abstract sort, total assignments,
the *cover contract* of a condition node's output stream and the *value contract* of an operand node.

Notation (DESIGN §3 C01): sigma = incoming bindings, beta = output bindings, tau = a total assignment,
ext(beta, tau) = tau extends beta, sub(s, b) = b extends s, h_N(tau) = first-order truth of node N under tau
(uninterpreted for abstract children), val_N(tau) = value of operand node N under tau.

Cover contract of a child stream  Out_c(sigma) = {(o, beta, flag)}  (instantiated per call site, never as a global axiom):
   Ext       member(sigma, o, beta)                                   =>  sub(sigma, beta)
   Sound     memberT(sigma, o, beta) and ext(beta, tau)               =>  h_c(tau)          (memberF: not h_c(tau))
   Complete  ext(sigma, tau)                                          =>  exists o, beta. member and ext(beta, tau)
   Unique    member(o, b), member(o', b'), ext(b, tau), ext(b', tau)  =>  o = o' and b = b'
Value contract of an operand child: additionally every output is TRUE (an operand is not a condition) and binds the
node's id to val_c(tau) for every tau it covers.
"""
from __future__ import annotations
import itertools
import z3

from pyvc.values import Opaque, Builtin, SBool, STerm, Obj, SymStream, PyDict, PyList
from pyvc.ops import wrap_bool, dict_items, key_of
from pyvc.ctx import Check

SYM = "krrood.entity_query_language.symbolic"
HD = "krrood.entity_query_language.hashed_data"
Bs = z3.DeclareSort("Bnd")      # bindings
Ts = z3.DeclareSort("Tot")      # total assignments
Os = z3.DeclareSort("Occ")      # occurrences (positions in a stream)
Vs = z3.DeclareSort("Val")      # values
I = z3.IntSort()
BOOL = z3.BoolSort()

ext = z3.Function("ext", Bs, Ts, BOOL)
sub = z3.Function("sub", Bs, Bs, BOOL)
Ids = z3.DeclareSort("Vid")     # node / variable ids
bound = z3.Function("bound", Bs, Ids, BOOL)   # variable id is bound
get = z3.Function("get", Bs, Ids, Vs)         # its value
tval = z3.Function("tval", Ts, Ids, Vs)       # value of variable id under a total assignment
truthy = z3.Function("truthy", Vs, BOOL)      # bool(value)
boolval = z3.Function("boolval", BOOL, Vs)    # the Python bool as a value
iterable = z3.Function("iterable", Vs, BOOL)  # hasattr(value, "__iter__") and not a string
upd = z3.Function("upd", Bs, Ids, Vs, Bs)     # {**b, id: v}
_VIDS = {}


def vid(k):
    """the Vid constant of a concrete node id (pairwise distinct: see distinct_ids())"""
    if k not in _VIDS:
        _VIDS[k] = z3.Const(f"id_{k}", Ids)
    return _VIDS[k]


def distinct_ids():
    vs = list(_VIDS.values())
    return [z3.Distinct(*vs)] if len(vs) > 1 else []
mrg = z3.Function("mrg", Bs, Bs, Bs)         # {**b1, **b2}
EMPTY = z3.Const("empty_bindings", Bs)


def base_axioms():
    s, b, b2 = z3.Consts("s b b2", Bs)
    t = z3.Const("t", Ts)
    i, j = z3.Consts("i j", Ids)
    v = z3.Const("v", Vs)
    return [
        z3.ForAll([s, b, t], z3.Implies(z3.And(sub(s, b), ext(b, t)), ext(s, t)), patterns=[z3.MultiPattern(sub(s, b), ext(b, t))]),
        z3.ForAll([s, b, b2], z3.Implies(z3.And(sub(s, b), sub(b, b2)), sub(s, b2)), patterns=[z3.MultiPattern(sub(s, b), sub(b, b2))]),
        z3.ForAll([b], sub(b, b), patterns=[sub(b, b)]),
        # a total assignment extends b iff it agrees with every bound variable
        z3.ForAll([b, t, i], z3.Implies(z3.And(ext(b, t), bound(b, i)), tval(t, i) == get(b, i)), patterns=[z3.MultiPattern(ext(b, t), bound(b, i))]),
        z3.ForAll([s, b, i], z3.Implies(z3.And(sub(s, b), bound(s, i)), z3.And(bound(b, i), get(b, i) == get(s, i))),
                  patterns=[z3.MultiPattern(sub(s, b), bound(s, i))]),
        # functional update
        z3.ForAll([b, i, v], z3.And(bound(upd(b, i, v), i), get(upd(b, i, v), i) == v), patterns=[upd(b, i, v)]),
        z3.ForAll([b, i, v, j], z3.Implies(j != i, z3.And(bound(upd(b, i, v), j) == bound(b, j), get(upd(b, i, v), j) == get(b, j))),
                  patterns=[z3.MultiPattern(upd(b, i, v), bound(b, j)), z3.MultiPattern(bound(upd(b, i, v), j))]),
        z3.ForAll([b, i, v, t], z3.Implies(z3.Or(z3.Not(bound(b, i)), get(b, i) == v), ext(upd(b, i, v), t) == z3.And(ext(b, t), tval(t, i) == v)),
                  patterns=[ext(upd(b, i, v), t)]),
        z3.ForAll([b, i, v], z3.Implies(z3.Or(z3.Not(bound(b, i)), get(b, i) == v), sub(b, upd(b, i, v))), patterns=[upd(b, i, v)]),
        z3.ForAll([s, b], z3.Implies(sub(s, b), mrg(s, b) == b), patterns=[mrg(s, b)]),
        z3.ForAll([t], ext(EMPTY, t), patterns=[ext(EMPTY, t)]),
        truthy(boolval(z3.BoolVal(True))), z3.Not(truthy(boolval(z3.BoolVal(False)))),
        z3.ForAll([i], z3.Not(bound(EMPTY, i)), patterns=[bound(EMPTY, i)]),
    ]


class Bnd(Opaque):
    """A bindings dictionary {variable id -> HashedValue} as an abstract term."""

    def __init__(self, term, world):
        super().__init__("bindings")
        self.t = term
        self.world = world

    def __repr__(self):
        return f"<bindings {self.t}>"

    @staticmethod
    def _id(k):
        if isinstance(k, bool) or not isinstance(k, int):
            raise AssertionError(f"binding key {k!r}")
        return vid(k)

    def m_truth(self, vm):
        # `sources or {}`: an empty dict and {} are the same map; the abstraction keeps the term
        return True

    def m_copy(self, vm):
        return Bnd(self.t, self.world)

    def m_contains(self, vm, k):
        return wrap_bool(bound(self.t, self._id(k)))

    def m_getitem(self, vm, k):
        i = self._id(k)
        if not vm.ctx.branch(bound(self.t, i)):
            vm.raise_("KeyError", k)
        return self.world.hashed(vm, get(self.t, i))

    def m_with(self, vm, k, v):
        return Bnd(upd(self.t, self._id(k), self.world.val_of(vm, v)), self.world)

    def m_setitem(self, vm, k, v):
        self.t = upd(self.t, self._id(k), self.world.val_of(vm, v))

    def m_merge(self, vm, src):
        if isinstance(src, PyDict):
            r = self
            for k, v in dict_items(src):
                r = r.m_with(vm, k, v)
            return r
        if isinstance(src, Bnd):
            return Bnd(mrg(self.t, src.t), self.world)
        raise AssertionError(f"merge of bindings with {src!r}")

    def m_getattr(self, vm, name):
        if name == "get":
            def g(it, fr, a, k):
                i = self._id(a[0])
                if it.ctx.branch(bound(self.t, i)):
                    return self.world.hashed(it, get(self.t, i))
                return a[1] if len(a) > 1 else None
            return Builtin("dict.get", g)
        if name == "items":
            def items(it, fr, a, k):
                # the entries for the ids the harness knows about (every use filters by such ids)
                out = []
                for kid in sorted(self.world.known_ids):
                    if it.ctx.branch(bound(self.t, vid(kid))):
                        out.append((kid, self.world.hashed(it, get(self.t, vid(kid)))))
                return PyList(out)
            return Builtin("dict.items", items)
        raise AssertionError(f"bindings.{name} is not modelled")

    def m_eq(self, vm, other):
        if isinstance(other, Bnd):
            return wrap_bool(self.t == other.t)
        return False


class Child:
    """An abstract child node with its contract predicates."""

    def __init__(self, world, name, node_id, kind):
        self.world, self.name, self.id, self.kind = world, name, node_id, kind      # kind: 'condition' | 'operand'
        self.memT = z3.Function(f"{name}_T", Bs, Os, Bs, BOOL)
        self.memF = z3.Function(f"{name}_F", Bs, Os, Bs, BOOL)
        self.h = z3.Function(f"h_{name}", Ts, BOOL)
        self.val = z3.Function(f"val_{name}", Ts, Vs)
        self.occ = z3.Function(f"{name}_occ", Bs, Ts, Os)      # Skolem witnesses of Complete
        self.wit = z3.Function(f"{name}_wit", Bs, Ts, Bs)
        self.flagT = z3.Function(f"{name}_witness_true", Bs, Ts, BOOL)
        self.owns = z3.Function(f"owns_{name}", Ids, BOOL)      # ids of the child's own subtree

    def contract_at(self, sig, gv=(), guard=()):
        """Contract instance for the stream  child._evaluate__(sig)  (call-site instantiation).  gv / guard: the binders
        and path conditions under which the call happens (quantified in cross-path obligations, empty inside a path)."""
        o, o2 = z3.Consts("co co2", Os)
        b, b2 = z3.Consts("cb cb2", Bs)
        t = z3.Const("ct", Ts)
        T, F, h = self.memT, self.memF, self.h
        # only uninterpreted atoms can serve as guard/pattern; binders must occur in them or in sig
        guard = [g for g in guard if z3.is_app(g) and g.decl().kind() == z3.Z3_OP_UNINTERPRETED and g.sort() == BOOL]

        def consts_of(e, acc):
            if z3.is_const(e) and e.decl().kind() == z3.Z3_OP_UNINTERPRETED:
                acc.add(e.get_id())
            for ch in e.children():
                consts_of(ch, acc)
            return acc
        used = set()
        for g in guard + [sig]:
            consts_of(g, used)
        gv = [c for c in gv if c.get_id() in used]

        gv_ids = {c.get_id() for c in gv}
        # ground atoms stay in the hypothesis but are no triggers
        guard_pats = [g for g in guard if consts_of(g, set()) & gv_ids]

        def fa(vs, hyp, concl, pats):
            body = z3.Implies(z3.And(*(guard + hyp)), concl) if (guard or hyp) else concl
            return z3.ForAll(gv + vs, body, patterns=[z3.MultiPattern(*(guard_pats + pats))])
        out = []
        iv = z3.Const("civ", Ids)
        for M in (T, F):
            out.append(fa([o, b], [M(sig, o, b)], sub(sig, b), [M(sig, o, b)]))
            # frame: an output binds nothing outside the child's own subtree
            out.append(fa([o, b, iv], [M(sig, o, b), z3.Not(self.owns(iv))], bound(b, iv) == bound(sig, iv), [M(sig, o, b), bound(b, iv)]))
        if self.kind == "condition":
            out.append(fa([o, b, t], [T(sig, o, b), ext(b, t)], h(t), [T(sig, o, b), ext(b, t)]))
            out.append(fa([o, b, t], [F(sig, o, b), ext(b, t)], z3.Not(h(t)), [F(sig, o, b), ext(b, t)]))
        else:
            i = vid(self.id)
            out.append(fa([o, b], [F(sig, o, b)], z3.BoolVal(False), [F(sig, o, b)]))      # an operand is never false
            out.append(fa([o, b], [T(sig, o, b)], bound(b, i), [T(sig, o, b)]))
            out.append(fa([o, b, t], [T(sig, o, b), ext(b, t)], get(b, i) == self.val(t), [T(sig, o, b), ext(b, t)]))
        # Complete (Skolemised) and Unique
        wo, wb = self.occ(sig, t), self.wit(sig, t)
        out.append(fa([t], [ext(sig, t)], z3.And(z3.Or(T(sig, wo, wb), F(sig, wo, wb)), ext(wb, t)), [ext(sig, t)]))
        for M1 in (T, F):
            for M2 in (T, F):
                out.append(fa([t, o, o2, b, b2], [M1(sig, o, b), M2(sig, o2, b2), ext(b, t), ext(b2, t)], z3.And(o == o2, b == b2),
                              [M1(sig, o, b), M2(sig, o2, b2), ext(b, t), ext(b2, t)]))
        return out


class EqlWorld:
    """Per-path world: base axioms, children, the node under verification, clause recording."""

    def __init__(self, vm):
        self.vm = vm
        ctx = vm.ctx
        for ax in base_axioms():
            ctx.assume(ax, axiom=True)
        ctx.world = self
        self.children = {}
        self.known_ids = set()
        self.attr_fns = {}
        self.clauses = []
        self.calls = []
        self.value_objs = {}
        # tree-shaped expressions: evaluating a child never re-enters the node itself, so the node's own parent pointer is
        # not written by the loops over child streams (the by-name havoc would conflate it with the children's)
        vm.spec.havoc_exclude = set(getattr(vm.spec, "havoc_exclude", ())) | {"_eval_parent_"}
        vm.spec.opaque_hooks["sterm_truth"] = lambda it, v: wrap_bool(truthy(v.t))
        vm.spec.opaque_hooks["sterm_getattr"] = self._sterm_getattr
        vm.spec.opaque_hooks["id"] = self._id_hook
        vm.spec.stubs["SymbolicExpression._evaluate__"] = self._child_evaluate
        self.OR = vm.loader.cls(SYM, "OperationResult")
        self.HV = vm.loader.cls(HD, "HashedValue")
        self.sigma0 = ctx.fresh_const("sigma", Bs, register=True)

    def _id_hook(self, it, v):
        if isinstance(v, STerm):
            return 12345
        if isinstance(v, (Obj, Opaque)):
            return 1000000 + v.oid
        return 999999

    def attr_fn(self, name):
        if name not in self.attr_fns:
            self.attr_fns[name] = z3.Function(f"attr_{name}", Vs, Vs)
        return self.attr_fns[name]

    def _sterm_getattr(self, it, v, name):
        if name == "__iter__":
            if it.ctx.branch(iterable(v.t)):
                return Builtin("__iter__", lambda *a: None)
            it.raise_("AttributeError", name)
        if name in self.attr_fns:
            return STerm(self.attr_fns[name](v.t))
        it.raise_("AttributeError", name)

    def hashed(self, vm, val_term):
        o = vm.alloc(self.HV, {"value": STerm(val_term), "id_": 0}, tag="hashed-value")
        return o

    def val_of(self, vm, v):
        """z3 Val term of a HashedValue object stored into bindings."""
        if isinstance(v, Obj) and v.cls is self.HV:
            inner = v.fields["value"]
            if isinstance(inner, STerm):
                return inner.t
            return self.lift(inner)
        return self.lift(v)

    def lift(self, pyval):
        if isinstance(pyval, STerm):
            return pyval.t
        if isinstance(pyval, SBool):
            return boolval(pyval.t)
        if isinstance(pyval, bool):
            return boolval(z3.BoolVal(pyval))
        key = key_of(pyval)
        if key not in self.value_objs:
            self.value_objs[key] = z3.Const(f"const_{len(self.value_objs)}", Vs)
        return self.value_objs[key]

    def child(self, name, node_id, kind="condition", cls_name="SymbolicExpression"):
        c = Child(self, name, node_id, kind)
        self.known_ids.add(node_id)
        o = self.vm.alloc(self.vm.loader.cls(SYM, cls_name), {"_id_": node_id, "_is_false_": False, "_conclusion_": None}, tag=f"child-{name}")
        o.fields["ghost_child"] = c
        c.obj = o
        self.children[name] = c
        return o

    def _child_evaluate(self, vm, args, kwargs):
        selfo = args[0]
        c = selfo.fields.get("ghost_child")
        if c is None:
            from pyvc.interp import INLINE
            return INLINE
        ctx = vm.ctx
        src = args[1] if len(args) > 1 else kwargs.get("sources")
        parent = kwargs.get("parent", args[2] if len(args) > 2 else None)
        sig = src.t if isinstance(src, Bnd) else EMPTY
        if not hasattr(self, "_mark"):
            self.mark()          # the first child call: the harness set-up is over
        self.calls.append({"child": c, "sig": sig, "parent": parent, "conds": list(ctx.conds[self.mark_index():]), "fresh": list(ctx.fresh_log)})
        for ax in c.contract_at(sig):
            ctx.assume(ax, axiom=True)
        world = self

        def elem(vm_, idx):
            o = vm_.ctx.fresh_const(f"o_{c.name}", Os)
            b = vm_.ctx.fresh_const(f"b_{c.name}", Bs)
            false_flag = bool(vm_.ctx.choice(2, f"flag-{c.name}")) if c.kind == "condition" else False
            vm_.ctx.assume((c.memF if false_flag else c.memT)(sig, o, b))
            selfo.fields["_is_false_"] = false_flag          # snapshot rule: the child set its flag before yielding
            r = vm_.alloc(world.OR, {"bindings": Bnd(b, world), "is_false": false_flag, "operand": selfo}, tag=f"result-of-{c.name}")
            r.fields["ghost_occ"] = o
            return r
        return SymStream(f"{c.name}@{len(self.calls)}", elem, length=None, meta={"kind": "generator", "child": c, "sigma": sig})

    def mark(self):
        """Everything assumed so far is a hypothesis of the lemma (about shared constants), not a path condition."""
        self._mark = len(self.vm.ctx.conds)

    def mark_index(self):
        return getattr(self, "_mark", 0)

    # ---- recording the outputs of the node under verification
    def record(self, vm, result):
        ctx = vm.ctx
        b = result.fields["bindings"]
        flag = result.fields["is_false"]
        self.clauses.append({"pc": list(ctx.conds[self.mark_index():]), "b": b.t if isinstance(b, Bnd) else None, "flag": flag,
                             "site": tuple(ctx.decisions[: ctx.di]), "fresh": list(ctx.fresh_log), "operand": result.fields.get("operand")})
        return self.clauses[-1]


def flag_term(flag):
    if isinstance(flag, bool):
        return z3.BoolVal(flag)
    if isinstance(flag, SBool):
        return flag.t
    raise AssertionError(f"flag {flag!r}")


def check_cover_per_yield(vm, world, clause, h_node, prefix):
    """Ext and Sound for one generic output (binders are the path's fresh constants)."""
    ctx = vm.ctx
    b = clause["b"]
    if b is None:
        ctx.fail(f"{prefix}::output-bindings-are-a-bindings-map")
        return
    ctx.check(f"{prefix}::ext-output-extends-the-incoming-bindings", sub(world.sigma0, b))
    t = ctx.fresh_const("tau", Ts)
    f = flag_term(clause["flag"])
    ctx.check(f"{prefix}::sound-truth-flag-is-the-first-order-truth-of-the-node",
              z3.Implies(ext(b, t), h_node(t) == z3.Not(f)))


def _rename(clause, suffix, shared):
    subs = []
    for c in clause["fresh"]:
        if any(z3.eq(c, s) for s in shared):
            continue
        subs.append((c, z3.Const(str(c) + suffix, c.sort())))
    r = lambda e: z3.substitute(e, *subs) if subs else e
    return {"pc": [r(x) for x in clause["pc"]], "b": r(clause["b"]), "flag": r(flag_term(clause["flag"])), "site": clause["site"],
            "binders": [s[1] for s in subs], "orig_binders": [s[0] for s in subs]}


def _uconsts(e, acc):
    if z3.is_const(e) and e.decl().kind() == z3.Z3_OP_UNINTERPRETED:
        acc.add(e.get_id())
    if z3.is_quantifier(e):
        _uconsts(e.body(), acc)
    else:
        for ch in e.children():
            _uconsts(ch, acc)
    return acc


def call_hypotheses(worlds, shared):
    """The children's contracts at every call site met on any path, universally closed over the binders of the path
    prefix and guarded by its path conditions; plus every closed axiom assumed on a path (environment facts)."""
    hyps, seen = [], set()
    for w in worlds:
        ctx = w.vm.ctx
        fresh_ids = {c.get_id() for c in ctx.fresh_log if not any(z3.eq(c, s_) for s_ in shared)}
        for f in ctx.axiom_log:
            k = f.get_id()
            if k in seen:
                continue
            seen.add(k)
            if not (_uconsts(f, set()) & fresh_ids):
                hyps.append(f)
        for f in ctx.conds[: w.mark_index()]:
            if f.get_id() not in seen:
                seen.add(f.get_id())
                hyps.append(f)
    for w in worlds:
        for call in w.calls:
            gv = [c for c in call["fresh"] if not any(z3.eq(c, s) for s in shared)]
            key = (call["child"].name, str(call["sig"]), tuple(str(g) for g in call["conds"]))
            if key in seen:
                continue
            seen.add(key)
            hyps += call["child"].contract_at(call["sig"], gv=gv, guard=call["conds"])
    return hyps


def finalize_cover(clauses, sigma0, shared, prefix, want_unique=True, timeout_ms=15000, hyps=(), tau_hyps=None):
    """Complete and Unique over the set of yield clauses collected from all paths."""
    checks = []
    t0 = z3.Const("tau0", Ts)
    hyps = list(hyps)

    def run(oid, formulas):
        import time
        st = time.time()
        r = z3.unknown
        reason = None
        # E-matching on these goals is occasionally unstable: several short attempts with different seeds
        for seed in range(5):
            s = z3.Solver()
            s.set("timeout", max(2000, timeout_ms // 5))
            if seed == 0:
                s.set("auto_config", False)
                s.set("mbqi", False)          # triggers only: deterministic and immediate for the valid obligations
            else:
                s.set("random_seed", seed)
            s.add(base_axioms())
            s.add(distinct_ids())
            s.add(hyps)
            s.add(formulas)
            r = s.check()
            if r != z3.unknown:
                break
            reason = s.reason_unknown()
        dt = time.time() - st
        if r == z3.unsat:
            checks.append(Check(oid, "discharged", seconds=dt))
        elif r == z3.sat:
            checks.append(Check(oid, "failed", model={"__note__": "counter-model found"}, seconds=dt))
        else:
            c = Check(oid, "unknown", seconds=dt, reason=reason)
            c.model = {"__smt2__": s.to_smt2()[:20000]}
            checks.append(c)
    # Complete: some clause covers tau0
    rs = [_rename(c, f"!c{i}", shared) for i, c in enumerate(clauses)]
    neg = [ext(sigma0, t0)] + (list(tau_hyps(t0)) if tau_hyps else [])
    common = []
    for i, c in enumerate(rs):
        body = z3.And(*(c["pc"] + [ext(c["b"], t0)]))
        neg.append(z3.ForAll(c["binders"], z3.Not(body)) if c["binders"] else z3.Not(body))
    run(f"{prefix}::complete-every-total-assignment-extending-the-incoming-bindings-is-covered-by-an-output", neg)
    if want_unique:
        for i, c1 in enumerate(clauses):
            for j, c2 in enumerate(clauses):
                if j < i:
                    continue
                a = _rename(c1, f"!u{i}a", shared)
                d = _rename(c2, f"!u{j}b", shared)
                fs = a["pc"] + d["pc"] + [ext(a["b"], t0), ext(d["b"], t0)] + (list(tau_hyps(t0)) if tau_hyps else [])
                if c1["site"] == c2["site"]:
                    occ_a = [x for x in a["binders"] if x.sort() == Os]
                    occ_d = [x for x in d["binders"] if x.sort() == Os]
                    if len(occ_a) != len(occ_d) or not occ_a:
                        continue
                    fs.append(z3.Or([x != y for x, y in zip(occ_a, occ_d)]))
                run(f"{prefix}::unique-no-total-assignment-is-covered-by-two-output-occurrences", fs)
    return checks
