"""C02 — no duplicated or dropped solutions in conjunctive / else-if queries.

The deciding clauses are Unique + Complete of the cover contract (contracts/C01.py harnesses, same real code) restricted to
the fragment of the property — AND, ElseIf, Not over atoms, Comparator, operands, the query descriptor — plus the obligation
that or_ picks ElseIf exactly for sides over the same domain variables.  Union is outside the fragment by the
property's own wording.  With C09's counting loop, the(...) then succeeds iff exactly one assignment satisfies.
"""
from __future__ import annotations
from . import C01

PROPERTY = "C02"
FUNCTIONS = list(C01.FUNCTIONS) + [("krrood.entity_query_language.symbolic", "ResultQuantifier._evaluate__"), ("krrood.entity_query_language.symbolic", "The._evaluate__")]
ASSUMPTIONS = list(C01.ASSUMPTIONS) + ["a true output in the fragment binds every variable of its node (Total+), so one output covers one assignment of the query variables"]
TRUSTED = list(C01.TRUSTED)
BOUNDED_ONLY_CLAUSES = ["predicates, quantified conditionals and whole-query multiplicity (incl. the()) are decided by the bounded multiset driver"]


def harnesses():
    keep = ("cover-AND", "cover-ElseIf", "cover-Not", "cover-Comparator", "value-Variable", "value-Attribute", "query-descriptor", "optimize_or", "invert", "canary")
    from . import C09
    # "one result per satisfying assignment" at the top of the query: the result quantifier reports EVERY result of its child
    # exactly once (C09's counting-loop invariant: reported = pulled), so nothing is merged or repeated after the cover
    counting = [h for h in C09.harnesses() if h.name in ("an-evaluate[none+var]", "an-evaluate[none]", "the-evaluate-stream[var]")]
    return [h for h in C01.harnesses() if h.name.startswith(keep)] + counting
