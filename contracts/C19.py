"""C19 — unresolvable JSON type tags fail with the documented serialisation errors only.

Exception-escape contract on SubclassJSONSerializer.from_json for `data` a dict whose type tag ranges over the whole
JSON value ADT (absent / null / bool / int / float / string (fully symbolic, z3 strings) / list / dict).
The resolver's dependencies are replaced by *assumed builtin contracts* (ASSUMPTIONS below), each of which is
spot-validated natively by bounded/C19.py on every run.
"""
from __future__ import annotations
import z3

from pyvc.framework import Harness
from pyvc.interp import Spec, PyRaise, INLINE
from pyvc.values import SInt, SBool, SStr, Opaque, Builtin, PyList, PyDict, Obj
from pyvc.ops import make_dict, zstr

PROPERTY = "C19"
JS = "krrood.adapters.json_serializer"
FUNCTIONS = [(JS, "SubclassJSONSerializer.from_json"), (JS, "from_json"),
             (JS, "MissingTypeError.__init__"), (JS, "InvalidTypeFormatError.__post_init__"),
             (JS, "UnknownModuleError.__post_init__"), (JS, "ClassNotFoundError.__post_init__"),
             (JS, "ClassNotDeserializableError.__post_init__"),
             (JS, "JSONSerializableTypeRegistry.get_deserializer")]
ASSUMPTIONS = [
    "attribute lookup of `rsplit` on a non-str JSON value raises AttributeError",
    "s.rsplit('.', 1) has length 1 iff s contains no dot, else [head, tail] with s == head + '.' + tail and no dot in tail",
    "unpacking a 1-element list into two targets raises ValueError",
    "importlib.import_module(name): '' raises ValueError; a leading dot raises TypeError (no package); otherwise it either "
    "raises ModuleNotFoundError or returns a module (importing does not execute failing user code — stated exclusion)",
    "getattr(module, name) raises AttributeError or returns an arbitrary object (class or not)",
    "issubclass(x, C) raises TypeError when x is not a class",
    "a non-class object may lack __name__ (AttributeError on access)",
    "dict.get returns the stored value or None",
]
TRUSTED = ["assumed builtin contracts of str.rsplit / importlib.import_module / getattr / issubclass (spot-validated natively)"]

TAG_KINDS = ["absent", "null", "true", "false", "int", "float", "str", "list-empty", "list", "dict-empty", "dict"]
TARGET_KINDS = ["serializer-subclass", "registered-class", "unregistered-class", "function", "module", "typevar-like", "none-object"]


def cls(vm, name):
    return vm.loader.cls(JS, name)


class Target(Opaque):
    def __init__(self, kind):
        super().__init__("target:" + kind)
        self.kind = kind


SYNTH = '''
from krrood.adapters.json_serializer import SubclassJSONSerializer


class Thing(SubclassJSONSerializer):
    pass


class SubThing(Thing):
    pass
'''


def install_env(vm, log, found=None):
    """Assumed contracts of the resolver's dependencies.  found: collects the objects the named module exposed."""
    ctx = vm.ctx
    found = [] if found is None else found

    def import_module(it, fr, a, k):
        name = a[0]
        log.append(("import", name))
        if not isinstance(name, (str, SStr)):
            it.raise_("TypeError", "module name must be str")
        s = zstr(name)
        if ctx.branch(z3.Length(s) == 0):
            it.raise_("ValueError", "Empty module name")
        if ctx.branch(z3.PrefixOf(z3.StringVal("."), s)):
            it.raise_("TypeError", "the 'package' argument is required to perform a relative import")
        if ctx.choice(2, "module-exists") == 0:
            ctx.inputs["module_exists"] = False
            it.raise_("ModuleNotFoundError", "No module named ...")
        ctx.inputs["module_exists"] = True
        return Opaque("module")
    vm.loader.externals[("importlib", "import_module")] = Builtin("import_module", import_module)
    vm.builtins = dict(vm.builtins)
    vm.builtins["importlib.import_module"] = Builtin("import_module", import_module)

    def getattr_sym(it, obj, name, *default):
        if isinstance(obj, Opaque) and obj.tag == "module":
            k = ctx.choice(len(TARGET_KINDS) + 1, "attribute")
            if k == 0:
                ctx.inputs["attribute"] = "missing"
                if default:
                    return default[0]
                it.raise_("AttributeError", "module has no attribute")
            ctx.inputs["attribute"] = TARGET_KINDS[k - 1]
            if TARGET_KINDS[k - 1] == "none-object":
                return None     # a module attribute may be bound to None (e.g. builtins.None)
            tgt = Target(TARGET_KINDS[k - 1])
            found.append(tgt)
            return tgt
        raise AssertionError("unexpected symbolic getattr")
    vm.spec.opaque_hooks["getattr_sym"] = getattr_sym

    def issubclass_hook(it, c, p):
        if isinstance(c, Target):
            if c.kind in ("function", "module", "typevar-like"):
                it.raise_("TypeError", "issubclass() arg 1 must be a class")
            return c.kind == "serializer-subclass" and p is cls(vm, "SubclassJSONSerializer")
        it.raise_("TypeError", "issubclass() arg 1 must be a class")
    vm.spec.opaque_hooks["issubclass"] = issubclass_hook

    def isinstance_hook(it, v, c):
        if isinstance(v, Target):
            nm = getattr(c, "name", "")
            if nm == "type":
                return v.kind in ("serializer-subclass", "registered-class", "unregistered-class")
            if nm == "object":
                return True
            return False
        return False
    vm.spec.opaque_hooks["isinstance"] = isinstance_hook

    def opaque_getattr(it, v, name):
        if isinstance(v, Target):
            if name == "_from_json" and v.kind == "serializer-subclass":
                return Builtin("_from_json", lambda it2, fr, a, k: ("handover", "_from_json", v))
            if name == "__name__":
                if v.kind in ("module", "typevar-like"):
                    # modules have __name__, TypeVars too; an arbitrary object may not: be adversarial
                    if ctx.choice(2, "has-__name__") == 0:
                        it.raise_("AttributeError", "__name__")
                return "SomeName"
            it.raise_("AttributeError", name)
        if v.tag == "module":
            it.raise_("AttributeError", name)
        raise AssertionError(f"unexpected attribute {name} of {v!r}")
    vm.spec.opaque_hooks["getattr"] = opaque_getattr
    vm.spec.opaque_hooks["truth"] = lambda it, v: True
    vm.spec.opaque_hooks["str"] = lambda it, v: "opaque"

    reg = vm.alloc(cls(vm, "JSONSerializableTypeRegistry"), {}, tag="registry")

    def get_deserializer(it, a, k):
        t = a[1]
        if isinstance(t, Target) and t.kind == "registered-class":
            return Builtin("registered_deserializer", lambda it2, fr, a2, k2: ("handover", "registered", t))
        return None
    vm.spec.stubs["JSONSerializableTypeRegistry.get_deserializer"] = get_deserializer
    vm.spec.stubs["JSONSerializableTypeRegistry.__call__"] = lambda it, a, k: reg


def make_tag(vm, kind):
    ctx = vm.ctx
    if kind == "null":
        return None
    if kind == "true":
        return True
    if kind == "false":
        return False
    if kind == "int":
        return SInt(ctx.fresh_int("tag_int", register=True))
    if kind == "float":
        return 1.5
    if kind == "str":
        return SStr(ctx.fresh_str("tag", register=True))
    if kind == "list-empty":
        return PyList([])
    if kind == "list":
        return PyList(["a.b"])
    if kind == "dict-empty":
        return make_dict([])
    if kind == "dict":
        return make_dict([("a", 1)])
    raise AssertionError(kind)


def h_tag(kind, receiver="SubclassJSONSerializer"):
    """receiver: the class from_json is called on (the base class or any serialisable class: what is built is decided by the
    tag alone, never by the receiver).  Whatever class-level tables the serialiser classes keep hold arbitrary entries (any
    class that was ever created, under any name)."""
    def run(vm):
        ctx = vm.ctx
        log, found = [], []
        install_env(vm, log, found)
        from .lib import arbitrary_class_state
        ctx.inputs["tag_kind"] = kind
        items = [("payload", 1)]
        if kind != "absent":
            items.insert(0, (vm.module_global(JS, "JSON_TYPE_NAME"), make_tag(vm, kind)))
        data = make_dict(items)
        JSE = cls(vm, "JSONSerializationError")
        S = cls(vm, "SubclassJSONSerializer")
        if receiver != "SubclassJSONSerializer":
            vm.loader.add_module("pyvc_synth_c19", SYNTH)
            S = vm.loader.cls("pyvc_synth_c19", receiver)
            # the receiver's own _from_json (reached only if from_json builds the RECEIVER instead of what the tag names)
            vm.spec.stubs["SubclassJSONSerializer._from_json"] = lambda it, a, k: ("built-the-receiver", a[0])
        arbitrary_class_state(vm, S, lambda it: Target("serializer-subclass"))
        try:
            r = vm.call(vm._getattr(S, "from_json"), [data], {})
        except PyRaise as pr:
            ctx.cover("raised")
            e = pr.exc
            ok = vm.is_subclass(e.cls, JSE)
            ctx.check(f"from_json::only-JSONSerializationError-escapes[{kind}]", z3.BoolVal(ok),
                      detail=f"{getattr(e.cls, 'name', e.cls)} {e.fields.get('args')}")
            if not ok:
                return
            nm = e.cls.name
            # the error class identifies the problem (documented mapping)
            if kind in ("absent", "null"):
                ctx.check("from_json::missing-tag-raises-MissingTypeError", z3.BoolVal(nm == "MissingTypeError"), detail=nm)
            if kind == "str":
                tag = data.vals[("c", "__json_type__")].t
                if nm == "InvalidTypeFormatError":
                    ctx.check("from_json::InvalidTypeFormat-only-for-tags-without-module-part",
                              z3.Or(z3.Not(z3.Contains(tag, z3.StringVal("."))), z3.PrefixOf(z3.StringVal("."), tag)))
                elif nm == "MissingTypeError":
                    ctx.check("from_json::MissingType-only-for-empty-tag", z3.Length(tag) == 0)
                elif nm == "UnknownModuleError":
                    ctx.check("from_json::UnknownModule-only-when-import-failed",
                              z3.BoolVal(any(x[0] == "import" for x in log) and ctx.inputs.get("module_exists") is not True))
                elif nm == "ClassNotFoundError":
                    ctx.check("from_json::ClassNotFound-only-when-attribute-missing",
                              z3.BoolVal(ctx.inputs.get("attribute") == "missing"))
                elif nm == "ClassNotDeserializableError":
                    ctx.check("from_json::ClassNotDeserializable-only-for-non-deserialisable-targets",
                              z3.BoolVal(ctx.inputs.get("attribute") in ("unregistered-class", "function", "module", "typevar-like", "none-object")))
            return
        ctx.cover("returned")
        ok = isinstance(r, tuple) and len(r) == 3 and r[0] == "handover" and (
            (r[1] == "_from_json" and r[2].kind == "serializer-subclass") or (r[1] == "registered" and r[2].kind == "registered-class"))
        ctx.check(f"from_json::returns-only-by-handover-to-a-deserialisable-class[{kind}]", z3.BoolVal(ok), detail=repr(r))
        # ... and that class is the very object the named module exposes under the named attribute (not a class found elsewhere)
        ok2 = ok and any(x[0] == "import" for x in log) and ctx.inputs.get("module_exists") is True and any(r[2] is t for t in found)
        ctx.check(f"from_json::the-class-handed-over-to-is-the-attribute-of-the-imported-module[{kind}]", z3.BoolVal(bool(ok2)),
                  detail=f"{r!r}; imports {log}; the module exposed {found}")
    covers = ["raised"] + (["returned"] if kind == "str" else [])
    suffix = "" if receiver == "SubclassJSONSerializer" else f"@{receiver}"
    return Harness(f"tag-{kind}{suffix}", run, spec=Spec(), covers=covers)


def h_registry():
    """The registry answers for exactly the registered class (a subclass of a registered type is not deserialisable
    through its base: the result would be an object of the wrong class)."""
    def run(vm):
        ctx = vm.ctx
        SYM = "krrood.entity_query_language.symbolic"
        A = vm.loader.cls(SYM, "ResultQuantifier")
        B = vm.loader.cls(SYM, "The")            # a strict subclass of A
        C = vm.loader.cls(SYM, "Literal")        # unrelated
        reg = vm.alloc(cls(vm, "JSONSerializableTypeRegistry"), {"_serializers": make_dict([]), "_deserializers": make_dict([])}, tag="registry")
        sA, dA = Builtin("sA", lambda *a: None), Builtin("dA", lambda *a: None)
        vm.call_method(reg, "register", A, sA, dA)
        ctx.check("JSONSerializableTypeRegistry::registered-class-gets-its-own-functions",
                  z3.BoolVal(vm.call_method(reg, "get_deserializer", A) is dA and vm.call_method(reg, "get_serializer", A) is sA))
        ctx.check("JSONSerializableTypeRegistry::answers-for-exactly-the-registered-class",
                  z3.BoolVal(vm.call_method(reg, "get_deserializer", B) is None and vm.call_method(reg, "get_deserializer", C) is None
                             and vm.call_method(reg, "get_serializer", B) is None and vm.call_method(reg, "get_serializer", C) is None))
    return Harness("registry", run, spec=Spec())


def h_canary():
    def run(vm):
        ctx = vm.ctx
        install_env(vm, [])
        data = make_dict([("__json_type__", "nodots")])
        try:
            vm.call(vm._getattr(cls(vm, "SubclassJSONSerializer"), "from_json"), [data], {})
        except PyRaise as pr:
            # deliberately false: claims a dot-less tag is reported as UnknownModuleError
            ctx.check("CANARY", z3.BoolVal(pr.exc.cls.name == "UnknownModuleError"))
    return Harness("canary", run, expect_fail=True)


def harnesses():
    return [h_tag(k) for k in TAG_KINDS] + [h_tag(k, r) for k in TAG_KINDS for r in ("Thing", "SubThing")] + [h_registry(), h_canary()]
