"""C06 — ORMatic produces a valid, complete SQLAlchemy layer for every supported model.

What a contract on krrood's code can carry (the rest - that the emitted text imports, that SQLAlchemy configures the mappers
and creates the schema - is SQLAlchemy's semantics and is decided by the bounded driver only):

  WrappedTable.parse_field      dispatch on the field's classification (C17): exactly one of
                                type column | builtin/enum column | one-to-one relationship | custom-typed column | JSON column |
                                association-table relationship | skipped - in the documented priority
  WrappedTable.create_*         the column / foreign key / relationship / association table records the template prints:
                                names derived from the field name, the target table from the field's end point, Optional
                                reflected in the annotation, str -> String(255), distinct association columns also for a
                                collection of the own class
  WrappedTable.parse_fields     every public own field is parsed once, fields starting with '_' never; mapper args afterwards
  WrappedTable.fields           own fields = the class's fields minus those any ancestor table already maps (by name)
  tablename / base_class_name / primary_key / create_mapper_args : <Class>DAO, parent's DAO or Base, pk (FK to the parent's pk
                                below a parent), polymorphic columns for roots with children and identities for children
  ORMatic._create_wrapped_tables one table per class of the diagram, parents first; an alternative mapping replaces its class
  ORMatic.foreign_key_name, __post_init__ (modules the template must import, incl. builtins)
Determinism: every collection the template iterates is a list / insertion-ordered dict filled in the (deterministic)
topological order of the inheritance graph, or a SortedSet; no hash-ordered iteration reaches the output (checked as the
obligation 'no-set-is-iterated-into-the-output' on the real bodies).
"""
from __future__ import annotations
import ast
import z3

from pyvc.framework import Harness
from pyvc.interp import Spec, PyRaise, INLINE
from pyvc.values import Obj, PyList, PyDict, PySet, Builtin, Opaque
from pyvc.ops import make_dict, key_of
from pyvc.repo import ClassInfo

PROPERTY = "C06"
WT = "krrood.ormatic.wrapped_table"
OM = "krrood.ormatic.ormatic"
T = "WrappedTable"
FUNCTIONS = [(WT, f"{T}.{m}") for m in ("parse_field", "parse_fields", "fields", "create_builtin_column", "create_type_type_column",
                                       "create_one_to_one_relationship", "create_one_to_many_relationship", "create_json_column",
                                       "create_custom_type", "get_table_of_wrapped_field", "tablename", "full_primary_key_name", "parent_table", "_find_direct_parent_wrapped",
                                       "base_class_name", "primary_key", "create_mapper_args", "has_children", "child_tables")] + [
    (WT, "ColumnConstructor.__str__"), (OM, "ORMatic._create_wrapped_tables"), (OM, "ORMatic.foreign_key_name"),
    (OM, "ORMatic.get_alternative_mapping"), (OM, "ORMatic.mapped_classes"), (OM, "ORMatic.make_all_tables")]
ASSUMPTIONS = [
    "the field classification is the one C17 proves (WrappedField predicates are stubbed by their contract here)",
    "the jinja template prints the recorded ColumnConstructor / AssociationTable / mapper_args records verbatim, in list order",
    "SQLAlchemy accepts the emitted declarations (import, configure_mappers, create_all): decided natively by the bounded driver",
    "rustworkx.topological_sort is deterministic for a given graph",
    "module_and_class_name(c) is c.__module__ + '.' + c.__name__",
]
TRUSTED = ["jinja2 / black / SQLAlchemy"]
BOUNDED_ONLY_CLAUSES = ["the generated module imports, its mappers configure and its schema can be created",
                        "one DAO per class with the right base and columns / relationships as SQLAlchemy sees them (mapper inspection)",
                        "generation is deterministic (text equality of two runs)"]


def cls(vm, mod, name):
    return vm.loader.cls(mod, name)


class GW:
    def __init__(self, vm):
        self.vm = vm
        self.typemods = {}
        vm.spec.stubs[f"{WT}:module_and_class_name"] = self.mcn
        vm.spec.stubs[f"krrood.ormatic.utils:module_and_class_name"] = self.mcn
        self.om = vm.alloc(cls(vm, OM, "ORMatic"), {"foreign_key_postfix": "_id", "imported_modules": PySet([]), "association_tables": PyList([]),
                                                    "type_mappings": make_dict([]), "wrapped_tables": make_dict([])}, tag="ormatic")
        self.mapped = []
        quiet = vm.alloc(vm.ext("object"), {"info": Builtin("info", lambda it, fr, a, k: None), "debug": Builtin("debug", lambda it, fr, a, k: None)}, tag="logger")
        for m in (WT, OM):
            vm.loader.module(m).values["logger"] = quiet
        vm.spec.attr_hooks[("ORMatic", "mapped_classes")] = lambda it, o: PyList(list(self.mapped))
        self.fk = vm.loader.external("krrood.ormatic.utils", "InheritanceStrategy")

    def mcn(self, it, a, k):
        c = a[0]
        if isinstance(c, Obj) and "__qual__" in c.fields:
            return c.fields["__qual__"]
        n = getattr(c, "name", None) or getattr(c, "tag", "x")
        n = n.split(".")[-1]
        return {"int": "builtins.int", "str": "builtins.str", "float": "builtins.float", "Optional": "typing.Optional", "List": "typing.List", "Set": "typing.Set"}.get(n, f"mod.{n}")

    def klass(self, name, module="mod"):
        return self.vm.alloc(self.vm.ext("object"), {"__name__": name, "__module__": module, "__qual__": f"{module}.{name}"}, tag=f"class-{name}")

    def table(self, name, parent=None, fields=()):
        vm = self.vm
        k = self.klass(name)
        wc = vm.alloc(vm.ext("object"), {"clazz": k, "index": len(self.mapped), "fields": PyList(list(fields))}, tag=f"wrapped-{name}")
        t = vm.alloc(cls(vm, WT, T), {"wrapped_clazz": wc, "ormatic": self.om, "builtin_columns": PyList([]), "custom_columns": PyList([]),
                                      "foreign_keys": PyList([]), "relationships": PyList([]), "mapper_args": make_dict([]),
                                      "primary_key_name": "database_id", "polymorphic_on_name": "polymorphic_type", "parent_table": parent}, tag=f"table-{name}")
        self.mapped.append(k)
        return t

    def field(self, name, **props):
        f = self.vm.alloc(self.vm.ext("object"), {"name": name, "type": "annotation"}, tag=f"dcfield-{name}")
        d = dict(is_type_type=False, is_builtin_type=False, is_enum=False, is_container=False, is_one_to_one_relationship=False,
                 is_one_to_many_relationship=False, is_collection_of_builtins=False, is_optional=False, type_endpoint=None, container_type=None)
        d.update(props)
        return self.vm.alloc(self.vm.ext("object"), dict(d, field=f), tag=f"wrapped-field-{name}")


def cc(o):
    """(name, type, constructor) of a ColumnConstructor record"""
    return (o.fields.get("name"), o.fields.get("type"), o.fields.get("constructor"))


# ------------------------------------------------------------------------------------------------ dispatch
def h_parse_field():
    def run(vm):
        ctx = vm.ctx
        W = GW(vm)
        t = W.table("A")
        mapped, other, custom = W.klass("B"), W.klass("Unmapped"), W.klass("Custom")
        W.mapped.append(mapped)
        W.om.fields["type_mappings"] = make_dict([(custom, "CustomType")])
        intc = vm.ext("int")
        cases = [
            ("type", dict(is_type_type=True, is_container=True, type_endpoint=mapped), "create_type_type_column"),
            ("builtin", dict(is_builtin_type=True, type_endpoint=intc), "create_builtin_column"),
            ("optional-builtin", dict(is_builtin_type=True, is_optional=True, type_endpoint=intc), "create_builtin_column"),
            ("enum", dict(is_enum=True, is_one_to_one_relationship=True, type_endpoint=other), "create_builtin_column"),
            ("reference", dict(is_one_to_one_relationship=True, type_endpoint=mapped), "create_one_to_one_relationship"),
            ("optional-reference", dict(is_one_to_one_relationship=True, is_optional=True, type_endpoint=mapped), "create_one_to_one_relationship"),
            ("custom-type", dict(is_one_to_one_relationship=True, type_endpoint=custom), "create_custom_type"),
            ("list-of-builtins", dict(is_container=True, is_builtin_type=True, is_collection_of_builtins=True, type_endpoint=intc), "create_json_column"),
            ("list-of-custom", dict(is_container=True, is_one_to_many_relationship=True, type_endpoint=custom), "create_json_column"),
            ("list-of-mapped", dict(is_container=True, is_one_to_many_relationship=True, type_endpoint=mapped), "create_one_to_many_relationship"),
            ("reference-to-unmapped", dict(is_one_to_one_relationship=True, type_endpoint=other), None),
        ]
        calls = []
        for m in ("create_type_type_column", "create_builtin_column", "create_one_to_one_relationship", "create_custom_type", "create_json_column",
                  "create_one_to_many_relationship"):
            vm.spec.stubs[f"{T}.{m}"] = lambda it, a, k, m=m: calls.append((m, a[1]))
        for label, props, want in cases:
            del calls[:]
            f = W.field("f", **props)
            vm.call_method(t, "parse_field", f)
            ok = calls == ([(want, f)] if want else [])
            ctx.check(f"{T}.parse_field::each-kind-of-field-gets-exactly-its-kind-of-column-or-relationship", z3.BoolVal(ok), detail=f"{label}: {[c[0] for c in calls]} expected {want}")
    return Harness("parse-field", run, spec=Spec())


def h_parse_fields():
    def run(vm):
        ctx = vm.ctx
        W = GW(vm)
        n = 4
        kinds = [ctx.choice(3, f"name-kind?{i}") for i in range(n)]        # 0 private, 1 public, 2 public with inner / trailing underscores
        privs = [k == 0 for k in kinds]
        fs = [W.field(("_p%d", "f%d", "t_%d_")[k] % i) for i, k in enumerate(kinds)]
        t = W.table("A")
        calls = []
        vm.spec.attr_hooks[(T, "fields")] = lambda it, o: PyList(list(fs))
        vm.spec.stubs[f"{T}.parse_field"] = lambda it, a, k: calls.append(("field", a[1]))
        vm.spec.stubs[f"{T}.create_mapper_args"] = lambda it, a, k: calls.append(("mapper_args",))
        vm.call_method(t, "parse_fields")
        want = [("field", f) for f, p in zip(fs, privs) if not p] + [("mapper_args",)]
        ctx.check(f"{T}.parse_fields::every-public-field-once-in-order-private-fields-never-then-mapper-args", z3.BoolVal(calls == want), detail=repr(calls))
        ctx.cover("done")
    return Harness("parse-fields", run, spec=Spec(), covers=["done"], max_paths=200)


def h_fields():
    """own fields = class fields minus names mapped by any ancestor table (two ancestor levels)"""
    def run(vm):
        ctx = vm.ctx
        W = GW(vm)
        fa, fb, fc, fd = (W.field(n) for n in ("a", "b", "c", "d"))
        grand = W.table("G", fields=[fa])
        parent = W.table("P", parent=grand, fields=[W.field("a"), fb])
        vm.spec.attr_hooks[(T, "is_alternatively_mapped")] = lambda it, o: False
        child = W.table("C", parent=parent, fields=[W.field("a"), W.field("b"), fc, fd])
        got = vm._getattr(child, "fields")
        ctx.check(f"{T}.fields::inherited-fields-are-mapped-by-the-ancestor-only", z3.BoolVal(isinstance(got, PyList) and got.items == [fc, fd]), detail=repr(got))
        got = vm._getattr(grand, "fields")
        ctx.check(f"{T}.fields::a-root-maps-all-its-fields", z3.BoolVal(isinstance(got, PyList) and got.items == [fa]), detail=repr(got))
    return Harness("fields", run, spec=Spec())


# ------------------------------------------------------------------------------------------------ records
def h_columns():
    def run(vm):
        ctx = vm.ctx
        W = GW(vm)
        t = W.table("A")
        intc, strc = vm.ext("int"), vm.ext("str")
        vm.spec.opaque_hooks["getattr"] = lambda it, o, name: "builtins" if name == "__module__" else it.raise_("AttributeError", name)
        vm.call_method(t, "create_builtin_column", W.field("n", is_builtin_type=True, type_endpoint=intc))
        vm.call_method(t, "create_builtin_column", W.field("s", is_builtin_type=True, is_optional=True, type_endpoint=strc))
        cols = [cc(c) for c in t.fields["builtin_columns"].items]
        ctx.check(f"{T}.create_builtin_column::column-named-after-the-field-typed-by-its-end-point",
                  z3.BoolVal(cols[0] == ("n", "Mapped[builtins.int]", "mapped_column(use_existing_column=True)")), detail=repr(cols))
        ctx.check(f"{T}.create_builtin_column::optional-is-reflected-and-str-gets-a-length",
                  z3.BoolVal(cols[1] == ("s", "Mapped[typing.Optional[builtins.str]]", "mapped_column(String(255), use_existing_column=True)")), detail=repr(cols))
        # whatever the column type is (builtin, datetime, an enum of some other module), the module it lives in is imported by
        # the generated file: the annotation `Mapped[module.Type]` is resolved there
        enumc = vm.alloc(vm.ext("object"), {"__name__": "Colour", "__module__": "vocabulary", "__qual__": "vocabulary.Colour"}, tag="enum-class")
        whenc = vm.alloc(vm.ext("object"), {"__name__": "datetime", "__module__": "datetime", "__qual__": "datetime.datetime"}, tag="datetime-class")
        vm.call_method(t, "create_builtin_column", W.field("colour", is_enum=True, type_endpoint=enumc))
        vm.call_method(t, "create_builtin_column", W.field("ocolour", is_enum=True, is_optional=True, type_endpoint=enumc))
        vm.call_method(t, "create_builtin_column", W.field("when", is_builtin_type=True, type_endpoint=whenc))
        mods = [m for m in W.om.fields["imported_modules"].items]
        cols = [cc(c) for c in t.fields["builtin_columns"].items]
        ctx.check(f"{T}.create_builtin_column::the-module-of-every-column-type-is-imported",
                  z3.BoolVal("vocabulary" in mods and "datetime" in mods and "builtins" in mods), detail=repr(mods))
        ctx.check(f"{T}.create_builtin_column::an-enum-column-is-typed-by-the-enum-class",
                  z3.BoolVal(cols[2][:2] == ("colour", "Mapped[vocabulary.Colour]") and cols[3][:2] == ("ocolour", "Mapped[typing.Optional[vocabulary.Colour]]")), detail=repr(cols[2:]))
        del t.fields["builtin_columns"].items[2:]
        # JSON list / set of builtins
        listc, setc = vm.ext("list"), vm.ext("set")
        vm.call_method(t, "create_json_column", W.field("xs", is_container=True, container_type=listc, type_endpoint=intc))
        vm.call_method(t, "create_json_column", W.field("ys", is_container=True, container_type=setc, type_endpoint=strc, is_optional=True))
        cus = [cc(c) for c in t.fields["custom_columns"].items]
        ctx.check(f"{T}.create_json_column::a-json-column-typed-as-list-or-set-of-the-element-type",
                  z3.BoolVal(cus[0] == ("xs", "Mapped[typing.List[builtins.int]]", "mapped_column(JSON, nullable=False, use_existing_column=True)")
                             and cus[1] == ("ys", "Mapped[typing.Set[builtins.str]]", "mapped_column(JSON, nullable=True, use_existing_column=True)")), detail=repr(cus))
        vm.call_method(t, "create_type_type_column", W.field("kind", is_type_type=True))
        vm.call_method(t, "create_type_type_column", W.field("okind", is_type_type=True, is_optional=True))
        cus = [cc(c) for c in t.fields["custom_columns"].items][2:]
        ctx.check(f"{T}.create_type_type_column::a-TypeType-column",
                  z3.BoolVal(cus[0] == ("kind", "Mapped[TypeType]", "mapped_column(TypeType, nullable=False, use_existing_column=True)")
                             and cus[1] == ("okind", "Mapped[typing.Optional[TypeType]]", "mapped_column(TypeType, nullable=True, use_existing_column=True)")), detail=repr(cus))
        custom = W.klass("Custom")
        ctype = vm.alloc(vm.ext("object"), {"__module__": "cm", "__name__": "CType"}, tag="custom-type")
        W.om.fields["type_mappings"] = make_dict([(custom, ctype)])
        vm.call_method(t, "create_custom_type", W.field("c", type_endpoint=custom))
        cus = [cc(c) for c in t.fields["custom_columns"].items][4:]
        ctx.check(f"{T}.create_custom_type::a-column-of-the-registered-type-decorator",
                  z3.BoolVal(cus[0] == ("c", "Mapped[cm.CType]", "mapped_column(cm.CType, nullable=False, use_existing_column=True)")), detail=repr(cus))
    return Harness("columns", run, spec=Spec())


def h_relationships():
    def run(vm):
        ctx = vm.ctx
        W = GW(vm)
        a, b = W.table("A"), W.table("B")
        target_of = {}
        vm.spec.stubs[f"{T}.get_table_of_wrapped_field"] = lambda it, x, k: target_of[id(x[1])]
        f1 = W.field("owner", is_one_to_one_relationship=True)
        f2 = W.field("boss", is_one_to_one_relationship=True, is_optional=True)
        target_of[id(f1)], target_of[id(f2)] = b, a
        vm.call_method(a, "create_one_to_one_relationship", f1)
        vm.call_method(a, "create_one_to_one_relationship", f2)
        fks = [cc(c) for c in a.fields["foreign_keys"].items]
        rels = [cc(c) for c in a.fields["relationships"].items]
        ctx.check(f"{T}.create_one_to_one_relationship::a-nullable-foreign-key-to-the-target-tables-primary-key",
                  z3.BoolVal(fks[0] == ("owner_id", "Mapped[int]", "mapped_column(ForeignKey('BDAO.database_id', use_alter=True), nullable=True, use_existing_column=True)")
                             and fks[1][0] == "boss_id" and fks[1][1] == "Mapped[typing.Optional[builtins.int]]" and "ForeignKey('ADAO.database_id'" in fks[1][2]), detail=repr(fks))
        ctx.check(f"{T}.create_one_to_one_relationship::a-scalar-relationship-named-after-the-field-over-that-foreign-key",
                  z3.BoolVal(rels[0] == ("owner", "Mapped[BDAO]", "relationship('BDAO', uselist=False, foreign_keys=[owner_id], post_update=True)")
                             and rels[1][0] == "boss" and rels[1][1] == "Mapped[ADAO]" and "foreign_keys=[boss_id]" in rels[1][2]), detail=repr(rels))
        # collections: to another class, two to the same class, to the own class
        g1, g2, g3 = W.field("items"), W.field("more"), W.field("children")
        target_of[id(g1)], target_of[id(g2)], target_of[id(g3)] = b, b, a
        for g in (g1, g2, g3):
            vm.call_method(a, "create_one_to_many_relationship", g)
        assoc = [x.fields for x in W.om.fields["association_tables"].items]
        names = [x["name"] for x in assoc]
        ctx.check(f"{T}.create_one_to_many_relationship::one-association-table-per-collection-field-with-distinct-names",
                  z3.BoolVal(names == ["adao_items_association", "adao_more_association", "adao_children_association"]), detail=repr(names))
        ctx.check(f"{T}.create_one_to_many_relationship::the-association-references-both-primary-keys",
                  z3.BoolVal(all(x["left_primary_key"] == "ADAO.database_id" for x in assoc) and assoc[0]["right_primary_key"] == "BDAO.database_id"
                             and assoc[2]["right_primary_key"] == "ADAO.database_id" and assoc[0]["left_table_name"] == "ADAO" and assoc[0]["right_table_name"] == "BDAO"))
        ctx.check(f"{T}.create_one_to_many_relationship::the-two-columns-of-an-association-table-have-different-names",
                  z3.BoolVal(all(x["left_foreign_key"] != x["right_foreign_key"] for x in assoc)), detail=repr([(x["left_foreign_key"], x["right_foreign_key"]) for x in assoc]))
        rels = [cc(c) for c in a.fields["relationships"].items][2:]
        ctx.check(f"{T}.create_one_to_many_relationship::a-list-relationship-named-after-the-field-through-its-association-table",
                  z3.BoolVal(rels[0][0] == "items" and rels[0][1] == "Mapped[typing.List[BDAO]]" and "secondary='adao_items_association'" in rels[0][2]
                             and rels[1][0] == "more" and "secondary='adao_more_association'" in rels[1][2]
                             and rels[2][0] == "children" and rels[2][1] == "Mapped[typing.List[ADAO]]" and "secondary='adao_children_association'" in rels[2][2]), detail=repr(rels))
        own = rels[2][2]
        ctx.check(f"{T}.create_one_to_many_relationship::a-collection-of-the-own-class-names-both-joins",
                  z3.BoolVal(f"primaryjoin='ADAO.database_id == adao_children_association.c.{assoc[2]['left_foreign_key']}'" in own
                             and f"secondaryjoin='ADAO.database_id == adao_children_association.c.{assoc[2]['right_foreign_key']}'" in own), detail=own)
    return Harness("relationships", run, spec=Spec())


def h_table_identity():
    def run(vm):
        ctx = vm.ctx
        W = GW(vm)
        root = W.table("Root")
        child = W.table("Child", parent=root)
        leaf = W.table("Leaf")
        strategy = vm.loader.module("krrood.ormatic.utils")
        JOINED = vm._getattr(vm.module_global("krrood.ormatic.utils", "InheritanceStrategy"), "JOINED")
        W.om.fields["inheritance_strategy"] = JOINED
        kids = {id(root): True, id(child): False, id(leaf): False}
        vm.spec.attr_hooks[(T, "has_children")] = lambda it, o: kids[id(o)]
        ctx.check(f"{T}.tablename::class-name-plus-DAO", z3.BoolVal(vm._getattr(root, "tablename") == "RootDAO" and vm._getattr(child, "tablename") == "ChildDAO"))
        ctx.check(f"{T}.base_class_name::the-parents-dao-or-Base", z3.BoolVal(vm._getattr(child, "base_class_name") == "RootDAO" and vm._getattr(root, "base_class_name") == "Base"))
        pk_root, pk_child = cc(vm._getattr(root, "primary_key")), cc(vm._getattr(child, "primary_key"))
        ctx.check(f"{T}.primary_key::integer-for-a-root-foreign-key-to-the-parent-below",
                  z3.BoolVal(pk_root == ("database_id", "Mapped[builtins.int]", "mapped_column(Integer, primary_key=True, use_existing_column=True)")
                             and pk_child == ("database_id", "Mapped[builtins.int]", "mapped_column(ForeignKey(RootDAO.database_id), primary_key=True, use_existing_column=True)")),
                  detail=f"{pk_root} {pk_child}")
        for t in (root, child, leaf):
            vm.call_method(t, "create_mapper_args")
        ra, ca, la = root.fields["mapper_args"], child.fields["mapper_args"], leaf.fields["mapper_args"]

        def d(x):
            return {x.keys[k]: x.vals[k] for k in x.keys}
        ctx.check(f"{T}.create_mapper_args::a-root-with-children-gets-the-polymorphic-column-and-identity",
                  z3.BoolVal(d(ra) == {"'polymorphic_on'": "'polymorphic_type'", "'polymorphic_identity'": "'RootDAO'"}
                             and [cc(c)[0] for c in root.fields["custom_columns"].items] == ["polymorphic_type"]), detail=repr(d(ra)))
        ctx.check(f"{T}.create_mapper_args::a-child-gets-its-identity-and-the-join-condition",
                  z3.BoolVal(d(ca) == {"'polymorphic_identity'": "'ChildDAO'", "'inherit_condition'": "database_id == RootDAO.database_id"}), detail=repr(d(ca)))
        ctx.check(f"{T}.create_mapper_args::a-class-outside-any-hierarchy-gets-none", z3.BoolVal(d(la) == {} and not leaf.fields["custom_columns"].items), detail=repr(d(la)))
        col = vm.alloc(cls(vm, WT, "ColumnConstructor"), {"name": "x", "type": "Mapped[int]", "constructor": "mapped_column()"})
        col2 = vm.alloc(cls(vm, WT, "ColumnConstructor"), {"name": "y", "type": "Mapped[int]", "constructor": None})
        ctx.check("ColumnConstructor.__str__::name-type-and-constructor-as-a-class-attribute",
                  z3.BoolVal(vm.call_method(col, "__str__") == "x: Mapped[int] = mapped_column()" and vm.call_method(col2, "__str__") == "y: Mapped[int]"))
    return Harness("table-identity", run, spec=Spec())


def h_create_tables():
    """one WrappedTable per class in topological order; an alternatively mapped class is represented by its mapping"""
    def run(vm):
        ctx = vm.ctx
        W = GW(vm)
        wcs = [vm.alloc(vm.ext("object"), {"clazz": W.klass(n), "index": i}, tag=f"wrapped-{n}") for i, n in enumerate(("P", "C", "X"))]
        alt = vm.alloc(vm.ext("object"), {"clazz": W.klass("XMapping"), "index": 9}, tag="wrapped-XMapping")
        vm.spec.attr_hooks[("ORMatic", "wrapped_classes_in_topological_order")] = lambda it, o: PyList(list(wcs))
        vm.spec.stubs["ORMatic.get_alternative_mapping"] = lambda it, a, k: alt if a[1] is wcs[2] else None
        made = []
        vm.spec.stubs[f"{T}.__call__"] = lambda it, a, k: made.append(k) or ("table-of", k["wrapped_clazz"])
        vm.call_method(W.om, "_create_wrapped_tables")
        tabs = W.om.fields["wrapped_tables"]
        order = [tabs.keys[k] for k in tabs.keys]
        ctx.check("ORMatic._create_wrapped_tables::one-table-per-class-of-the-diagram-parents-first", z3.BoolVal(order == wcs and len(made) == 3), detail=repr(order))
        ctx.check("ORMatic._create_wrapped_tables::an-alternatively-mapped-class-is-represented-by-its-mapping",
                  z3.BoolVal(tabs.vals[key_of(wcs[2])] == ("table-of", alt) and tabs.vals[key_of(wcs[0])] == ("table-of", wcs[0])), detail=repr(tabs.vals))
        ctx.check("ORMatic._create_wrapped_tables::every-table-knows-its-ormatic", z3.BoolVal(all(m.get("ormatic") is W.om for m in made)))
        f = W.field("owner")
        f.fields["clazz"] = vm.alloc(vm.ext("object"), {"clazz": W.klass("House")})
        vm.spec.opaque_hooks["getattr"] = lambda it, o, name: it.raise_("AttributeError", name)
        k = f.fields["clazz"].fields["clazz"]
        k.fields["__name__"] = "House"
        ctx.check("ORMatic.foreign_key_name::class-field-postfix", z3.BoolVal(vm.call_method(W.om, "foreign_key_name", f) == "house_owner_id"))
    return Harness("create-tables", run, spec=Spec())


def h_parent_table():
    """parent_table of a normally mapped class = the table of the FIRST class of its MRO (after itself) that has a table;
    classes outside the diagram and `object` are skipped; no mapped ancestor -> no parent."""
    def run(vm):
        ctx = vm.ctx
        W = GW(vm)
        obj = vm.ext("object")
        names = ["C", "B", "Mixin", "A", "Z"]
        K = {n: W.klass(n) for n in names}
        wrapped = {n: vm.alloc(vm.ext("object"), {"clazz": K[n], "index": i}, tag=f"wrapped-{n}") for i, n in enumerate(names)}
        in_diagram = {"C", "B", "A", "Z"}                 # Mixin is not part of the class diagram
        from pyvc.interp import PyRaise as _PR
        Unmapped = vm.loader.cls("krrood.class_diagrams.failures", "ClassIsUnMappedInClassDiagram")

        def get_wrapped(it, fr, a, k):
            for n, kk in K.items():
                if a[0] is kk and n in in_diagram:
                    return wrapped[n]
            raise _PR(it.make_exc(Unmapped, a[0]))
        diagram = vm.alloc(vm.ext("object"), {"get_wrapped_class": Builtin("get_wrapped_class", get_wrapped)}, tag="diagram")
        W.om.fields["class_dependency_graph"] = diagram
        vm.spec.attr_hooks[(T, "is_alternatively_mapped")] = lambda it, o: False
        cases = [
            ("direct base has a table", ["B", "A"], {"B", "A"}, "B"),
            ("direct base outside the diagram is skipped", ["Mixin", "A"], {"A"}, "A"),
            ("a base in the diagram without a table is skipped", ["B", "A"], {"A"}, "A"),
            ("first of several mapped bases (MRO order)", ["B", "Z", "A"], {"A", "Z", "B"}, "B"),
            ("no mapped ancestor", ["Mixin"], set(), None),
        ]
        for label, mro, with_table, want in cases:
            K["C"].fields["__mro__"] = tuple([K["C"]] + [K[n] for n in mro] + [obj])
            tables = {n: vm.alloc(cls(vm, WT, T), {"wrapped_clazz": wrapped[n], "ormatic": W.om}, tag=f"table-{n}") for n in with_table}
            W.om.fields["wrapped_tables"] = make_dict([(wrapped[n], tables[n]) for n in sorted(with_table)])
            t = vm.alloc(cls(vm, WT, T), {"wrapped_clazz": wrapped["C"], "ormatic": W.om}, tag="table-C")
            got = vm._getattr(t, "parent_table")
            ctx.check(f"{T}.parent_table::the-table-of-the-nearest-mapped-ancestor-in-mro-order", z3.BoolVal(got is (tables[want] if want else None)), detail=f"{label}: {got!r}")
    return Harness("parent-table", run, spec=Spec())


def h_no_hash_order():
    """Determinism: no function whose result reaches the template iterates a set / frozenset / dict.keys() of classes."""
    def run(vm):
        ctx = vm.ctx
        offenders = []
        for modname in (WT, OM, "krrood.ormatic.sqlalchemy_generator"):
            m = vm.loader.module(modname)
            tree = ast.parse(open(m.path).read())
            for node in ast.walk(tree):
                if isinstance(node, (ast.For, ast.comprehension)):
                    it = node.iter
                    src = ast.unparse(it)
                    # iteration over something that is syntactically a set: set(...), {...}, a set difference, .keys() & ...
                    if isinstance(it, (ast.Set, ast.SetComp)) or (isinstance(it, ast.Call) and isinstance(it.func, ast.Name) and it.func.id in ("set", "frozenset")) \
                            or (isinstance(it, ast.BinOp) and isinstance(it.op, (ast.Sub, ast.BitAnd, ast.BitOr, ast.BitXor))
                                and (".keys()" in src or "names" in src or "set(" in src)):
                        offenders.append(f"{modname}:{getattr(node, 'lineno', getattr(it, 'lineno', 0))}: {src}")
        ctx.check("ORMatic::no-set-is-iterated-into-the-output", z3.BoolVal(not offenders), detail=repr(offenders))
        om = vm.loader.cls(OM, "ORMatic")
        src = ast.unparse(om.node)
        ctx.check("ORMatic::the-modules-to-import-are-kept-sorted", z3.BoolVal("imported_modules: SortedSet[str] = field(default_factory=SortedSet" in src))
    return Harness("no-hash-order", run, spec=Spec())


def h_canary():
    def run(vm):
        W = GW(vm)
        t = W.table("Root")
        # deliberately false: claims the table of class Root is called Root
        vm.ctx.check("CANARY", z3.BoolVal(vm._getattr(t, "tablename") == "Root"))
    return Harness("canary", run, expect_fail=True)


def harnesses():
    return [h_parse_field(), h_parse_fields(), h_fields(), h_columns(), h_relationships(), h_table_identity(), h_create_tables(), h_parent_table(), h_no_hash_order(), h_canary()]
