"""C15 — property-descriptor inference reaches the closure in any assertion order.

The closure is computed incrementally: inserting an edge fires every rule instance that has the new edge as a premise.
Contracts on the real bodies of PropertyDescriptorRelation (step lemmas, abstract symbol graph / class diagram):

  add_to_graph          new edge  => (field write-back iff inferred) ; super ; inverse ; transitive   - in that order, once each
                        known edge => nothing at all (it fired when it was first inserted)
  infer_super_relations for EVERY (domain, field) of super_relations: one inferred relation (domain, target, field) is added
  super_relations       = [(source, f) | f in fields of strict super-properties on type(source)]
                          ++ [(role taker of source, f) | f in fields of strict super-properties on the role taker's type]
  get_fields_of_superproperties(D, T) = fields of T whose descriptor class is a STRICT superclass of D
  infer_inverse_relation  inverse declared => one inferred relation (target or its role taker, source, inverse field); none otherwise
  get_associated_field_of_domain_type(D, T) = the field of T whose descriptor class is exactly D
  infer_transitive_relations  transitive => for EVERY edge n of the same descriptor class leaving the target: (source, n.target, n.field)
                          and for EVERY such edge m entering the source: (m.source, target, m.field); none if not transitive
  update_source_wrapped_field_value / PropertyDescriptor.update_value: the target becomes part of the source's field
Composition: lean/Closure.lean (machine-checked, see h_composition_lemma) - informally: edges are only ever inserted through add_to_graph; for a unary rule the
consequence is inserted when the premise is; for the transitive rule both premises are present when the later one is
inserted, and that insertion combines the new edge with every edge present (the snapshot lists of rustworkx) - so the final
edge set is closed whatever the order; recursion ends because a known edge fires nothing.  Field/graph agreement: an inferred
edge writes its target into the source's field exactly when it is new.
"""
from __future__ import annotations
import z3

from pyvc.framework import Harness
from pyvc.interp import Spec, PyRaise, LoopSpec, INLINE
from pyvc.values import Obj, PyList, PySet, Builtin, Opaque, SymStream, GenObj, SInt
from pyvc.ops import make_dict
from pyvc.repo import ClassInfo

PROPERTY = "C15"
PDR = "krrood.ontomatic.property_descriptor.property_descriptor_relation"
PD = "krrood.ontomatic.property_descriptor.property_descriptor"
MC = "krrood.ontomatic.property_descriptor.monitored_container"
SG = "krrood.entity_query_language.symbol_graph"
R = "PropertyDescriptorRelation"
FUNCTIONS = [(PDR, f"{R}.{m}") for m in (
    "add_to_graph", "update_source_wrapped_field_value", "infer_super_relations", "infer_inverse_relation", "super_relations",
    "direct_super_relations", "role_taker_super_relations", "role_taker_fields", "source_role_taker_association",
    "inverse_domain_and_field", "target_role_taker", "inverse_field_from_target_role_taker", "target_role_taker_association",
    "inverse_field", "infer_transitive_relations", "infer_transitive_relations_outgoing_from_source",
    "infer_transitive_relations_incoming_to_target", "target_outgoing_relations_with_same_descriptor_type",
    "source_incoming_relations_with_same_descriptor_type", "property_descriptor_cls", "transitive", "inverse_of")] + [
    (PD, "PropertyDescriptor.get_fields_of_superproperties"), (PD, "PropertyDescriptor.get_associated_field_of_domain_type"),
    (PD, "PropertyDescriptor.update_value"), (PD, "PropertyDescriptor.add_relation_to_the_graph"),
    (SG, "PredicateClassRelation.add_to_graph")]
ASSUMPTIONS = [
    "SymbolGraph.add_relation returns True exactly when the edge (source, target, field) was not in the graph and then adds it (C14)",
    "get_outgoing/incoming_relations_with_condition yield every edge at that node satisfying the condition, as a snapshot (rustworkx)",
    "ClassDiagram.get_associations_with_condition / get_role_taker_associations_of_cls answer as the class diagram contracts say (C17)",
    "MonitoredContainer._update adds the value iff it is not yet contained (C16)",
    "histories are monotone (containers only grow, a single-valued field receives one value)",
]
TRUSTED = ["Lean 4.33.0 / Mathlib for the abstract composition lemma (lean/Closure.lean); that the step lemmas instantiate its hypotheses "
           "(the recursion of add_to_graph is a depth-first schedule of the lemma's pending set, its loops run over later = larger snapshots) is argued"]
BOUNDED_ONLY_CLAUSES = ["the link between the abstract composition lemma (machine-checked in Lean) and the recursion of add_to_graph is argued; "
                        "closure for every assertion order is additionally measured by the bounded driver on the university dataset",
                        "termination of the recursive firing is argued (a known edge fires nothing)"]

SYNTH = '''
from dataclasses import dataclass
from krrood.ontomatic.property_descriptor.property_descriptor import PropertyDescriptor
from krrood.ontomatic.property_descriptor.mixins import HasInverseProperty, TransitiveProperty


@dataclass
class Top(PropertyDescriptor, HasInverseProperty):
    @classmethod
    def get_inverse(cls):
        return Inv


@dataclass
class Mid(Top):
    pass


@dataclass
class Low(Mid):
    pass


@dataclass
class Inv(PropertyDescriptor, HasInverseProperty):
    @classmethod
    def get_inverse(cls):
        return Top


@dataclass
class Trans(PropertyDescriptor, TransitiveProperty):
    pass


@dataclass
class Plain(PropertyDescriptor):
    pass
'''


def cls(vm, mod, name):
    return vm.loader.cls(mod, name)


class RW:
    """abstract surroundings of one relation object"""

    def __init__(self, vm):
        self.vm = vm
        vm.loader.add_module("pyvc_synth_c15", SYNTH)
        self.D = {n: cls(vm, "pyvc_synth_c15", n) for n in ("Top", "Mid", "Low", "Inv", "Trans", "Plain")}
        self.log = []
        self.wrappers = {}
        self.graph = vm.alloc(vm.ext("object"), {}, tag="symbol-graph")
        self.diagram = vm.alloc(vm.ext("object"), {}, tag="class-diagram")
        self.graph.fields["class_diagram"] = self.diagram
        self.graph.fields["ensure_wrapped_instance"] = Builtin("ensure_wrapped_instance", lambda it, fr, a, k: self.wrapper_of(a[0]))
        vm.spec.stubs["SymbolGraph.__call__"] = lambda it, a, k: self.graph
        self.made = []

        def ctor(it, a, k):
            if not isinstance(a[0], ClassInfo):
                return INLINE
            o = it.alloc(a[0], {"source": a[1], "target": a[2], "wrapped_field": a[3], "inferred": k.get("inferred", a[4] if len(a) > 4 else False)}, tag="made-relation")
            self.made.append(o)
            self.log.append(("make", o))
            return o
        vm.spec.stubs[f"{R}.__call__"] = ctor

    def type_(self, tag):
        return self.vm.alloc(self.vm.ext("object"), {}, tag="type-" + tag)

    def instance(self, tag, typ=None, **fields):
        o = self.vm.alloc(self.vm.ext("object"), dict(fields), tag="instance-" + tag)
        o.fields["__type__"] = typ if typ is not None else self.type_(tag)
        return o

    def wrapper_of(self, inst):
        if isinstance(inst, Obj) and inst.cls is cls(self.vm, SG, "WrappedInstance"):
            return inst
        key = id(inst)
        if key not in self.wrappers:
            w = self.vm.alloc(cls(self.vm, SG, "WrappedInstance"), {"index": SInt(self.vm.ctx.fresh_int("idx"))}, tag="wrapper")
            w.fields["__inst__"] = inst
            self.wrappers[key] = w
        return self.wrappers[key]

    def field(self, dname, tag="f"):
        desc = self.vm.alloc(self.D[dname], {"field_name": tag}, tag=f"descriptor-{dname}")
        wf = self.vm.alloc(self.vm.ext("object"), {"property_descriptor": desc, "public_name": tag, "name": tag}, tag=f"field-{tag}:{dname}")
        desc.fields["wrapped_field"] = wf
        return wf

    def relation(self, dname, inferred=False, src=None, tgt=None):
        vm = self.vm
        s = self.wrapper_of(src if src is not None else self.instance("s"))
        t = self.wrapper_of(tgt if tgt is not None else self.instance("t"))
        r = vm.alloc(cls(vm, PDR, R), {"source": s, "target": t, "wrapped_field": self.field(dname, "f0"), "inferred": inferred}, tag="relation-under-test")
        return r

    def install_instance_hooks(self):
        vm = self.vm
        vm.spec.attr_hooks[("WrappedInstance", "instance")] = lambda it, w: w.fields.get("__inst__")
        vm.spec.attr_hooks[("WrappedInstance", "instance_type")] = lambda it, w: w.fields["__inst__"].fields["__type__"]

    def added(self):
        """(source, target, field, inferred, class) of every relation that was made AND added, in order"""
        out = []
        for e in self.log:
            if e[0] == "add":
                o = e[1]
                out.append((o.fields["source"], o.fields["target"], o.fields["wrapped_field"], o.fields["inferred"], o.cls))
        return out


def log_adds(W):
    """add_to_graph of a MADE relation is recorded, not executed (its own consequences are its own contract)"""
    def add(it, a, k):
        o = a[0]
        if o in W.made:
            W.log.append(("add", o))
            return None
        return INLINE
    W.vm.spec.stubs[f"{R}.add_to_graph"] = add


# ------------------------------------------------------------------------------------------------ add_to_graph
def h_add_to_graph():
    def run(vm):
        ctx = vm.ctx
        W = RW(vm)
        W.install_instance_hooks()
        inferred = ctx.choice(2, "inferred?") == 0
        new = ctx.choice(2, "edge-is-new?") == 0
        r = W.relation("Low", inferred=inferred)
        calls = []
        for m in ("update_source_wrapped_field_value", "infer_super_relations", "infer_inverse_relation", "infer_transitive_relations"):
            vm.spec.stubs[f"{R}.{m}"] = lambda it, a, k, m=m: calls.append(m)
        vm.spec.stubs["PredicateClassRelation.add_to_graph"] = lambda it, a, k: (calls.append("graph.add_relation"), new)[1]
        vm.call_method(r, "add_to_graph")
        if new:
            want = ["graph.add_relation"] + (["update_source_wrapped_field_value"] if inferred else []) + \
                   ["infer_super_relations", "infer_inverse_relation", "infer_transitive_relations"]
            ctx.check(f"{R}.add_to_graph::a-new-edge-writes-back-iff-inferred-and-fires-every-rule-once", z3.BoolVal(calls == want), detail=repr(calls))
        else:
            ctx.check(f"{R}.add_to_graph::a-known-edge-fires-nothing", z3.BoolVal(calls == ["graph.add_relation"]), detail=repr(calls))
        ctx.cover("new" if new else "known")
    return Harness("add-to-graph", run, spec=Spec(), covers=["new", "known"])


def h_base_add():
    """PredicateClassRelation.add_to_graph hands the relation to SymbolGraph.add_relation and returns its answer."""
    def run(vm):
        ctx = vm.ctx
        W = RW(vm)
        ans = ctx.choice(2, "answer") == 0
        got = []
        W.graph.fields["add_relation"] = Builtin("add_relation", lambda it, fr, a, k: (got.append(a[0]), ans)[1])
        r = W.relation("Low")
        base = cls(vm, SG, "PredicateClassRelation").methods["add_to_graph"]
        res = vm.call_func(base, [r], {})
        ctx.check("PredicateClassRelation.add_to_graph::returns-whether-the-graph-took-the-edge", z3.BoolVal(res is ans and got == [r]), detail=f"{res} {got}")
    return Harness("base-add", run, spec=Spec())


# ------------------------------------------------------------------------------------------------ super relations
def h_infer_super():
    def run(vm):
        ctx = vm.ctx
        W = RW(vm)
        W.install_instance_hooks()
        log_adds(W)
        r = W.relation("Low")
        pairs = SymStream("super_relations", lambda it, i: (W.wrapper_of(W.instance("dom")), W.field("Mid", "sf")), length=ctx.fresh_int("n_super"))
        vm.spec.attr_hooks[(R, "super_relations")] = lambda it, o: pairs

        def inv(it, fr):
            if any(n[0] == "early-exit" for n in ctx.notes):
                return z3.BoolVal(False)
            dom, fld = it.loop_value(fr, 0, 0), it.loop_value(fr, 0, 1)
            adds = W.added()
            if not isinstance(dom, Obj) or not isinstance(fld, Obj):
                return z3.BoolVal(not adds and not W.made)
            ok = len(adds) == 1 and len(W.made) == 1 and adds[0][0] is dom and adds[0][1] is r.fields["target"] and adds[0][2] is fld \
                and adds[0][3] is True and adds[0][4] is cls(it, PDR, R)
            return z3.BoolVal(ok)
        vm.spec.loops[(f"{R}.infer_super_relations", 0)] = LoopSpec(inv=inv)
        vm.spec.stream_loops["super_relations"] = vm.spec.loops[(f"{R}.infer_super_relations", 0)]
        vm.call_method(r, "infer_super_relations")
        ctx.check(f"{R}.infer_super_relations::every-super-relation-is-visited", z3.BoolVal(not any(n[0] == "early-exit" for n in ctx.notes)))
        ctx.cover("exit")
    return Harness("infer-super", run, spec=Spec(), covers=["exit"])


def h_super_relations():
    """super_relations = direct ++ role-taker super relations (field lists of length 0..2, role taker present or not)"""
    def run(vm):
        ctx = vm.ctx
        W = RW(vm)
        W.install_instance_hooks()
        nd, nr = ctx.choice(3, "direct-fields"), ctx.choice(3, "role-taker-fields")
        has_rt = ctx.choice(2, "has-role-taker?") == 0
        styp, rtyp = W.type_("S"), W.type_("RT")
        rt_inst = W.instance("role-taker", rtyp)
        src = W.instance("s", styp, taker=rt_inst)
        r = W.relation("Low", src=src)
        direct = [W.field("Mid", f"d{i}") for i in range(nd)]
        rtf = [W.field("Top", f"r{i}") for i in range(nr)]
        # whatever the role taker's own fields hold at that moment (single-valued fields already holding ANOTHER value included):
        # the graph receives every consequence; which value a single-valued field shows afterwards is the write-back's matter
        occupied = ctx.choice(2, "role-taker-fields-already-hold-other-values?") == 1
        ctx.inputs["occupied"] = occupied
        for i, f_ in enumerate(rtf):
            f_.fields.setdefault("is_iterable", False)
            f_.fields.setdefault("is_container", False)
            rt_inst.fields[f_.fields["public_name"]] = W.instance(f"previous-value-{i}") if occupied else None
        asked = []

        def fields_of(it, a, k):
            asked.append(a[1])
            if a[1] is styp:
                return tuple(direct)
            if a[1] is rtyp:
                return tuple(rtf)
            return ()
        vm.spec.stubs["PropertyDescriptor.get_fields_of_superproperties"] = fields_of
        assoc = vm.alloc(vm.ext("object"), {"target": rtyp, "field": vm.alloc(vm.ext("object"), {"public_name": "taker"})}, tag="role-taker-association")
        W.diagram.fields["get_role_taker_associations_of_cls"] = Builtin("rt", lambda it, fr, a, k: assoc if (has_rt and a[0] is styp) else None)
        got = vm.to_list(vm._getattr(r, "super_relations"))
        want = [(r.fields["source"], f) for f in direct] + ([(W.wrapper_of(rt_inst), f) for f in rtf] if has_rt else [])
        ok = len(got) == len(want) and all(isinstance(g, tuple) and g[0] is w[0] and g[1] is w[1] for g, w in zip(got, want))
        ctx.check(f"{R}.super_relations::direct-then-role-taker-super-property-fields", z3.BoolVal(ok), detail=f"{got} vs {want}")
        ctx.check(f"{R}.super_relations::asks-for-the-super-properties-of-the-relations-own-descriptor-class",
                  z3.BoolVal(vm._getattr(r, "property_descriptor_cls") is W.D["Low"]))
        ctx.cover("done")
    return Harness("super-relations", run, spec=Spec(), covers=["done"], max_paths=200)


def assoc_list(vm, W, names):
    out = []
    for i, n in enumerate(names):
        wf = W.field(n, f"a{i}")
        out.append(vm.alloc(vm.ext("object"), {"field": wf}, tag=f"assoc-{n}"))
    return out


def h_fields_of_superproperties():
    """real classmethod on the synthetic descriptor hierarchy Low < Mid < Top, Inv, Trans, Plain"""
    def run(vm):
        ctx = vm.ctx
        W = RW(vm)
        names = ["Top", "Mid", "Low", "Inv", "Trans", "Plain", "Mid"]
        assocs = assoc_list(vm, W, names)
        dom = W.type_("T")

        def with_condition(it, fr, a, k):
            keep = [x for x in assocs if it.truth(it.call(a[1], [x], {}))]
            return GenObj(iter(keep), "associations")
        W.diagram.fields["get_associations_with_condition"] = Builtin("assocs", with_condition)
        strict_supers = {"Low": ["Top", "Mid", "Mid"], "Mid": ["Top"], "Top": [], "Trans": [], "Inv": []}
        for cname, want in strict_supers.items():
            f = W.D[cname].find("get_fields_of_superproperties", vm.loader)[2]
            got = vm.to_list(vm.call_func(f, [W.D[cname], dom], {}))
            got_names = [x.fields["property_descriptor"].cls.name for x in got]
            ctx.check("PropertyDescriptor.get_fields_of_superproperties::fields-of-strict-super-properties-only", z3.BoolVal(got_names == want),
                      detail=f"{cname}: {got_names} vs {want}")
        exact = {"Mid": ["a1"], "Plain": ["a5"], "Low": ["a2"]}
        for cname, want in exact.items():
            f = W.D[cname].find("get_associated_field_of_domain_type", vm.loader)[2]
            got = vm.call_func(f, [W.D[cname], dom], {})
            ctx.check("PropertyDescriptor.get_associated_field_of_domain_type::the-field-whose-descriptor-class-is-exactly-this-one",
                      z3.BoolVal(isinstance(got, Obj) and got.fields.get("name") == want[0]), detail=f"{cname}: {got!r}")
        f = W.D["Trans"].find("get_associated_field_of_domain_type", vm.loader)[2]
        W2 = [x for x in assocs if x.fields["field"].fields["property_descriptor"].cls is not W.D["Trans"]]
        assocs[:] = W2
        got = vm.call_func(f, [W.D["Trans"], dom], {})
        ctx.check("PropertyDescriptor.get_associated_field_of_domain_type::none-when-the-type-has-no-such-field", z3.BoolVal(got is None), detail=repr(got))
        # ... also when the type has fields of SUB- and SUPER-properties of it only (Low < Mid < Top, no Mid field): a fact of a
        # sub-property is not derivable from a fact of the property
        assocs[:] = [x for x in assocs if x.fields["field"].fields["property_descriptor"].cls is not W.D["Mid"]]
        f = W.D["Mid"].find("get_associated_field_of_domain_type", vm.loader)[2]
        got = vm.call_func(f, [W.D["Mid"], dom], {})
        ctx.check("PropertyDescriptor.get_associated_field_of_domain_type::a-field-of-a-sub-or-super-property-does-not-stand-in", z3.BoolVal(got is None), detail=repr(got))
    return Harness("fields-of-superproperties", run, spec=Spec())


# ------------------------------------------------------------------------------------------------ inverse
def h_inverse():
    def run(vm):
        ctx = vm.ctx
        W = RW(vm)
        W.install_instance_hooks()
        log_adds(W)
        case = ctx.choice(4, "case")      # 0 no inverse declared, 1 field on the target, 2 field on the target's role taker, 3 nowhere
        inferred_edge = ctx.choice(2, "the-edge-itself-was-inferred?") == 0
        ttyp, rtyp = W.type_("T"), W.type_("RT")
        rt_inst = W.instance("target-role-taker", rtyp)
        tgt = W.instance("t", ttyp, taker=rt_inst)
        r = W.relation("Plain" if case == 0 else "Mid", tgt=tgt, inferred=inferred_edge)
        inv_field, rt_field = W.field("Inv", "inv_on_target"), W.field("Inv", "inv_on_role_taker")
        asked = []

        def assoc_field(it, a, k):
            asked.append((a[0], a[1]))
            if a[0] is not W.D["Inv"]:
                return None
            if a[1] is ttyp:
                return inv_field if case == 1 else None
            if a[1] is rtyp:
                return rt_field if case == 2 else None
            return None
        vm.spec.stubs["PropertyDescriptor.get_associated_field_of_domain_type"] = assoc_field
        assoc = vm.alloc(vm.ext("object"), {"target": rtyp, "field": vm.alloc(vm.ext("object"), {"public_name": "taker"})}, tag="role-taker-association")
        W.diagram.fields["get_role_taker_associations_of_cls"] = Builtin("rt", lambda it, fr, a, k: assoc if (case in (2, 3) and a[0] is ttyp) else None)
        raised = None
        try:
            vm.call_method(r, "infer_inverse_relation")
        except PyRaise as pr:
            raised = pr
        adds = W.added()
        if case == 0:
            ctx.check(f"{R}.infer_inverse_relation::no-inverse-declared-nothing-inferred", z3.BoolVal(not adds and not W.made and raised is None), detail=repr(adds))
        elif case == 1:
            ok = raised is None and len(adds) == 1 and len(W.made) == 1 and adds[0][0] is r.fields["target"] and adds[0][1] is r.fields["source"] \
                and adds[0][2] is inv_field and adds[0][3] is True
            ctx.check(f"{R}.infer_inverse_relation::inverse-edge-target-to-source-on-the-targets-inverse-field", z3.BoolVal(ok), detail=repr(adds))
        elif case == 2:
            ok = raised is None and len(adds) == 1 and len(W.made) == 1 and adds[0][0] is W.wrapper_of(rt_inst) and adds[0][1] is r.fields["source"] \
                and adds[0][2] is rt_field and adds[0][3] is True
            ctx.check(f"{R}.infer_inverse_relation::inverse-edge-from-the-targets-role-taker-when-the-field-lives-there", z3.BoolVal(ok), detail=repr(adds))
        else:
            ok = raised is not None and vm.is_subclass(raised.exc.cls, vm.ext("ValueError")) is True and not adds
            ctx.check(f"{R}.infer_inverse_relation::a-declared-inverse-without-any-field-is-an-error-not-silence", z3.BoolVal(ok), detail=repr(raised))
        ctx.cover(f"case{case}")
    return Harness("inverse", run, spec=Spec(), covers=["case0", "case1", "case2", "case3"])


# ------------------------------------------------------------------------------------------------ transitive
def h_transitive():
    """the two composition loops (the edge streams are abstract; how the streams are obtained is h_transitive_sources)"""
    def run(vm):
        ctx = vm.ctx
        W = RW(vm)
        W.install_instance_hooks()
        log_adds(W)
        transitive = ctx.choice(2, "transitive?") == 0
        r = W.relation("Trans" if transitive else "Mid")
        asked = []

        def stream_of(direction):
            def hook(it, o):
                asked.append(direction)
                node = o.fields["target"] if direction == "out" else o.fields["source"]

                def elem(it2, i):
                    other = W.wrapper_of(W.instance("other"))
                    fld = W.field("Trans", "tf")
                    return it2.alloc(cls(it2, PDR, R), {"source": node if direction == "out" else other, "target": other if direction == "out" else node,
                                                        "wrapped_field": fld, "inferred": False}, tag=f"{direction}-edge")
                return SymStream(f"{direction}-edges", elem, length=it.ctx.fresh_int(f"n_{direction}"))
            return hook
        vm.spec.attr_hooks[(R, "target_outgoing_relations_with_same_descriptor_type")] = stream_of("out")
        vm.spec.attr_hooks[(R, "source_incoming_relations_with_same_descriptor_type")] = stream_of("in")

        def inv_for(direction):
            def inv(it, fr):
                if any(n[0] == "early-exit" for n in ctx.notes):
                    return z3.BoolVal(False)
                nxt = it.loop_value(fr, 0)
                adds = W.added()
                if not isinstance(nxt, Obj) or nxt.tag != f"{direction}-edge":
                    return z3.BoolVal(not adds)
                if len(adds) != 1 or len(W.made) != 1:
                    return z3.BoolVal(False)
                s, t, fld, inferred, c = adds[0]
                if direction == "out":
                    ok = s is r.fields["source"] and t is nxt.fields["target"]
                else:
                    ok = s is nxt.fields["source"] and t is r.fields["target"]
                return z3.BoolVal(ok and fld is nxt.fields["wrapped_field"] and inferred is True and c is cls(it, PDR, R))
            return inv
        vm.spec.loops[(f"{R}.infer_transitive_relations_outgoing_from_source", 0)] = LoopSpec(inv=inv_for("out"))
        vm.spec.loops[(f"{R}.infer_transitive_relations_incoming_to_target", 0)] = LoopSpec(inv=inv_for("in"))
        vm.spec.stream_loops["out-edges"] = vm.spec.loops[(f"{R}.infer_transitive_relations_outgoing_from_source", 0)]
        vm.spec.stream_loops["in-edges"] = vm.spec.loops[(f"{R}.infer_transitive_relations_incoming_to_target", 0)]
        which = ctx.choice(3, "entry")
        if which == 0:
            vm.call_method(r, "infer_transitive_relations")
            if not transitive:
                ctx.check(f"{R}.infer_transitive_relations::a-non-transitive-property-composes-nothing", z3.BoolVal(not W.made and not asked), detail=repr(W.made))
                ctx.cover("not-transitive")
            else:
                ctx.check(f"{R}.infer_transitive_relations::both-directions-are-composed", z3.BoolVal(asked == ["out", "in"]), detail=repr(asked))
                ctx.cover("transitive-exit")
        elif which == 1:
            vm.call_method(r, "infer_transitive_relations_outgoing_from_source")
            ctx.cover("out-exit")
        else:
            vm.call_method(r, "infer_transitive_relations_incoming_to_target")
            ctx.cover("in-exit")
        ctx.check(f"{R}.infer_transitive_relations::every-edge-is-visited", z3.BoolVal(not any(n[0] == "early-exit" for n in ctx.notes)))
    return Harness("transitive", run, spec=Spec(), covers=["not-transitive", "transitive-exit", "out-exit", "in-exit"])


def h_transitive_sources():
    """the edge streams: edges of the SAME descriptor class leaving the target / entering the source, as the graph lists them"""
    def run(vm):
        ctx = vm.ctx
        W = RW(vm)
        W.install_instance_hooks()
        r = W.relation("Trans")
        e1, e2 = vm.alloc(vm.ext("object"), tag="e1"), vm.alloc(vm.ext("object"), tag="e2")
        calls = {}
        W.graph.fields["get_outgoing_relations_with_condition"] = Builtin("out", lambda it, fr, a, k: (calls.__setitem__("out", (a[0], a[1])), PyList([e1, e2]))[1])
        W.graph.fields["get_incoming_relations_with_condition"] = Builtin("in", lambda it, fr, a, k: (calls.__setitem__("in", (a[0], a[1])), PyList([e2]))[1])
        out = vm.to_list(vm._getattr(r, "target_outgoing_relations_with_same_descriptor_type"))
        inc = vm.to_list(vm._getattr(r, "source_incoming_relations_with_same_descriptor_type"))
        ctx.check(f"{R}.target_outgoing_relations_with_same_descriptor_type::all-matching-edges-leaving-the-target",
                  z3.BoolVal(out == [e1, e2] and calls["out"][0] is r.fields["target"]), detail=repr(out))
        ctx.check(f"{R}.source_incoming_relations_with_same_descriptor_type::all-matching-edges-entering-the-source",
                  z3.BoolVal(inc == [e2] and calls["in"][0] is r.fields["source"]), detail=repr(inc))
        # every edge of the same descriptor class takes part -- asserted or inferred (the closure is over derived facts too: an
        # inferred edge may have been derived by ANOTHER rule, e.g. from a sub-property, and is then nobody's composition) -- and
        # no edge of another class
        sel = len(calls) == 2
        for inferred in (False, True):
            same = vm.alloc(cls(vm, PDR, R), {"wrapped_field": W.field("Trans", "x"), "inferred": inferred, "source": r.fields["target"], "target": r.fields["source"]}, tag="same-class-edge")
            other = vm.alloc(cls(vm, PDR, R), {"wrapped_field": W.field("Mid", "y"), "inferred": inferred, "source": r.fields["target"], "target": r.fields["source"]}, tag="other-class-edge")
            sel = sel and all(vm.truth(vm.call(c[1], [same], {})) is True and vm.truth(vm.call(c[1], [other], {})) is False for c in calls.values())
        ctx.check(f"{R}.infer_transitive_relations::exactly-the-edges-of-the-same-descriptor-class-are-combined-asserted-or-inferred", z3.BoolVal(sel))
        # an edge whose FAR end has died (registered, not swept yet) is nothing to compose with: the new relation's consequences are
        # those among live instances, whatever died before (C14)
        def wrapper(alive, tag):
            w = vm.alloc(cls(vm, SG, "WrappedInstance"), {}, tag=tag)
            w.fields["__inst__"] = W.instance(tag) if alive else None
            return w
        dead_ok = True
        for direction, c in calls.items():
            far_dead = wrapper(False, "dead-far-end")
            near = r.fields["target"] if direction == "out" else r.fields["source"]
            e_dead = vm.alloc(cls(vm, PDR, R), {"wrapped_field": W.field("Trans", "x"), "inferred": False,
                                               "source": near if direction == "out" else far_dead, "target": far_dead if direction == "out" else near}, tag="edge-to-a-dead-instance")
            dead_ok = dead_ok and vm.truth(vm.call(c[1], [e_dead], {})) is False
        ctx.check(f"{R}.infer_transitive_relations::edges-of-instances-that-died-and-are-not-swept-yet-are-not-composed", z3.BoolVal(dead_ok and len(calls) == 2))
    return Harness("transitive-sources", run, spec=Spec())


# ------------------------------------------------------------------------------------------------ field write-back
def h_write_back():
    def run(vm):
        ctx = vm.ctx
        W = RW(vm)
        W.install_instance_hooks()
        r = W.relation("Mid", inferred=True)
        calls = []
        desc = r.fields["wrapped_field"].fields["property_descriptor"]
        vm.spec.stubs["PropertyDescriptor.update_value"] = lambda it, a, k: calls.append((a[0], a[1], a[2])) or True
        vm.call_method(r, "update_source_wrapped_field_value")
        src_i, tgt_i = r.fields["source"].fields["__inst__"], r.fields["target"].fields["__inst__"]
        ctx.check(f"{R}.update_source_wrapped_field_value::the-target-instance-is-written-into-the-source-instances-field",
                  z3.BoolVal(calls == [(desc, src_i, tgt_i)]), detail=repr(calls))
        del vm.spec.stubs["PropertyDescriptor.update_value"]
        # update_value on a single-valued and on a container field
        kind = ctx.choice(3, "field-kind")
        desc.fields["private_attr_name"] = "_f0"
        if kind == 0:
            src_i.fields["_f0"] = None
            res = vm.call_method(desc, "update_value", src_i, tgt_i)
            ctx.check("PropertyDescriptor.update_value::single-valued-field-receives-the-value", z3.BoolVal(res is True and src_i.fields["_f0"] is tgt_i))
        elif kind == 1:
            src_i.fields["_f0"] = tgt_i
            res = vm.call_method(desc, "update_value", src_i, tgt_i)
            ctx.check("PropertyDescriptor.update_value::an-already-present-value-is-not-an-update", z3.BoolVal(res is False and src_i.fields["_f0"] is tgt_i))
        else:
            cont = vm.alloc(cls(vm, MC, "MonitoredList"), {}, tag="container")
            upd = []
            vm.spec.stubs["MonitoredContainer._update"] = lambda it, a, k: upd.append((a[0], a[1], k.get("add_relation_to_the_graph"))) or True
            src_i.fields["_f0"] = cont
            res = vm.call_method(desc, "update_value", src_i, tgt_i)
            ctx.check("PropertyDescriptor.update_value::a-container-field-is-updated-without-re-adding-the-relation",
                      z3.BoolVal(res is True and upd == [(cont, tgt_i, False)]), detail=repr(upd))
        ctx.cover(f"kind{kind}")
    return Harness("write-back", run, spec=Spec(), covers=["kind0", "kind1", "kind2"])


def h_flags():
    def run(vm):
        ctx = vm.ctx
        W = RW(vm)
        table = {"Top": (False, "Inv"), "Mid": (False, "Inv"), "Low": (False, "Inv"), "Inv": (False, "Top"), "Trans": (True, None), "Plain": (False, None)}
        for n, (tr, inv) in table.items():
            r = W.relation(n)
            ctx.check(f"{R}.transitive::iff-the-descriptor-class-is-a-transitive-property", z3.BoolVal(vm._getattr(r, "transitive") is tr), detail=n)
            got = vm._getattr(r, "inverse_of")
            ctx.check(f"{R}.inverse_of::the-declared-inverse-of-the-descriptor-class", z3.BoolVal(got is (W.D[inv] if inv else None)), detail=f"{n}: {got!r}")
    return Harness("flags", run, spec=Spec())


def h_composition_lemma():
    """The composition of the step lemmas into 'the final edge set is exactly the closure' is the abstract lemma
    lean/Closure.lean (Lean 4 + Mathlib, no sorry): invariant 'every rule instance over the graph has its conclusion in the
    graph or pending', preserved by inserting any pending fact with (a superset of) its consequences made pending; nothing
    pending => closed; everything inserted is derivable => the graph is exactly the derivable set.  The step lemmas above are
    what instantiates its hypotheses (hu / hb: the rules fired on insertion; hnew: only rule instances are fired)."""
    def run(vm):
        import os
        import subprocess
        import shutil
        here = os.path.dirname(os.path.dirname(os.path.abspath(__file__)))
        path = os.path.join(here, "lean", "Closure.lean")
        src = open(path).read()
        lean = shutil.which("lean")
        ok, why = False, "lean not found"
        if lean:
            p = subprocess.run([lean, path], capture_output=True, text=True, timeout=900)
            out = (p.stdout + p.stderr).strip()
            ok = p.returncode == 0 and "error" not in out.lower() and "sorry" not in out.lower()
            why = out[-400:]
        vm.ctx.check("composition::closure-lemma-is-machine-checked-by-lean", z3.BoolVal(ok), detail=why)
        vm.ctx.check("composition::the-lemma-has-no-sorry-or-axiom", z3.BoolVal("sorry" not in src and "axiom " not in src and "admit" not in src))
        for name in ("theorem step_new", "theorem step_known", "theorem closed_of_inv_empty", "theorem inv_init", "theorem sound_step", "theorem exact_closure"):
            vm.ctx.check("composition::the-lemma-states-" + name.split()[1], z3.BoolVal(name in src))
    return Harness("composition-lemma", run, spec=Spec())


def h_canary():
    def run(vm):
        W = RW(vm)
        r = W.relation("Trans")
        # deliberately false: claims a TransitiveProperty descriptor is not transitive
        vm.ctx.check("CANARY", z3.BoolVal(vm._getattr(r, "transitive") is False))
    return Harness("canary", run, expect_fail=True)


def harnesses():
    return [h_add_to_graph(), h_base_add(), h_infer_super(), h_super_relations(), h_fields_of_superproperties(), h_inverse(), h_transitive(), h_transitive_sources(),
            h_write_back(), h_flags(), h_composition_lemma()] + _assertions_reach_the_rules() + [h_canary()]


def _assertions_reach_the_rules():
    """the closure is over what the user asserted: every value written into a managed field -- by assignment (also the one the
    dataclass constructor makes), append / add, extend / update -- is handed to add_relation_to_the_graph exactly once (C16's
    contracts on the same real PropertyDescriptor.__set__ / monitored containers)"""
    from . import C16
    keep = ("list-ops-from-empty", "set-ops-from-empty", "list-assign-any-length", "set-assign-any-length", "single-valued")
    return [h for h in C16.harnesses() if h.name in keep]
