"""Shared sidecar helpers: opaque user data with an effect log, synthetic user functions."""
from __future__ import annotations
import z3

from pyvc.values import Opaque, Builtin, SBool, SInt, SymStream, Obj
from pyvc.interp import PyRaise


class UserVal(Opaque):
    """A value supplied by the user (domain element, literal, attribute value).  Any operation that can dispatch into
    user code is logged as an effect ('user', op, name-of-value) and answered by a fresh unconstrained value."""

    def __init__(self, name, iterable=False, cls=None):
        super().__init__("user:" + name)
        self.name = name
        self.iterable = iterable
        self.cls = cls

    def __repr__(self):
        return f"<user {self.name}>"


def install_user_hooks(vm, allow=(), fork_truth=True):
    """Hooks for UserVal; `allow` = operations that are not logged (e.g. 'isinstance', 'type', 'id')."""
    ctx = vm.ctx
    h = vm.spec.opaque_hooks

    def log(op, v, extra=None):
        if isinstance(v, UserVal):
            ctx.effect("user", (op, v.name, extra))

    def truth(it, v):
        log("truth", v)
        if not fork_truth:
            return True        # the effect is what the obligation is about; no path split
        return SBool(ctx.fresh_bool(f"truth_{getattr(v, 'name', 'x')}"))

    def getattr_(it, v, name):
        if isinstance(v, UserVal):
            log("getattr", v, name)
            return UserVal(f"{v.name}.{name}")
        it.raise_("AttributeError", name)

    def call(it, v, args, kwargs):
        if not isinstance(v, (UserVal, UserFn)):
            # a third-party callable the engine has no contract for is NOT user data: undecided, not an effect
            from pyvc.ctx import Unsupported
            raise Unsupported(f"call of {v!r} (no contract for this external)")
        log("call", v)
        return UserVal(f"{getattr(v, 'name', 'x')}()")

    def isinstance_(it, v, c):
        if isinstance(v, UserVal) and v.cls is not None:
            return it.is_subclass(v.cls, c) if not isinstance(c, tuple) else any(it.is_subclass(v.cls, x) for x in c)
        return False

    def hasattr_(it, v, name):
        if name == "__iter__":
            return bool(getattr(v, "iterable", False))
        if name == "_id_":
            return False
        log("hasattr", v, name)
        return False

    def eq(it, a, b):
        if a is b:
            return True
        log("eq", a if isinstance(a, UserVal) else b)
        return SBool(ctx.fresh_bool("usereq"))

    def order(it, dunder, a, b):
        log(dunder, a if isinstance(a, UserVal) else b)
        return SBool(ctx.fresh_bool("userord"))

    def iter_value(it, v):
        log("iter", v)
        n = ctx.fresh_int(f"len_{getattr(v, 'name', 'x')}")
        return SymStream(f"iter_{getattr(v, 'name', 'x')}", lambda it2, i: UserVal(f"{v.name}[i]"), length=n)

    def len_(it, v):
        log("len", v)
        return SInt(ctx.fresh_int("userlen"))

    def contains(it, c, item):
        log("contains", c if isinstance(c, UserVal) else item)
        return SBool(ctx.fresh_bool("userin"))

    def to_list(it, v):
        log("iter", v)
        return [UserVal(f"{getattr(v, 'name', 'x')}[0]")]

    def format_(it, v):
        if isinstance(v, UserVal):
            log("format", v)          # f"{v}" / repr(v) run the user's __format__ / __str__ / __repr__

    def str_(it, v):
        format_(it, v)
        return "user"

    def type_(it, v):
        return v.cls if getattr(v, "cls", None) is not None else it.ext("UserType")

    h.update({"truth": truth, "getattr": getattr_, "call": call, "isinstance": isinstance_, "hasattr": hasattr_, "eq": eq,
              "order": order, "iter_value": iter_value, "to_list": to_list, "len": len_, "contains": contains, "type": type_,
              "str": str_, "format": format_})


def user_effects(ctx):
    return [e for e in ctx.effects if e[0] == "user"]


class UserFn(Opaque):
    """A user function with a known parameter list; calling it is logged."""

    def __init__(self, name, params):
        super().__init__("userfn:" + name)
        self.name = name
        self.params = list(params)
        self.calls = []


class AnySeq(Opaque):
    """a local container after a loop havoc: membership / content unknown, writes absorbed; iterating it gives an abstract
    stream of (at least possibly one) arbitrary members -- what a collect-then-yield rewrite of an operator would iterate"""

    def __init__(self, name, member):
        super().__init__("anyseq:" + name)
        self.name, self.member = name, member

    def m_getattr(self, vm, name):
        if name in ("append", "add", "extend", "update", "clear", "remove", "discard", "insert", "setdefault", "pop"):
            return Builtin("anyseq." + name, lambda it, fr, a, k: None)
        if name in ("values", "items", "keys", "copy"):
            return Builtin("anyseq." + name, lambda it, fr, a, k: self)
        if name == "get":
            def get(it, fr, a, k):
                # a mapping of unknown content: the key may be absent (the default) or map to an arbitrary member
                it.ctx.notes.append(("overapprox", self.name))
                if it.ctx.choice(2, "held-has-key") == 0:
                    return a[1] if len(a) > 1 else None
                return self.member(it)
            return Builtin("anyseq.get", get)
        vm.raise_("AttributeError", name)

    def m_iter(self, vm):
        vm.ctx.notes.append(("overapprox", self.name))
        return SymStream(f"held-back-{self.name}", lambda it, i: self.member(it), length=vm.ctx.fresh_int("n_held"))

    def m_contains(self, vm, k):
        vm.ctx.notes.append(("overapprox", self.name))
        return SBool(vm.ctx.fresh_bool("in_held"))

    def m_truth(self, vm):
        return SBool(vm.ctx.fresh_bool("held_nonempty"))

    def m_setitem(self, vm, k, v):
        return None

    def m_getitem(self, vm, k):
        vm.ctx.notes.append(("overapprox", self.name))
        return self.member(vm)


def arbitrary_class_state(vm, cls_, member):
    """Replace every class-level container of `cls_` and its bases that the source initialises EMPTY ({} / [] / set() / dict() ...)
    -- i.e. state shared by all instances and filled at run time -- by a container of unknown content."""
    import ast as _ast
    from pyvc.values import PyDict, PyList, PySet
    from pyvc.repo import ClassInfo
    done = []
    for c in cls_.mro(vm.loader):
        if not isinstance(c, ClassInfo):
            continue
        for name, expr in list(c.class_attrs.items()):
            empty = (isinstance(expr, (_ast.Dict, _ast.List, _ast.Set)) and not (getattr(expr, "keys", None) or getattr(expr, "elts", None))) or \
                    (isinstance(expr, _ast.Call) and not expr.args and not expr.keywords and _ast.unparse(expr.func).split(".")[-1] in
                     ("dict", "list", "set", "defaultdict", "OrderedDict", "WeakValueDictionary", "WeakKeyDictionary"))
            if empty:
                c.class_attr_vals[name] = AnySeq(f"{c.name}.{name}", member)
                done.append(f"{c.name}.{name}")
    return done
