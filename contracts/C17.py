"""C17 — class diagrams mirror the Python classes; derived views leave them intact.

Three groups of obligations, all generated from the real bodies in class_diagrams/*.py:

A. Classification (WrappedField.*): the resolved annotation is a value of the annotation grammar
       T ::= b | E | C | Optional[b|E|C] | List/Set/Sequence[b|C] | Type[C]
   with the assumed typing contracts for get_type_hints / get_origin / get_args.  The grammar is finite up to the identity
   of the leaf class, and no predicate looks further than two levels into the annotation, so executing every real predicate on
   every (shape, leaf kind) with opaque leaf classes is a complete case analysis, not a sample.  Forward references: the
   NameError path of resolved_type is executed with get_type_hints raising NameError for 1..2 names.

B. Construction (ClassDiagram.__post_init__ / add_node / _create_inheritance_relations / _create_association_relations /
   add_relation, WrappedClass.fields, DataclassOnlyIntrospector.discover): step lemmas under the loop rule.  The graph and the
   class map are ABSTRACT (any content); for an arbitrary element of each loop the writes the body performs (ghost log of
   add_node / add_edge / map writes / attribute writes) must be exactly the ones the statement prescribes - and none when it
   prescribes none.  Since no body reads the edges added so far, the loop's total effect is the concatenation of the
   per-element effects (each element visited once: Python `for` + the assumed rustworkx nodes() contract).

C. Frame of the read-only operations: every derived view / query of ClassDiagram is executed on an abstract diagram; the
   obligation is that no write reaches the diagram, its graph, its class map or any object they hold (writes to objects
   allocated by the call itself - the derived diagram and its own graph copy - are allowed).
"""
from __future__ import annotations
import ast
import z3

from pyvc.framework import Harness
from pyvc.interp import Spec, PyRaise, Frame, INLINE, LoopSpec
from pyvc.values import Obj, PyList, PySet, PyDict, Builtin, Opaque, SymStream, SInt, SBool, SStr, ExtClass
from pyvc.ops import key_of, make_dict
from pyvc.repo import ClassInfo

PROPERTY = "C17"
CD = "krrood.class_diagrams.class_diagram"
WF = "krrood.class_diagrams.wrapped_field"
AI = "krrood.class_diagrams.attribute_introspector"
UT = "krrood.class_diagrams.utils"
FUNCTIONS = [(WF, "WrappedField.resolved_type"), (WF, "WrappedField.is_builtin_type"), (WF, "WrappedField.is_container"),
             (WF, "WrappedField.container_type"), (WF, "WrappedField.is_collection_of_builtins"), (WF, "WrappedField.is_optional"),
             (WF, "WrappedField.contained_type"), (WF, "WrappedField.is_type_type"), (WF, "WrappedField.is_enum"),
             (WF, "WrappedField.is_one_to_one_relationship"), (WF, "WrappedField.is_one_to_many_relationship"),
             (WF, "WrappedField.type_endpoint"), (WF, "WrappedField.is_role_taker"), (WF, "WrappedField.__post_init__"),
             (UT, "behaves_like_a_built_in_class"), (UT, "is_builtin_class"),
             (CD, "ClassDiagram.__post_init__"), (CD, "ClassDiagram.add_node"), (CD, "ClassDiagram.get_wrapped_class"),
             (CD, "ClassDiagram.add_relation"), (CD, "ClassDiagram._create_all_relations"),
             (CD, "ClassDiagram._create_inheritance_relations"), (CD, "ClassDiagram._create_association_relations"),
             (CD, "ClassDiagram.wrapped_classes"), (CD, "WrappedClass.fields"), (AI, "DataclassOnlyIntrospector.discover"),
             (AI, "DiscoveredAttribute.__post_init__"),
             (CD, "ClassDiagram.to_subdiagram_without_inherited_associations"), (CD, "ClassDiagram.remove_edges"),
             (CD, "ClassDiagram.get_assoc_keys_by_source"), (CD, "ClassDiagram.all_ancestors"), (CD, "ClassDiagram.parent_map"),
             (CD, "ClassDiagram.associations"), (CD, "ClassDiagram.inheritance_relations"), (CD, "ClassDiagram.get_out_edges"),
             (CD, "ClassDiagram.get_outgoing_relations"), (CD, "ClassDiagram.get_associations_with_condition"),
             (CD, "ClassDiagram.get_role_taker_associations_of_cls"), (CD, "ClassDiagram.get_common_role_taker_associations"),
             (CD, "ClassDiagram.get_neighbors_with_relation_type"), (CD, "ClassDiagram.get_outgoing_neighbors_with_relation_type"),
             (CD, "ClassDiagram.get_incoming_neighbors_with_relation_type"), (CD, "ClassDiagram._build_rxnode_tree"),
             (CD, "ClassDiagram.visualize"), (CD, "Association.get_key"), (CD, "Association.one_to_many")]
ASSUMPTIONS = [
    "typing contracts: get_type_hints(cls)[name] is the evaluated annotation; get_origin/get_args of Optional[X] are (Union, (X, NoneType)), "
    "of List/Set/Sequence/Type[X] are (list/set/collections.abc.Sequence/type, (X,)), of a plain class (None, ()) "
    "(validated natively by the bounded driver on every run)",
    "rustworkx.PyDiGraph: add_node/add_edge/remove_edge/clear are its only mutators used here; nodes()/edges()/edge_list()/"
    "out_edges()/in_edges()/adj()/find_*_by_edge()/get_edge_data()/get_node_data() do not modify the graph; copy() returns a new "
    "graph sharing the payload objects; nodes() lists every node once",
    "copy.copy(obj) creates a new object with the same attribute values (shallow)",
    "dataclasses.fields(cls) lists the dataclass fields of cls (inherited ones included) once each, in definition order",
    "functools.lru_cache / cached_property caches are not observable diagram state",
    "RWXNode (rustworkx_utils) objects only reference the wrapped classes they are given and add themselves to the graph passed as `graph=` (their own otherwise); the installed rustworkx_utils is "
    "incompatible with the call the code makes (missing 'graph' argument), so rendering cannot be run natively in this sandbox",
    "the classes handed to ClassDiagram are pairwise distinct (the property speaks of a set of classes)",
]
TRUSTED = ["assumed contracts of typing_extensions, dataclasses.fields, copy.copy and rustworkx listed under assumptions"]
BOUNDED_ONLY_CLAUSES = ["DataclassOnlyIntrospector.discover / WrappedClass.fields are executed for field lists of length <= 3 with "
                        "each name private or public (the comprehension is not under a loop rule)",
                        "that the association / inheritance edges are 'exactly' the prescribed ones composes the per-element step "
                        "lemmas with Python's for-loop semantics (each element once); the composition itself is argued, and "
                        "measured by the bounded driver on generated models"]

SYNTH = '''
import enum
from dataclasses import dataclass


class Colour(enum.Enum):
    RED = 1


class Level(enum.IntEnum):
    """an enum that mixes a builtin in is still an enum, not a builtin"""
    LOW = 1


class Shade(str, enum.Enum):
    DARK = "dark"


@dataclass
class Mapped:
    pass


@dataclass
class Other:
    pass
'''


def cls(vm, mod, name):
    return vm.loader.cls(mod, name)


# ------------------------------------------------------------------------------------------------ typing model
class Alias(Opaque):
    """a subscripted typing construct: origin[args]"""

    def __init__(self, origin, args, text):
        super().__init__("typing-alias:" + text)
        self.origin, self.args, self.text = origin, tuple(args), text

    def m_eq(self, vm, other):
        return other is self

    def m_truth(self, vm):
        return True


def typing_env(vm, hints, name_errors=()):
    """Install the assumed typing contracts. `hints`: field name -> annotation value.
    name_errors: names get_type_hints cannot resolve unless they are in localns (NameError(name=...))."""
    L = vm.loader
    ext = {}

    def ext_of(mod, attr):
        v = L.external(mod, attr)
        ext[(mod, attr)] = v
        return v
    calls = []

    def get_type_hints(it, fr, a, k):
        calls.append((a, k))
        localns = k.get("localns")
        for n in name_errors:
            have = False
            if localns is not None:
                have = key_of(n) in getattr(localns, "keys", {})
            if not have:
                exc = it.make_exc("NameError", f"name '{n}' is not defined")
                exc.fields["name"] = n
                raise PyRaise(exc)
        return make_dict(list(hints.items()))

    def get_origin(it, fr, a, k):
        t = a[0]
        return t.origin if isinstance(t, Alias) else None

    def get_args(it, fr, a, k):
        t = a[0]
        return tuple(t.args) if isinstance(t, Alias) else ()
    for mod in ("typing_extensions", "typing"):
        L.externals[(mod, "get_type_hints")] = Builtin("get_type_hints", get_type_hints)
        L.externals[(mod, "get_origin")] = Builtin("get_origin", get_origin)
        L.externals[(mod, "get_args")] = Builtin("get_args", get_args)
    return calls


def world(vm):
    """the leaf classes and typing constants as the real modules see them"""
    vm.loader.add_module("pyvc_synth_c17", SYNTH)
    import datetime as _dt
    vm.loader.externals[("datetime", "datetime")] = vm.loader.ext_class("datetime", _dt.datetime)
    import enum as _enum
    from pyvc.values import ExtClass
    EnumC = vm.loader.ext_class("enum.Enum")
    vm.loader.externals[("enum", "Enum")] = EnumC
    # IntEnum is an Enum AND an int (sidecar-declared external hierarchy)
    IntEnumC = ExtClass("enum.IntEnum", bases=(vm.ext("int"), EnumC))
    vm.loader.externals[("enum", "IntEnum")] = IntEnumC
    vm.loader.ext_classes["enum.IntEnum"] = IntEnumC          # class statements resolve dotted bases through this registry
    wfm = vm.loader.module(WF)
    fr = Frame(vm, wfm)
    W = {}
    for n in ("int", "float", "str", "bool", "datetime", "NoneType", "list", "set", "tuple", "type", "Sequence", "Union", "Optional", "Type", "MISSING"):
        W[n] = vm.norm_cls(vm.lookup(n, fr))
    W["Colour"] = cls(vm, "pyvc_synth_c17", "Colour")
    W["Level"] = cls(vm, "pyvc_synth_c17", "Level")
    W["Shade"] = cls(vm, "pyvc_synth_c17", "Shade")
    W["Mapped"] = cls(vm, "pyvc_synth_c17", "Mapped")
    W["Other"] = cls(vm, "pyvc_synth_c17", "Other")
    return W


LEAVES = {"int": "b", "float": "b", "str": "b", "bool": "b", "datetime": "b", "Colour": "e", "Level": "e", "Shade": "e", "Mapped": "c"}


def annotations(W):
    """every annotation of the grammar (leaf classes opaque): (text, value, expected classification)"""
    out = []
    base = dict(builtin=False, optional=False, enum=False, container=False, one_to_one=False, one_to_many=False, type_type=False,
                container_type=None)
    for leaf, kind in LEAVES.items():
        L = W[leaf]
        plain = dict(base, endpoint=L, builtin=kind == "b", enum=kind == "e", one_to_one=kind != "b")
        out.append((leaf, L, plain))
        opt = Alias(W["Union"], (L, W["NoneType"]), f"Optional[{leaf}]")
        out.append((opt.text, opt, dict(plain, optional=True)))
        if kind == "e":
            continue
        for cname in ("list", "set", "Sequence"):
            al = Alias(W[cname], (L,), f"{cname}[{leaf}]")
            out.append((al.text, al, dict(base, container=True, container_type=W[cname], endpoint=L, builtin=kind == "b",
                                          one_to_many=kind != "b")))
    ty = Alias(W["type"], (W["Mapped"],), "Type[Mapped]")
    out.append((ty.text, ty, dict(base, container=True, container_type=W["type"], type_type=True, endpoint=W["Mapped"], one_to_many=None)))
    return out


def make_field(vm, W, name="f", default=None, default_factory=None, diagram=None, owner=None):
    fld = vm.alloc(vm.ext("object"), {"name": name, "default": W["MISSING"] if default is None else default,
                                     "default_factory": W["MISSING"] if default_factory is None else default_factory}, tag="dataclass-field")
    wc = vm.alloc(cls(vm, CD, "WrappedClass"), {"clazz": owner if owner is not None else W["Other"], "index": 0, "_class_diagram": diagram,
                                                "_wrapped_field_name_map_": make_dict([])}, tag="wrapped-owner")
    wf = vm.call(cls(vm, WF, "WrappedField"), [wc, fld], {})
    return wf


PREDICATES = [("is_builtin_type", "builtin"), ("is_optional", "optional"), ("is_enum", "enum"), ("is_container", "container"),
              ("is_one_to_one_relationship", "one_to_one"), ("is_one_to_many_relationship", "one_to_many"), ("is_type_type", "type_type")]


def h_classification():
    def run(vm):
        ctx = vm.ctx
        W = world(vm)
        n = 0
        for text, ann, exp in annotations(W):
            typing_env(vm, {"f": ann})
            wf = make_field(vm, W)
            for attr, key in PREDICATES:
                if exp[key] is None:
                    continue
                try:
                    v = vm._getattr(wf, attr)
                    ok, why = (v is exp[key]), f"{text}: {attr} is {v!r}, the annotation says {exp[key]}"
                except PyRaise as pr:
                    ok, why = False, f"{text}: {attr} raised {pr.exc!r}"
                ctx.check(f"WrappedField.{attr}::agrees-with-the-annotation", z3.BoolVal(ok), detail=why)
                n += 1
            try:
                ep = vm._getattr(wf, "type_endpoint")
                ok, why = ep is exp["endpoint"], f"{text}: type_endpoint is {ep!r}, expected {exp['endpoint']!r}"
            except PyRaise as pr:
                ok, why = False, f"{text}: type_endpoint raised {pr.exc!r}"
            ctx.check("WrappedField.type_endpoint::is-the-class-behind-optional-and-container-wrappers", z3.BoolVal(ok), detail=why)
            try:
                ct = vm._getattr(wf, "container_type")
                ok, why = ct is exp["container_type"], f"{text}: container_type is {ct!r}, expected {exp['container_type']!r}"
            except PyRaise as pr:
                ok, why = False, f"{text}: container_type raised {pr.exc!r}"
            ctx.check("WrappedField.container_type::is-the-origin-of-a-container-annotation", z3.BoolVal(ok), detail=why)
        ctx.cover("classification-cases")
    return Harness("classification", run, spec=Spec(), covers=["classification-cases"])


def h_forward_references():
    """resolved_type when get_type_hints cannot resolve 1..2 names: names of diagram classes resolve to the diagram's classes,
    other names through the module search; the hint of the field comes back."""
    def run(vm):
        ctx = vm.ctx
        W = world(vm)
        Elsewhere = cls(vm, "pyvc_synth_c17", "Colour")
        for label, missing in (("one-diagram-class", ["Mapped"]), ("diagram-class-then-outside-class", ["Mapped", "Elsewhere"]),
                               ("outside-class-then-diagram-class", ["Elsewhere", "Mapped"]), ("two-outside-classes", ["Elsewhere", "Elsewhere2"]),
                               ("none", [])):
            ann = Alias(W["Union"], (W["Mapped"], W["NoneType"]), "Optional[Mapped]")
            calls = typing_env(vm, {"f": ann, "g": W["int"]}, name_errors=missing)
            searched = []

            def search(it, a, k, searched=searched):
                searched.append(a[0])
                return Elsewhere
            vm.spec.stubs[f"{WF}:manually_search_for_class_name"] = search
            diagram = vm.alloc(cls(vm, CD, "ClassDiagram"), {}, tag="diagram")
            nodes = [vm.alloc(cls(vm, CD, "WrappedClass"), {"clazz": W[n], "index": i, "_class_diagram": diagram}, tag=f"node-{n}")
                     for i, n in enumerate(("Other", "Mapped"))]
            vm.spec.attr_hooks[("ClassDiagram", "wrapped_classes")] = lambda it, o, nodes=nodes: PyList(list(nodes))
            wf = make_field(vm, W, diagram=diagram)
            try:
                r = vm._getattr(wf, "resolved_type")
                ok, why = r is ann, f"{label}: resolved_type is {r!r}"
            except PyRaise as pr:
                ok, why = False, f"{label}: resolved_type raised {pr.exc!r} {pr.exc.fields.get('args')}"
            ctx.check("WrappedField.resolved_type::forward-references-resolve-to-the-declared-annotation", z3.BoolVal(ok), detail=why)
            if missing and ok:
                ns = calls[-1][1].get("localns")
                good = isinstance(ns, PyDict) and all(ns.vals.get(key_of(n)) is W[n] for n in ("Other", "Mapped"))
                ctx.check("WrappedField.resolved_type::names-of-diagram-classes-are-bound-to-the-diagram-classes", z3.BoolVal(good), detail=f"{label}: {ns!r}")
                outside = [n for n in missing if n not in ("Mapped", "Other")]
                ctx.check("WrappedField.resolved_type::only-names-outside-the-diagram-are-searched-in-the-modules",
                          z3.BoolVal(sorted(set(searched)) == sorted(set(outside))), detail=f"{label}: searched {searched}")
        ctx.cover("forward-reference-cases")
    return Harness("forward-references", run, spec=Spec(), covers=["forward-reference-cases"])


def h_role_taker():
    """is_role_taker: one-to-one, not optional, no default and no default factory"""
    def run(vm):
        ctx = vm.ctx
        W = world(vm)
        for text, ann, exp in annotations(W):
            for dflt, fact in ((None, None), ("d", None), (None, "f")):
                typing_env(vm, {"f": ann})
                wf = make_field(vm, W, default=dflt, default_factory=fact)
                want = bool(exp["one_to_one"]) and not exp["optional"] and dflt is None and fact is None
                try:
                    v = vm._getattr(wf, "is_role_taker")
                    ok, why = v is want, f"{text} default={dflt} factory={fact}: is_role_taker is {v!r}, expected {want}"
                except PyRaise as pr:
                    ok, why = False, f"{text}: is_role_taker raised {pr.exc!r}"
                ctx.check("WrappedField.is_role_taker::undefaulted-mandatory-one-to-one-fields-only", z3.BoolVal(ok), detail=why)
    return Harness("role-taker", run, spec=Spec())


# ------------------------------------------------------------------------------------------------ abstract diagram
GRAPH_WRITERS = ("add_node", "add_edge", "remove_edge", "remove_node", "clear", "add_nodes_from", "add_edges_from",
                 "remove_edges_from", "remove_nodes_from", "update_edge", "update_edge_by_index", "remove_edge_from_index",
                 "__setitem__", "__delitem__", "extend_from_edge_list", "merge_nodes", "contract_nodes", "compose", "substitute_node_with_subgraph")


class AClass(Opaque):
    """an arbitrary Python class (only identity, __name__, __bases__ and the issubclass(Role) bit are observable)"""

    def __init__(self, vm, tag):
        super().__init__("class:" + tag)
        self.vm_name = SStr(vm.ctx.fresh_str(f"name_{tag}_{self.oid}"))
        self.is_role = None
        self.role_param = None       # the T of Role[T] (created on demand)
        self.bases_stream = None

    def m_getattr(self, vm, name):
        if name == "__name__":
            return self.vm_name
        if name == "__bases__":
            if self.bases_stream is None:
                me = self
                self.bases_stream = SymStream(f"bases_{self.oid}", lambda it, i: AClass(it, f"base-of-{me.oid}"), length=vm.ctx.fresh_int(f"nbases_{self.oid}"))
            return self.bases_stream
        if name == "__orig_bases__":
            return ()
        vm.raise_("AttributeError", name)

    def m_isinstance(self, vm, c):
        return False

    def m_eq(self, vm, other):
        return other is self

    def m_truth(self, vm):
        return True


class ClassMap(Opaque):
    """_cls_wrapped_cls_map with arbitrary content: for a key asked the first time both 'mapped' and 'unmapped' are explored"""

    def __init__(self, world, tag="original"):
        super().__init__("class-map:" + tag)
        self.world, self.memo, self.role = world, {}, tag

    def m_getitem(self, vm, k):
        kk = key_of(k)
        if kk not in self.memo:
            if vm.ctx.choice(2, f"mapped?{self.oid}") == 0:
                self.memo[kk] = self.world.node(vm, k, "mapped")
            else:
                self.memo[kk] = None
        if self.memo[kk] is None:
            vm.raise_("KeyError", k)
        return self.memo[kk]

    def m_setitem(self, vm, k, v):
        vm.ctx.effect("diag", ("map_set", self, k, v))
        try:
            self.memo[key_of(k)] = v
        except Exception:       # a key the engine cannot hash symbolically: the write itself is what the log records
            pass

    def m_copy(self, vm):
        c = ClassMap(self.world, "copy")
        c.memo = dict(self.memo)
        return c

    def m_truth(self, vm):
        return True


class DiagGraph(Opaque):
    """rustworkx.PyDiGraph with arbitrary content.  Every mutator is logged; every reader returns arbitrary content."""

    def __init__(self, world, tag="original"):
        super().__init__("graph:" + tag)
        self.world, self.role = world, tag

    def m_truth(self, vm):
        return True

    def m_getitem(self, vm, k):
        return self.world.node(vm, None, "indexed")

    def m_getattr(self, vm, name):
        W, g, ctx = self.world, self, vm.ctx
        if name in GRAPH_WRITERS:
            def writer(it, fr, a, k, name=name):
                it.ctx.effect("diag", (name, g) + tuple(a))
                if name == "add_node":
                    idx = SInt(it.ctx.fresh_int("new_index"))
                    it.ctx.assume(idx.t >= 0)
                    it.ctx.effect("diag", ("new_index", g, a[0], idx))
                    return idx
                if name == "add_edge":
                    return SInt(it.ctx.fresh_int("new_edge_index"))
                if name == "remove_edge" and it.ctx.choice(2, "edge-exists?") == 1:
                    it.raise_("Exception", "NoEdgeBetweenNodes")
                return None
            return Builtin("graph." + name, writer)

        def stream(label, mk):
            return SymStream(f"{label}_{g.oid}_{next(W.counter)}", mk, length=ctx.fresh_int(f"n_{label}"))
        readers = {
            "nodes": lambda it, fr, a, k: stream("nodes", lambda it2, i: W.node(it2, None, "node")),
            "edges": lambda it, fr, a, k: stream("edges", lambda it2, i: W.relation(it2)),
            "edge_list": lambda it, fr, a, k: stream("edge_list", lambda it2, i: (W.index(it2), W.index(it2))),
            "out_edges": lambda it, fr, a, k: stream("out_edges", lambda it2, i: (a[0], W.index(it2), W.relation(it2))),
            "in_edges": lambda it, fr, a, k: stream("in_edges", lambda it2, i: (W.index(it2), a[0], W.relation(it2))),
            "get_edge_data": lambda it, fr, a, k: W.relation(it),
            "get_node_data": lambda it, fr, a, k: W.node(it, None, "node-data"),
            "node_indices": lambda it, fr, a, k: stream("node_indices", lambda it2, i: W.index(it2)),
            "num_nodes": lambda it, fr, a, k: W.index(it),
            "copy": lambda it, fr, a, k: DiagGraph(W, "copy"),
            "adj": lambda it, fr, a, k: AdjMap(W, g),
        }
        if name in readers:
            return Builtin("graph." + name, readers[name])
        if name in ("find_successors_by_edge", "find_predecessors_by_edge"):
            def find(it, fr, a, k):
                # the filter is applied to an arbitrary edge payload (it is user-visible code of the diagram)
                it.call(a[1], [W.relation(it)], {})
                return stream(name, lambda it2, i: W.node(it2, None, "neighbour"))
            return Builtin("graph." + name, find)
        from pyvc.ctx import Unsupported
        raise Unsupported(f"PyDiGraph.{name} has no assumed contract")


class AdjMap(Opaque):
    def __init__(self, world, g):
        super().__init__("adj")
        self.world, self.g = world, g

    def m_getattr(self, vm, name):
        W = self.world
        if name == "items":
            return Builtin("adj.items", lambda it, fr, a, k: SymStream(f"adj_{self.oid}", lambda it2, i: (W.index(it2), W.relation(it2)),
                                                                      length=it.ctx.fresh_int("n_adj")))
        vm.raise_("AttributeError", name)


class DWorld:
    """an abstract, well-formed ClassDiagram: `diagram` (real class, abstract graph and class map)"""

    def __init__(self, vm):
        import itertools
        self.vm = vm
        self.counter = itertools.count()
        self.W = world(vm)
        self.graph = DiagGraph(self)
        self.cmap = ClassMap(self)
        self.owned = []            # objects that belong to the diagram (nodes, relations, fields)
        self.introspector = vm.alloc(cls(vm, AI, "DataclassOnlyIntrospector"), {}, tag="introspector")
        self.diagram = vm.alloc(cls(vm, CD, "ClassDiagram"), {"_dependency_graph": self.graph, "_cls_wrapped_cls_map": self.cmap,
                                                             "introspector": self.introspector}, tag="diagram")
        self.owned.append(self.diagram)
        # whatever further state the diagram class declares (e.g. a cache added later) exists with its declared default, as
        # the dataclass constructor would create it - the sidecar does not enumerate the fields of ClassDiagram
        from pyvc.interp import Frame as _Frame
        for f in cls(vm, CD, "ClassDiagram").dataclass_fields(vm.loader):
            if f.name in self.diagram.fields or f.initvar:
                continue
            try:
                if f.default_factory is not None:
                    self.diagram.fields[f.name] = vm.call(vm.ev(f.default_factory, _Frame(vm, f.owner.module)), [], {})
                elif f.has_default and f.default is not None:
                    self.diagram.fields[f.name] = vm.ev(f.default, _Frame(vm, f.owner.module))
            except Exception:
                pass
        vm.spec.opaque_hooks["issubclass"] = self.issubclass
        vm.spec.opaque_hooks["binop"] = lambda it, op, a, b: AbstractBag(self, "binop")
        vm.spec.opaque_hooks["collect_stream"] = lambda it, stream, kind: AbstractBag(self, f"{kind}({stream.name})", stream)
        vm.spec.opaque_hooks["havoc_container"] = lambda it, old, name: old if isinstance(old, Opaque) else AbstractBag(self, name)
        vm.spec.opaque_hooks["havoc_value"] = self.havoc_value

    def issubclass(self, it, c, base):
        if isinstance(c, AClass):
            if isinstance(base, ClassInfo) and base.name == "Role":
                if c.is_role is None:
                    c.is_role = it.ctx.choice(2, f"is-role?{c.oid}") == 0
                return c.is_role
            return False
        from pyvc.ctx import Unsupported
        raise Unsupported(f"issubclass({c!r}, {base!r})")

    def havoc_value(self, it, old, name):
        """a local that held a relation class before the loop head may hold any relation class an earlier iteration left there"""
        if isinstance(old, ClassInfo) and old.name in ("Association", "HasRoleTaker", "Inheritance"):
            return cls(it, CD, ("Association", "HasRoleTaker")[it.ctx.choice(2, f"havoc-{name}")])
        return None

    def index(self, vm):
        i = SInt(vm.ctx.fresh_int("idx"))
        vm.ctx.assume(i.t >= 0)
        return i

    def node(self, vm, clazz, tag):
        """a node of the diagram (representation invariant: its class is mapped to it, it carries its index and its diagram)"""
        c = clazz if clazz is not None else AClass(vm, tag)
        w = vm.alloc(cls(vm, CD, "WrappedClass"), {"clazz": c, "index": self.index(vm), "_class_diagram": self.diagram,
                                                   "_wrapped_field_name_map_": make_dict([])}, tag=f"{tag}-node")
        self.cmap.memo[key_of(c)] = w
        self.owned.append(w)
        return w

    def wrapped_field(self, vm, owner):
        fld = vm.alloc(vm.ext("object"), {"name": SStr(vm.ctx.fresh_str("fname"))}, tag="dataclass-field")
        wf = vm.alloc(cls(vm, WF, "WrappedField"), {"clazz": owner, "field": fld, "public_name": SStr(vm.ctx.fresh_str("pname"))}, tag="wrapped-field")
        self.owned += [fld, wf]
        return wf

    def relation(self, vm):
        kind = vm.ctx.choice(3, "relation-kind")
        name = ("Inheritance", "Association", "HasRoleTaker")[kind]
        src, tgt = self.node(vm, None, "src"), self.node(vm, None, "tgt")
        fields = {"source": src, "target": tgt}
        if kind > 0:
            fields["field"] = self.wrapped_field(vm, src)
        r = vm.alloc(cls(vm, CD, name), fields, tag="edge-" + name)
        self.owned.append(r)
        return r


class AbstractBag(Opaque):
    """a container of unknown content (a local after a loop havoc, or list/tuple/set of an abstract stream): reads return
    arbitrary members; writes are absorbed but LOGGED against the outermost container they reach (`root`), so that a write
    into something the diagram holds on to is seen"""

    def __init__(self, world, name, source=None, parent=None):
        super().__init__("bag:" + name)
        self.world, self.name, self.source = world, name, source
        self.root = parent.root if parent is not None else self

    def _mut(self, vm, what):
        vm.ctx.effect("mutate", (self.root, what))

    def m_getattr(self, vm, name):
        if name in ("append", "add", "extend", "update", "clear", "remove", "discard", "insert"):
            return Builtin("bag." + name, lambda it, fr, a, k: self._mut(it, name))
        if name == "get":
            return Builtin("bag.get", lambda it, fr, a, k: AbstractBag(self.world, self.name + ".get", parent=self)
                           if it.ctx.choice(2, "key-present?") == 0 or len(a) < 2 else a[1])
        if name == "setdefault":
            def setdefault(it, fr, a, k):
                if it.ctx.choice(2, "key-present?") == 0:
                    return AbstractBag(self.world, self.name + ".setdefault", parent=self)
                self._mut(it, "setdefault")
                return a[1] if len(a) > 1 else None
            return Builtin("bag.setdefault", setdefault)
        if name == "pop":
            return Builtin("bag.pop", lambda it, fr, a, k: (self._mut(it, "pop"), self.world.member(it, self.name))[1])
        if name in ("values", "items", "keys", "copy"):
            return Builtin("bag." + name, lambda it, fr, a, k: AbstractBag(self.world, self.name + "." + name, self.source))
        vm.raise_("AttributeError", name)

    def m_iter(self, vm):
        W = self.world
        if self.source is not None:          # list/tuple/set of a stream: the same kind of elements
            return SymStream(f"bag_{self.oid}_{next(W.counter)}", self.source.elem, length=vm.ctx.fresh_int("n_bag"))
        return SymStream(f"bag_{self.oid}_{next(W.counter)}", lambda it, i: W.member(it, self.name), length=vm.ctx.fresh_int("n_bag"))

    def m_contains(self, vm, k):
        return SBool(vm.ctx.fresh_bool("in_bag"))

    def m_truth(self, vm):
        return SBool(vm.ctx.fresh_bool("bag_nonempty"))

    def m_getitem(self, vm, k):
        if "node_map" in self.name:
            return RWX(self.world)
        return AbstractBag(self.world, self.name + "[]", parent=self)

    def m_setitem(self, vm, k, v):
        self._mut(vm, "__setitem__")
        return None


def _member(self, vm, name):
    if "edges_to_remove" in name:
        return (self.index(vm), self.index(vm))
    if "node_map" in name or "root_nodes" in name:
        return RWX(self)
    return self.index(vm)


DWorld.member = _member


def diag_writes(ctx, since=0):
    return [e[1] for e in ctx.effects[since:] if e[0] == "diag" and e[1][0] != "new_index"]


def attr_writes(ctx, since=0):
    return [e[1] for e in ctx.effects[since:] if e[0] == "setattr"]


def h_add_node():
    """add_node(WrappedClass(c)) for a class that is not yet in the diagram: one node, indexed, linked, mapped - nothing else.
    For a class already in the diagram (given as class or wrapper): nothing."""
    def run(vm):
        ctx = vm.ctx
        D = DWorld(vm)
        mode = ctx.choice(3, "argument")
        if mode == 0:
            c = AClass(vm, "new")
            w = vm.call(cls(vm, CD, "WrappedClass"), [], {"clazz": c})
            since = len(ctx.effects)
            vm.call_method(D.diagram, "add_node", w)
            ws = diag_writes(ctx, since)
            adds = [x for x in ws if x[0] == "add_node"]
            idx = [e[1] for e in ctx.effects[since:] if e[0] == "diag" and e[1][0] == "new_index"]
            ok_graph = len(adds) == 1 and adds[0][1] is D.graph and adds[0][2] is w and all(x[0] in ("add_node", "map_set") for x in ws)
            ctx.check("ClassDiagram.add_node::a-new-class-becomes-exactly-one-node", z3.BoolVal(ok_graph), detail=repr(ws))
            ok_idx = bool(idx) and w.fields.get("index") is idx[0][3]
            ctx.check("ClassDiagram.add_node::the-node-carries-the-index-the-graph-gave-it", z3.BoolVal(ok_idx), detail=repr(w.fields.get("index")))
            ctx.check("ClassDiagram.add_node::the-node-is-linked-to-this-diagram", z3.BoolVal(w.fields.get("_class_diagram") is D.diagram))
            maps = [x for x in ws if x[0] == "map_set"]
            ctx.check("ClassDiagram.add_node::the-class-is-mapped-to-its-node", z3.BoolVal(len(maps) == 1 and maps[0][1] is D.cmap and maps[0][2] is c and maps[0][3] is w), detail=repr(maps))
            others = [x for x in attr_writes(ctx, since) if x[0] is not w]
            ctx.check("ClassDiagram.add_node::writes-nothing-else", z3.BoolVal(not others), detail=repr(others))
            ctx.cover("add-new")
        elif mode == 1:
            c = AClass(vm, "plain")
            since = len(ctx.effects)
            vm.call_method(D.diagram, "add_node", c)
            ws = diag_writes(ctx, since)
            mapped = D.cmap.memo.get(key_of(c))
            adds = [x for x in ws if x[0] == "add_node"]
            if any(x[0] == "map_set" for x in ws):
                # class was unmapped: a fresh wrapper was created, added and mapped
                w = adds[0][2] if adds else None
                ok = len(adds) == 1 and isinstance(w, Obj) and w.fields.get("clazz") is c and mapped is w
                ctx.check("ClassDiagram.add_node::an-unmapped-class-is-wrapped-added-and-mapped", z3.BoolVal(ok), detail=repr(ws))
                ctx.cover("add-plain-unmapped")
            else:
                ctx.check("ClassDiagram.add_node::a-class-already-in-the-diagram-is-not-added-again", z3.BoolVal(not ws), detail=repr(ws))
                ctx.cover("add-plain-mapped")
        else:
            w = D.node(vm, None, "existing")
            since = len(ctx.effects)
            vm.call_method(D.diagram, "add_node", w)
            ws = diag_writes(ctx, since)
            ctx.check("ClassDiagram.add_node::a-node-of-the-diagram-is-not-added-again", z3.BoolVal(not ws and not attr_writes(ctx, since)), detail=repr(ws))
            ctx.cover("add-existing")
    return Harness("add-node", run, spec=Spec(), covers=["add-new", "add-plain-unmapped", "add-plain-mapped", "add-existing"])


def h_post_init():
    """__post_init__: every class of the input becomes add_node(WrappedClass(clazz=that class)); relations are created afterwards."""
    def run(vm):
        ctx = vm.ctx
        D = DWorld(vm)
        calls = []
        vm.spec.stubs["ClassDiagram.add_node"] = lambda it, a, k: calls.append(("add_node", a[1])) or None
        vm.spec.stubs["ClassDiagram._create_all_relations"] = lambda it, a, k: calls.append(("relations",)) or None
        graphs = []
        vm.loader.externals[("rustworkx", "PyDiGraph")] = Builtin("PyDiGraph", lambda it, fr, a, k: graphs.append(DiagGraph(D, "fresh")) or graphs[-1])
        classes = SymStream("classes", lambda it, i: AClass(it, "input"), length=ctx.fresh_int("n_classes"))

        def inv(it, fr):
            # per element: exactly one add_node of a fresh wrapper of that element; relations not yet created
            if any(c[0] == "relations" for c in calls):
                return z3.BoolVal(False)
            cur = it.loop_value(fr, 0)
            if not calls:
                return z3.BoolVal(True)
            w = calls[-1][1]
            return z3.BoolVal(len(calls) == 1 and isinstance(w, Obj) and w.cls is cls(it, CD, "WrappedClass") and w.fields.get("clazz") is cur
                              and w.fields.get("index") is None)
        vm.spec.loops[("ClassDiagram.__post_init__", 0)] = LoopSpec(inv=inv)
        diagram = vm.alloc(cls(vm, CD, "ClassDiagram"), {"_cls_wrapped_cls_map": D.cmap}, tag="new-diagram")
        vm.call_method(diagram, "__post_init__", classes)
        # exit path: the loop is over
        early = [n for n in ctx.notes if n[0] == "early-exit"]
        ctx.check("ClassDiagram.__post_init__::every-class-is-visited", z3.BoolVal(not early), detail=repr(early))
        ctx.check("ClassDiagram.__post_init__::starts-from-an-empty-graph", z3.BoolVal(len(graphs) == 1 and diagram.fields.get("_dependency_graph") is graphs[0]))
        ctx.check("ClassDiagram.__post_init__::relations-are-created-once-after-all-nodes", z3.BoolVal(calls == [("relations",)]), detail=repr(calls))
        ctx.cover("post-init-exit")
    return Harness("post-init", run, spec=Spec(), covers=["post-init-exit"])


def relation_writes(ctx, since=0):
    return [x for x in diag_writes(ctx, since)]


def h_inheritance():
    """_create_inheritance_relations, arbitrary node x arbitrary direct base: exactly one Inheritance edge base-node -> node
    iff the base is a class of the diagram; nothing else is written."""
    def run(vm):
        ctx = vm.ctx
        D = DWorld(vm)
        Inh = cls(vm, CD, "Inheritance")

        def expected(it, fr, inner):
            ws = diag_writes(ctx)
            aw = [x for x in attr_writes(ctx) if x[0] in D.owned]
            if aw:
                return False, f"attribute writes {aw}"
            if any(n[0] == "early-exit" for n in ctx.notes):
                return False, "a loop was left early: later bases / classes are not visited"
            if not inner:
                return not ws, f"writes outside the inner loop: {ws}"
            node, base = it.loop_value(fr, 0), it.loop_value(fr, 1)
            if not isinstance(node, Obj) or not isinstance(base, AClass):
                return not ws, f"writes before an element was taken: {ws}"
            mapped = D.cmap.memo.get(key_of(base))
            if mapped is None:
                return not ws, f"base is not in the diagram but {ws}"
            if len(ws) != 1 or ws[0][0] != "add_edge":
                return False, f"base is in the diagram: expected one add_edge, got {ws}"
            _, g, u, v, rel = ws[0]
            ok = g is D.graph and u is mapped.fields["index"] and v is node.fields["index"] and isinstance(rel, Obj) and rel.cls is Inh \
                and rel.fields.get("source") is mapped and rel.fields.get("target") is node
            return ok, f"edge {ws[0]}"

        def inv_inner(it, fr):
            ok, why = expected(it, fr, True)
            if not ok:
                ctx.notes.append(("why", why))
            return z3.BoolVal(ok)

        def inv_outer(it, fr):
            ok, why = expected(it, fr, False)
            return z3.BoolVal(ok)
        vm.spec.loops[("ClassDiagram._create_inheritance_relations", 0)] = LoopSpec(inv=inv_outer)
        vm.spec.loops[("ClassDiagram._create_inheritance_relations", 1)] = LoopSpec(inv=inv_inner)
        vm.call_method(D.diagram, "_create_inheritance_relations")
        early = [n for n in ctx.notes if n[0] == "early-exit"]
        ctx.check("ClassDiagram._create_inheritance_relations::every-base-of-every-class-is-visited", z3.BoolVal(not early), detail=repr(early))
        ctx.cover("inheritance-exit")
    return Harness("inheritance-relations", run, spec=Spec(), covers=["inheritance-exit"])


def h_association():
    """_create_association_relations, arbitrary node x arbitrary field of it: exactly one association edge node -> end-point
    node iff the field's type end point is a class of the diagram; HasRoleTaker iff the field is the role taker of a Role whose
    type parameter is that end point; nothing else is written."""
    def run(vm):
        ctx = vm.ctx
        D = DWorld(vm)
        Assoc, HRT = cls(vm, CD, "Association"), cls(vm, CD, "HasRoleTaker")
        state = {}

        def fields_of(it, o):
            if "__fields_stream__" not in o.fields:
                o.fields["__fields_stream__"] = SymStream(f"fields_{o.oid}", lambda it2, i: D.wrapped_field(it2, o), length=it.ctx.fresh_int("n_fields"))
            return o.fields["__fields_stream__"]

        def role_param_of(it, c):
            if c.role_param is None:
                c.role_param = AClass(it, "role-parameter")
            return c.role_param

        def endpoint(it, wf):
            if "__endpoint__" not in wf.fields:
                owner_cls = wf.fields["clazz"].fields["clazz"]
                # the end point is either the Role parameter of the owning class or some other class
                wf.fields["__endpoint__"] = role_param_of(it, owner_cls) if it.ctx.choice(2, "end-point-is-the-role-parameter?") == 0 else AClass(it, "endpoint")
            return wf.fields["__endpoint__"]

        def is_role_taker(it, wf):
            if "__role_taker__" not in wf.fields:
                wf.fields["__role_taker__"] = it.ctx.choice(2, "is-role-taker?") == 0
            return wf.fields["__role_taker__"]

        def generic_param(it, a, k):
            return (role_param_of(it, a[0]),)
        vm.spec.attr_hooks[("WrappedClass", "fields")] = fields_of
        vm.spec.attr_hooks[("WrappedField", "type_endpoint")] = endpoint
        vm.spec.attr_hooks[("WrappedField", "is_role_taker")] = is_role_taker
        vm.spec.stubs[f"{UT}:get_generic_type_param"] = generic_param
        vm.spec.stubs[f"{CD}:get_generic_type_param"] = generic_param

        def expected(fr, inner):
            ws = diag_writes(ctx)
            aw = [x for x in attr_writes(ctx) if x[0] in D.owned]
            if aw:
                return False, f"attribute writes {aw}"
            if any(n[0] == "early-exit" for n in ctx.notes):
                return False, "a loop was left early: later fields / classes are not visited"
            node, wf = vm.loop_value(fr, 0), vm.loop_value(fr, 1)
            if not inner or not isinstance(node, Obj) or not isinstance(wf, Obj):
                return not ws, f"writes outside an inner iteration: {ws}"
            ep = wf.fields.get("__endpoint__")
            mapped = D.cmap.memo.get(key_of(ep)) if ep is not None else None
            if mapped is None:
                return not ws, f"end point is not in the diagram but {ws}"
            if len(ws) != 1 or ws[0][0] != "add_edge":
                return False, f"end point is in the diagram: expected one add_edge, got {ws}"
            _, g, u, v, rel = ws[0]
            ncls = node.fields["clazz"]
            # (whether the class is a Role / the field a role taker is decided when the code asks; never asked = irrelevant)
            is_role = D.issubclass(vm, ncls, cls(vm, UT, "Role"))
            role = is_role_taker(vm, wf) and is_role and ep is ncls.role_param
            want_cls = HRT if role else Assoc
            ok = g is D.graph and u is node.fields["index"] and v is mapped.fields["index"] and isinstance(rel, Obj) and rel.cls is want_cls \
                and rel.fields.get("source") is node and rel.fields.get("target") is mapped and rel.fields.get("field") is wf
            return ok, f"edge {ws[0]} (role={role})"
        whys = []

        def inv_inner(it, fr):
            ok, why = expected(fr, True)
            if not ok:
                whys.append(why)
            return z3.BoolVal(ok)
        vm.spec.loops[("ClassDiagram._create_association_relations", 0)] = LoopSpec(inv=lambda it, fr: z3.BoolVal(expected(fr, False)[0]))
        vm.spec.loops[("ClassDiagram._create_association_relations", 1)] = LoopSpec(inv=inv_inner)
        vm.call_method(D.diagram, "_create_association_relations")
        early = [n for n in ctx.notes if n[0] == "early-exit"]
        ctx.check("ClassDiagram._create_association_relations::every-field-of-every-class-is-visited", z3.BoolVal(not early), detail=repr(early))
        ctx.cover("association-exit")
    return Harness("association-relations", run, spec=Spec(), covers=["association-exit"])


def h_fields():
    """WrappedClass.fields + DataclassOnlyIntrospector.discover: one WrappedField per public dataclass field, in order, wrapping
    that field for this class; names with a leading underscore are skipped (field lists up to length 3, each name private or public)."""
    def run(vm):
        ctx = vm.ctx
        D = DWorld(vm)
        n = ctx.choice(4, "number-of-fields")
        # only `name.startswith("_")` is inspected: a name is either private or public (concrete representatives; the name map
        # is keyed by the name, and the engine's dictionaries need concrete keys)
        privs = [ctx.choice(2, f"private?{i}") == 0 for i in range(n)]
        names = [("_p%d" if p else "f%d") % i for i, p in enumerate(privs)]
        flds = [vm.alloc(vm.ext("object"), {"name": nm}, tag=f"field{i}") for i, nm in enumerate(names)]
        owner_cls = AClass(vm, "owner")
        dataclass = ctx.choice(2, "is-dataclass?") == 0
        vm.loader.externals[("dataclasses", "is_dataclass")] = Builtin("is_dataclass", lambda it, fr, a, k: dataclass)
        vm.loader.externals[("dataclasses", "fields")] = Builtin("fields", lambda it, fr, a, k: PyList(list(flds)) if a[0] is owner_cls else it.raise_("TypeError", "not a dataclass"))
        use_default = ctx.choice(2, "diagram-or-default-introspector")
        w = vm.alloc(cls(vm, CD, "WrappedClass"), {"clazz": owner_cls, "index": 0, "_class_diagram": D.diagram if use_default == 0 else None,
                                                   "_wrapped_field_name_map_": make_dict([])}, tag="owner-node")
        got = vm._getattr(w, "fields")
        # which names are public on this path
        public = []
        for f, priv in zip(flds, privs):
            if not priv:
                public.append(f)
        if not dataclass:
            public = []
        items = got.items if isinstance(got, PyList) else None
        ok = items is not None and len(items) == len(public) and all(isinstance(x, Obj) and x.cls is cls(vm, WF, "WrappedField") and x.fields.get("field") is f
                                                                      and x.fields.get("clazz") is w for x, f in zip(items, public))
        ctx.check("WrappedClass.fields::one-wrapped-field-per-public-dataclass-field-in-order", z3.BoolVal(ok), detail=f"{items} vs {public}")
        if ok:
            named = all(vm.same(x.fields.get("public_name"), f.fields["name"]) is True for x, f in zip(items, public))
            ctx.check("WrappedClass.fields::public-name-is-the-field-name", z3.BoolVal(named))
            ctx.check("WrappedClass.fields::writes-nothing-to-the-diagram", z3.BoolVal(not diag_writes(ctx)), detail=repr(diag_writes(ctx)))
        ctx.cover(f"fields-{n}")
    return Harness("wrapped-class-fields", run, spec=Spec(), covers=["fields-0", "fields-3"], max_paths=400)


class RWX(Opaque):
    """rustworkx_utils.RWXNode (assumed: a display node that references what it is given and links to other display nodes)"""

    def __init__(self, world):
        super().__init__("rwxnode")
        self.world = world

    def m_getattr(self, vm, name):
        if name == "parents":
            return AbstractBag(self.world, "parents")
        if name in ("add_parent", "visualize"):
            return Builtin("rwx." + name, lambda it, fr, a, k: None)
        vm.raise_("AttributeError", name)

    def m_truth(self, vm):
        return True


def new_rwx(it, D, a, k):
    """RWXNode(name, ..., graph=g): a display node lives in the graph it is told to live in -- creating it adds a node to THAT graph
    (assumed contract of rustworkx_utils; without `graph` the display nodes keep a graph of their own)"""
    g = k.get("graph")
    if g is None:
        g = next((x for x in a if isinstance(x, Opaque) and getattr(x, "tag", "").startswith("graph:")), None)
    if g is not None and isinstance(g, Opaque) and getattr(g, "tag", "").startswith("graph:"):
        it.ctx.effect("diag", ("add_node", g, "display-node"))
    return RWX(D)


READ_ONLY = {
    # name -> argument builder(vm, D) -> (args, kwargs)
    "to_subdiagram_without_inherited_associations": lambda vm, D: ([vm.ctx.choice(2, "include_field_name") == 0], {}),
    "get_assoc_keys_by_source": lambda vm, D: ([vm.ctx.choice(2, "include_field_name") == 0], {}),
    "all_ancestors": lambda vm, D: ([D.index(vm)], {}),
    "parent_map": None,
    "wrapped_classes": None,
    "associations": None,
    "inheritance_relations": None,
    "get_wrapped_class": lambda vm, D: ([AClass(vm, "query") if vm.ctx.choice(2, "class-or-node") == 0 else D.node(vm, None, "query")], {}),
    "get_out_edges": lambda vm, D: ([D.node(vm, None, "query")], {}),
    "get_outgoing_relations": lambda vm, D: ([AClass(vm, "query")], {}),
    "get_associations_with_condition": lambda vm, D: ([D.node(vm, None, "query"), Builtin("condition", lambda it, fr, a, k: it.ctx.choice(2, "condition") == 0)], {}),
    "get_role_taker_associations_of_cls": lambda vm, D: ([D.node(vm, None, "query")], {}),
    "get_common_role_taker_associations": lambda vm, D: ([D.node(vm, None, "q1"), D.node(vm, None, "q2")], {}),
    "get_neighbors_with_relation_type": lambda vm, D: ([D.node(vm, None, "query"), cls(vm, CD, "Association")], {}),
    "get_outgoing_neighbors_with_relation_type": lambda vm, D: ([D.node(vm, None, "query"), cls(vm, CD, "Inheritance")], {}),
    "get_incoming_neighbors_with_relation_type": lambda vm, D: ([D.node(vm, None, "query"), cls(vm, CD, "Association")], {}),
    "_build_rxnode_tree": lambda vm, D: ([vm.ctx.choice(2, "add_association_relations") == 0], {}),
    "visualize": lambda vm, D: ([], {}),
}


def h_frame(op):
    """`op` on an arbitrary diagram writes nothing into the diagram, its graph, its class map or the objects they hold."""
    def run(vm):
        ctx = vm.ctx
        D = DWorld(vm)
        CDc = cls(vm, CD, "ClassDiagram")
        vm.loader.module(CD).values["RWXNode"] = Builtin("RWXNode", lambda it, fr, a, k: new_rwx(it, D, a, k))
        vm.spec.attr_hooks[("WrappedField", "is_role_taker")] = lambda it, wf: it.ctx.choice(2, "is-role-taker?") == 0
        since = len(ctx.effects)

        def bad_writes():
            return [w for w in diag_writes(ctx, since) if getattr(w[1], "role", None) == "original"] + \
                   [x for x in attr_writes(ctx, since) if x[0] in D.owned]
        oid = f"ClassDiagram.{op}::frame-writes-nothing-into-the-diagram-it-is-called-on"
        for m in CDc.methods:
            for k in range(6):
                vm.spec.loops[(f"ClassDiagram.{m.split('@')[0]}", k)] = LoopSpec(inv=lambda it, fr: z3.BoolVal(not bad_writes()))
        mk = READ_ONLY[op]
        try:
            if mk is None:
                r = vm._getattr(D.diagram, op)
            else:
                args, kwargs = mk(vm, D)
                r = vm.call_method(D.diagram, op, *args, **kwargs)
                if hasattr(r, "it") or isinstance(r, SymStream):
                    # generators: consume one arbitrary prefix
                    for _ in zip(range(2), vm.iterate(r)):
                        pass
        except PyRaise as pr:
            if not (isinstance(pr.exc.cls, ClassInfo) and pr.exc.cls.name == "ClassIsUnMappedInClassDiagram"):
                raise
        ctx.check(oid, z3.BoolVal(not bad_writes()), detail=repr(bad_writes()))
        if op.startswith("to_subdiagram"):
            ctx.check("ClassDiagram.to_subdiagram_without_inherited_associations::returns-a-different-diagram",
                      z3.BoolVal(isinstance(r, Obj) and r is not D.diagram))
        ctx.cover("returned")
    return Harness(f"frame-{op}", run, spec=Spec(), covers=["returned"], max_paths=3000)


def reachable_containers(D):
    """containers the diagram (or an object it holds) keeps a reference to, e.g. in a cached_property slot"""
    out, todo, seen = [], [], set()
    for o in D.owned:
        todo.extend(o.fields.values())
    while todo:
        v = todo.pop()
        if id(v) in seen:
            continue
        seen.add(id(v))
        if isinstance(v, AbstractBag):
            out.append(v.root)
        elif isinstance(v, (PyList, PySet)):
            out.append(v)
            todo.extend(v.items)
        elif isinstance(v, PyDict):
            out.append(v)
            todo.extend(v.vals.values())
        elif isinstance(v, tuple):
            todo.extend(v)
    return out


FIRST_OPS = ["parent_map", "wrapped_classes", "associations", "inheritance_relations", "get_assoc_keys_by_source", "all_ancestors"]


def h_frame_sequence(op1, op2):
    """op1 then op2: whatever op1 left reachable from the diagram (caches) is not written by op2, and op2 writes nothing into
    the diagram either."""
    def run(vm):
        ctx = vm.ctx
        D = DWorld(vm)
        CDc = cls(vm, CD, "ClassDiagram")
        vm.loader.module(CD).values["RWXNode"] = Builtin("RWXNode", lambda it, fr, a, k: new_rwx(it, D, a, k))
        vm.spec.attr_hooks[("WrappedField", "is_role_taker")] = lambda it, wf: it.ctx.choice(2, "is-role-taker?") == 0
        state = {"since": None, "held": []}

        def bad_writes():
            if state["since"] is None:
                return []
            since = state["since"]
            held = state["held"]
            return [w for w in diag_writes(ctx, since) if getattr(w[1], "role", None) == "original"] + \
                   [x for x in attr_writes(ctx, since) if x[0] in D.owned] + \
                   [e[1] for e in ctx.effects[since:] if e[0] == "mutate" and any(e[1][0] is h for h in held)]
        for m in CDc.methods:
            for k in range(6):
                vm.spec.loops[(f"ClassDiagram.{m.split('@')[0]}", k)] = LoopSpec(inv=lambda it, fr: z3.BoolVal(not bad_writes()))

        def call(op):
            mk = READ_ONLY[op]
            try:
                if mk is None:
                    return vm._getattr(D.diagram, op)
                args, kwargs = mk(vm, D)
                r = vm.call_method(D.diagram, op, *args, **kwargs)
                if hasattr(r, "it") or isinstance(r, SymStream):
                    for _ in zip(range(2), vm.iterate(r)):
                        pass
                return r
            except PyRaise as pr:
                if not (isinstance(pr.exc.cls, ClassInfo) and pr.exc.cls.name == "ClassIsUnMappedInClassDiagram"):
                    raise
        call(op1)
        state["since"] = len(ctx.effects)
        state["held"] = reachable_containers(D)
        call(op2)
        ctx.check(f"ClassDiagram.{op2}::frame-after-{op1}-writes-nothing-the-diagram-holds", z3.BoolVal(not bad_writes()), detail=repr(bad_writes()))
        ctx.cover("returned")
    return Harness(f"frame-{op1}-then-{op2}", run, spec=Spec(), covers=["returned"], max_paths=6000)


def h_frame_derived(op2):
    """derive a sub-diagram, then run a read-only operation ON THE DERIVED VIEW: nothing the original diagram holds (graph, class
    map, nodes, relations, caches) is written."""
    def run(vm):
        ctx = vm.ctx
        D = DWorld(vm)
        CDc = cls(vm, CD, "ClassDiagram")
        vm.loader.module(CD).values["RWXNode"] = Builtin("RWXNode", lambda it, fr, a, k: new_rwx(it, D, a, k))
        vm.spec.attr_hooks[("WrappedField", "is_role_taker")] = lambda it, wf: it.ctx.choice(2, "is-role-taker?") == 0
        state = {"since": None, "held": []}

        def bad_writes():
            if state["since"] is None:
                return []
            since, held = state["since"], state["held"]
            return [w for w in diag_writes(ctx, since) if getattr(w[1], "role", None) == "original"] + \
                   [x for x in attr_writes(ctx, since) if x[0] in D.owned] + \
                   [e[1] for e in ctx.effects[since:] if e[0] == "mutate" and any(e[1][0] is h for h in held)]
        for m in CDc.methods:
            for k in range(6):
                vm.spec.loops[(f"ClassDiagram.{m.split('@')[0]}", k)] = LoopSpec(inv=lambda it, fr: z3.BoolVal(not bad_writes()))
        sub = vm.call_method(D.diagram, "to_subdiagram_without_inherited_associations", ctx.choice(2, "include_field_name") == 0)
        if not isinstance(sub, Obj) or sub is D.diagram:
            ctx.fail("ClassDiagram.to_subdiagram_without_inherited_associations::returns-a-different-diagram")
            return
        state["since"] = len(ctx.effects)
        state["held"] = reachable_containers(D)
        mk = READ_ONLY[op2]
        try:
            if mk is None:
                vm._getattr(sub, op2)
            else:
                args, kwargs = mk(vm, D)
                r = vm.call_method(sub, op2, *args, **kwargs)
                if hasattr(r, "it") or isinstance(r, SymStream):
                    for _ in zip(range(2), vm.iterate(r)):
                        pass
        except PyRaise as pr:
            if not (isinstance(pr.exc.cls, ClassInfo) and pr.exc.cls.name == "ClassIsUnMappedInClassDiagram"):
                raise
        ctx.check(f"ClassDiagram.{op2}::frame-on-a-derived-view-writes-nothing-the-original-holds", z3.BoolVal(not bad_writes()), detail=repr(bad_writes()))
        ctx.cover("returned")
    return Harness(f"frame-derived-{op2}", run, spec=Spec(), covers=["returned"], max_paths=8000)


def h_canary():
    def run(vm):
        W = world(vm)
        typing_env(vm, {"f": W["int"]})
        wf = make_field(vm, W)
        # deliberately false: claims int is not a builtin type
        vm.ctx.check("CANARY", z3.BoolVal(vm._getattr(wf, "is_builtin_type") is False))
    return Harness("canary", run, expect_fail=True)


def harnesses():
    return [h_classification(), h_forward_references(), h_role_taker(), h_add_node(), h_post_init(), h_inheritance(), h_association(), h_fields()] + [h_frame(op) for op in READ_ONLY] + [h_frame_sequence(a, b) for a in FIRST_OPS for b in READ_ONLY] + [h_frame_derived(b) for b in READ_ONLY if not b.startswith('to_subdiagram')] + [h_canary()]
