"""C20 — krrood never extends the lifetime of user objects.

Modular argument: if no krrood function stores a strong reference to a user object — or to a krrood object that strongly
reaches one — under a process-global root, then once the program drops its own references nothing krrood-held reaches the
object (induction over calls).
 (1) Root enumeration: every process-global root of src/krrood (class-level mutable attribute, mutable module global,
     lru_cache / cache on a function or method) is found mechanically from the ast on every run and must be classified in ROOTS
     below; an unclassified root fails `roots::every-process-global-root-is-classified` (a new cache or registry is noticed).
 (2) Ownership obligations for the roots classified `weak`: the real registration code (Symbol.__new__ → update_cache →
     WrappedInstance → SymbolGraph.add_node, PredicateClassRelation, MonitoredContainer._bind_owner / _on_add(inferred)) is
     executed on a concrete heap and the user instance must not be strongly reachable from the root afterwards (heap walk
     that stops at weak references).  Removal obligations (nothing left behind) are C14's.
 (3) Roots classified `finding` are the known findings: the expression registries.
"""
from __future__ import annotations
import ast
import os
import z3

from pyvc.framework import Harness
from pyvc.interp import Spec, PyRaise, INLINE
from pyvc.values import Obj, PyList, PySet, PyDict, Builtin, Opaque, GenObj
from pyvc.ops import make_dict, dict_items
from pyvc.repo import SRC_ROOT, ClassInfo

PROPERTY = "C20"
# obligations that flag a code SHAPE (a new process-global container) rather than a behaviour: a violation only with a native
# witness (the census driver), otherwise an undecided note - a new registry is noticed, not condemned
NEEDS_WITNESS = ["roots::every-process-global-root-is-classified"]
SG = "krrood.entity_query_language.symbol_graph"
PRED = "krrood.entity_query_language.predicate"
MC = "krrood.ontomatic.property_descriptor.monitored_container"
FUNCTIONS = [(PRED, "Symbol.__new__"), (PRED, "update_cache"), (SG, "WrappedInstance.__post_init__"), (SG, "SymbolGraph.add_node"),
             (SG, "PredicateClassRelation.__post_init__"), (MC, "MonitoredContainer._bind_owner"), (MC, "MonitoredContainer._on_add"),
             ("krrood.singleton", "SingletonMeta.__call__"), ("krrood.singleton", "SingletonMeta.clear_instance")]
ASSUMPTIONS = [
    "CPython reclaims an object once no strong reference reaches it (reference counting + cycle collector)",
    "rustworkx graphs hold their payloads strongly; weakref.ref does not keep its referent alive",
    "classes, functions, ints and strings stored under a root do not reach user instances",
    "the removal side (sweep leaves no entry behind) is proved in C14",
]
TRUSTED = ["the classification table ROOTS (each `safe` entry states why the stored values cannot reach a user instance)"]
BOUNDED_ONLY_CLAUSES = ["whether instances are actually reclaimed is measured by the weak-reference census driver"]

# root (file-relative path :: name) -> (class, why)
ROOTS = {
    "singleton.py::SingletonMeta._instances": ("weak", "holds the SymbolGraph / registry singletons; the graph reaches instances only through WrappedInstance weak references (obligation below)"),
    "entity_query_language/symbolic.py::SymbolicExpression._id_expression_map_": ("finding", "every expression ever built is registered strongly and reaches the domains it ranged over"),
    "entity_query_language/symbolic.py::SymbolicExpression._symbolic_expression_stack_": ("balanced", "pushed by __enter__, popped by __exit__ (C08 harness enter-exit)"),
    "entity_query_language/rxnode.py::RWXNode._graph": ("finding", "process-wide PyDAG holding every expression node (data=expression) strongly"),
    "entity_query_language/symbolic.py::Comparator.operation_name_map": ("safe", "operator functions -> strings"),
    "entity_query_language/symbolic.py::id_generator": ("safe", "a counter"),
    "entity_query_language/symbolic.py::_symbolic_mode": ("safe", "a context variable holding an enum"),
    "entity_query_language/predicate.py::cls_args": ("safe", "unused class-keyed cache"),
    "entity_query_language/predicate.py::get_function_argument_names": ("safe", "lru_cache keyed by function objects, values are lists of names"),
    "entity_query_language/utils.py::All": ("safe", "sentinel"),
    "ontomatic/property_descriptor/monitored_container.py::monitored_type_map": ("safe", "builtin container type -> monitored subclass"),
    "ontomatic/property_descriptor/property_descriptor.py::PropertyDescriptor.domain_range_map": ("safe", "descriptor class -> {domain class -> range class}"),
    "ontomatic/property_descriptor/property_descriptor.py::PropertyDescriptor.all_domains": ("safe", "classes"),
    "ontomatic/property_descriptor/property_descriptor.py::PropertyDescriptor.all_ranges": ("safe", "classes"),
    "ontomatic/property_descriptor/property_descriptor.py::PropertyDescriptor.get_associated_field_of_domain_type": ("safe", "lru_cache keyed by classes, values are WrappedFields"),
    "ontomatic/property_descriptor/property_descriptor.py::PropertyDescriptor.get_fields_of_superproperties_in_role_taker_of_class": ("safe", "lru_cache keyed by classes"),
    "ontomatic/property_descriptor/property_descriptor.py::PropertyDescriptor.get_fields_of_superproperties": ("safe", "lru_cache keyed by classes"),
    "entity_query_language/symbolic.py::SymbolicExpression._projection_": ("finding", "lru_cache on a method: the cache holds every expression it was called on"),
    "entity_query_language/symbolic.py::ResultQuantifier._projection_": ("finding", "lru_cache on a method"),
    "entity_query_language/symbolic.py::QueryObjectDescriptor._projection_": ("finding", "lru_cache on a method"),
    "entity_query_language/symbolic.py::QueryObjectDescriptor.variable_is_bound_or_its_children_are_bound": ("finding", "lru_cache keyed by (self, variable, OperationResult): holds bindings, i.e. user objects"),
    "entity_query_language/symbolic.py::BinaryOperator._projection_": ("finding", "lru_cache on a method"),
    "entity_query_language/symbolic.py::OR._projection_": ("finding", "lru_cache on a method"),
    "entity_query_language/conclusion_selector.py::ExceptIf._projection_": ("finding", "lru_cache on a method"),
    "entity_query_language/conclusion.py::Conclusion._all_variable_instances_": ("finding", "lru_cache on a property getter: holds every conclusion"),
    "class_diagrams/wrapped_field.py::WrappedField.container_types": ("safe", "types"),
    "class_diagrams/wrapped_field.py::manually_search_for_class_name": ("safe", "lru_cache keyed by a class name string, value a class"),
    "class_diagrams/class_diagram.py::ClassDiagram.get_common_role_taker_associations": ("safe", "lru_cache on a ClassDiagram method keyed by classes: holds diagrams and classes, no user instances"),
    "class_diagrams/class_diagram.py::ClassDiagram.get_role_taker_associations_of_cls": ("safe", "lru_cache on a ClassDiagram method keyed by classes"),
    "class_diagrams/class_diagram.py::ClassDiagram.get_incoming_neighbors_with_relation_type": ("safe", "lru_cache on a ClassDiagram method keyed by wrapped classes / relation types"),
    "class_diagrams/class_diagram.py::ClassDiagram.get_neighbors_with_relation_type": ("safe", "lru_cache on a ClassDiagram method keyed by wrapped classes / relation types"),
    "class_diagrams/class_diagram.py::ClassDiagram.get_out_edges": ("safe", "lru_cache on a ClassDiagram method keyed by wrapped classes"),
    "class_diagrams/class_diagram.py::ClassDiagram.get_outgoing_neighbors_with_relation_type": ("safe", "lru_cache on a ClassDiagram method keyed by wrapped classes / relation types"),
    "ormatic/dao.py::logger": ("safe", "logger"),
    "ormatic/ormatic.py::logger": ("safe", "logger"),
    "ormatic/sqlalchemy_generator.py::logger": ("safe", "logger"),
    "ormatic/wrapped_table.py::logger": ("safe", "logger"),
    "ormatic/utils.py::leaf_types": ("safe", "types"),
    "ormatic/dao.py::HasGeneric.original_class": ("safe", "lru_cache on a classmethod keyed by classes"),
    "ormatic/dao.py::get_dao_class": ("safe", "lru_cache keyed by classes"),
    "ormatic/dao.py::get_alternative_mapping": ("safe", "lru_cache keyed by classes"),
    "ormatic/wrapped_table.py::WrappedTable.parse_fields": ("safe", "lru_cache on a generator-time object (WrappedTable), no user instances"),
    "ormatic/dao.py::_repr_thread_local": ("safe", "per-thread set of ids used by __repr__, emptied in finally"),
    "adapters/json_serializer.py::list_like_classes": ("safe", "types"),
    "adapters/json_serializer.py::leaf_types": ("safe", "types"),
    "__init__.py::logger": ("safe", "logger"),
}

MUTABLE_CALLS = {"dict", "list", "set", "defaultdict", "PyDAG", "PyDiGraph", "OrderedDict", "deque", "local", "IDGenerator", "ContextVar", "ALL", "getLogger"}


def enumerate_roots():
    found = {}
    for dirpath, _, files in os.walk(os.path.join(SRC_ROOT, "krrood")):
        for fn in files:
            if not fn.endswith(".py"):
                continue
            path = os.path.join(dirpath, fn)
            rel = os.path.relpath(path, os.path.join(SRC_ROOT, "krrood"))
            tree = ast.parse(open(path).read())

            def is_mutable(v):
                if isinstance(v, (ast.Dict, ast.List, ast.Set, ast.Tuple)):
                    return not isinstance(v, ast.Tuple) or any(not isinstance(e, ast.Constant) for e in v.elts)
                if isinstance(v, ast.Call):
                    f = v.func
                    nm = f.id if isinstance(f, ast.Name) else (f.attr if isinstance(f, ast.Attribute) else "")
                    if nm == "getLogger":
                        return False          # a logger cannot hold user instances (only names, levels, handlers)
                    return nm in MUTABLE_CALLS
                return False

            def cached(node):
                for d in node.decorator_list:
                    t = d.func if isinstance(d, ast.Call) else d
                    nm = t.id if isinstance(t, ast.Name) else (t.attr if isinstance(t, ast.Attribute) else "")
                    if nm in ("lru_cache", "cache"):
                        return True
                return False
            for st in tree.body:
                if isinstance(st, ast.Assign) and is_mutable(st.value):
                    for t in st.targets:
                        if isinstance(t, ast.Name) and not (t.id.isupper() and isinstance(st.value, (ast.Tuple,))) and not t.id.startswith("__"):
                            found[f"{rel}::{t.id}"] = st.lineno
                elif isinstance(st, ast.AnnAssign) and st.value is not None and is_mutable(st.value) and isinstance(st.target, ast.Name):
                    found[f"{rel}::{st.target.id}"] = st.lineno
                elif isinstance(st, (ast.FunctionDef,)) and cached(st):
                    found[f"{rel}::{st.name}"] = st.lineno
                elif isinstance(st, ast.ClassDef):
                    for cst in st.body:
                        if isinstance(cst, ast.AnnAssign) and cst.value is not None and isinstance(cst.target, ast.Name):
                            ann = ast.unparse(cst.annotation)
                            if ann.startswith("ClassVar") and is_mutable(cst.value):
                                found[f"{rel}::{st.name}.{cst.target.id}"] = cst.lineno
                        elif isinstance(cst, ast.Assign) and is_mutable(cst.value) and all(isinstance(t, ast.Name) for t in cst.targets):
                            for t in cst.targets:
                                found[f"{rel}::{st.name}.{t.id}"] = cst.lineno
                        elif isinstance(cst, ast.FunctionDef) and cached(cst):
                            found[f"{rel}::{st.name}.{cst.name}"] = cst.lineno
    return found


def strongly_reaches(roots, target):
    """heap walk over the engine's objects; weak references are not followed"""
    seen, todo = set(), list(roots)
    while todo:
        v = todo.pop()
        if v is target:
            return True
        if id(v) in seen:
            continue
        seen.add(id(v))
        if isinstance(v, Obj):
            if getattr(v.cls, "name", "") == "weakref":
                continue
            todo.extend(v.fields.values())
        elif isinstance(v, (PyList, PySet)):
            todo.extend(v.items)
        elif isinstance(v, PyDict):
            todo.extend(v.keys.values())
            todo.extend(v.vals.values())
        elif isinstance(v, (tuple, list)):
            todo.extend(v)
    return False


def h_roots():
    def run(vm):
        ctx = vm.ctx
        found = enumerate_roots()
        ctx.inputs["roots_found"] = len(found)
        unknown = sorted(k for k in found if k not in ROOTS)
        ctx.check("roots::every-process-global-root-is-classified", z3.BoolVal(not unknown),
                  detail=f"unclassified process-global state (a new cache / registry may capture user objects): {[(k, found[k]) for k in unknown]}")
        ctx.check("roots::enumeration-is-not-vacuous", z3.BoolVal(len(found) >= 20), detail=str(len(found)))
        stale = sorted(k for k in ROOTS if k not in found)
        ctx.inputs["classified_but_gone"] = stale
    return Harness("roots", run, spec=Spec())


def concrete_graph(vm):
    """a SymbolGraph object with ordinary containers and a rustworkx stand-in that holds payloads strongly"""
    g = vm.alloc(vm.loader.cls(SG, "SymbolGraph"), {}, tag="symbol-graph")
    rg = vm.alloc(vm.ext("object"), {"nodes": PyList([]), "edges": PyList([])}, tag="PyDiGraph")
    rg.fields["add_node"] = Builtin("add_node", lambda it, fr, a, k: (rg.fields["nodes"].items.append(a[0]), len(rg.fields["nodes"].items) - 1)[1])
    rg.fields["add_edge"] = Builtin("add_edge", lambda it, fr, a, k: rg.fields["edges"].items.append(tuple(a)))
    g.fields.update({"_instance_graph": rg, "_instance_index": make_dict([]), "_relation_index": make_dict([]), "_class_diagram": Opaque("cd")})

    class DefaultDictList(Opaque):
        def __init__(self):
            super().__init__("defaultdict(list)")
            self.d = {}

        def m_getitem(self, it, k):
            from pyvc.ops import key_of
            return self.d.setdefault(key_of(k), PyList([]))
    dd = DefaultDictList()
    g.fields["_class_to_wrapped_instances"] = dd
    g.fields["__strong__"] = dd.d      # let the heap walk see into the model container
    vm.spec.stubs["SymbolGraph.__call__"] = lambda it, a, k: g
    return g, dd


def h_registration_is_weak():
    def run(vm):
        ctx = vm.ctx
        g, dd = concrete_graph(vm)
        vm.loader.add_module("pyvc_synth_c20", '''
from dataclasses import dataclass
from krrood.entity_query_language.predicate import Symbol


@dataclass(eq=False)
class Thing(Symbol):
    x: int = 0
''')
        Thing = vm.loader.cls("pyvc_synth_c20", "Thing")
        inst = vm.call(Thing, [], {})
        roots = [g] + [v for v in dd.d.values()]
        registered = len(g.fields["_instance_graph"].fields["nodes"].items) == 1
        ctx.check("Symbol.__new__::registers-the-instance", z3.BoolVal(registered))
        ctx.check("SymbolGraph.add_node::the-graph-does-not-keep-the-instance-alive", z3.BoolVal(not strongly_reaches(roots, inst)),
                  detail="the instance is strongly reachable from the symbol graph singleton")
        w = g.fields["_instance_graph"].fields["nodes"].items[0] if registered else None
        if w is not None:
            ctx.check("WrappedInstance::can-still-dereference-while-alive", z3.BoolVal(vm._getattr(w, "instance") is inst))
        # a relation between two instances holds wrappers, not instances
        other = vm.call(Thing, [], {})
        fld = vm.alloc(vm.ext("object"), {"name": "f"}, tag="field")
        rel = vm.call(vm.loader.cls(SG, "PredicateClassRelation"), [inst, other, fld], {})
        ctx.check("PredicateClassRelation::holds-wrappers-not-instances", z3.BoolVal(not strongly_reaches([rel], inst) and not strongly_reaches([rel], other)))
        vm.call_method(g, "add_relation", rel)
        ctx.check("SymbolGraph.add_relation::the-graph-does-not-keep-related-instances-alive",
                  z3.BoolVal(not strongly_reaches([g] + list(dd.d.values()), inst) and not strongly_reaches([g] + list(dd.d.values()), other)))
    return Harness("registration-is-weak", run, spec=Spec())


def h_monitored_container_is_weak():
    def run(vm):
        ctx = vm.ctx
        owner = vm.alloc(vm.ext("object"), {}, tag="owner")
        value = vm.alloc(vm.ext("object"), {}, tag="inferred-value")
        desc = vm.alloc(vm.ext("object"), {}, tag="descriptor")
        desc.fields["add_relation_to_the_graph"] = Builtin("add_relation_to_the_graph", lambda it, fr, a, k: None)
        ML = vm.loader.cls(MC, "MonitoredList")
        c = vm.call(ML, [], {"descriptor": desc})
        vm.call_method(c, "_bind_owner", owner)
        ctx.check("MonitoredContainer._bind_owner::the-container-holds-its-owner-weakly", z3.BoolVal(not strongly_reaches([c], owner) and vm._getattr(c, "_owner") is owner))
        vm.call_method(c, "_add_item", value, inferred=True)
        ctx.check("MonitoredContainer._on_add::inferred-values-are-held-weakly", z3.BoolVal(not strongly_reaches([c], value)))
        direct = vm.alloc(vm.ext("object"), {}, tag="asserted-value")
        vm.call_method(c, "_add_item", direct, inferred=False)
        ctx.check("MonitoredContainer._on_add::asserted-values-are-stored-as-given", z3.BoolVal(strongly_reaches([c], direct)))
    return Harness("monitored-container-is-weak", run, spec=Spec())


def h_singleton():
    def run(vm):
        ctx = vm.ctx
        SM = vm.loader.cls("krrood.singleton", "SingletonMeta")
        SM.class_attr_vals["_instances"] = make_dict([])
        REG = vm.loader.cls("krrood.adapters.json_serializer", "JSONSerializableTypeRegistry")
        a = vm.call(REG, [], {})
        b = vm.call(REG, [], {})
        ctx.check("SingletonMeta.__call__::one-instance-per-class", z3.BoolVal(a is b and len(SM.class_attr_vals["_instances"].keys) == 1))
        vm.call(vm._getattr(SM, "clear_instance"), [REG], {})
        ctx.check("SingletonMeta.clear_instance::releases-the-instance", z3.BoolVal(len(SM.class_attr_vals["_instances"].keys) == 0 and not strongly_reaches([SM.class_attr_vals["_instances"]], a)))
    return Harness("singleton", run, spec=Spec())


def h_canary():
    def run(vm):
        g, dd = concrete_graph(vm)
        inst = vm.alloc(vm.ext("object"), {}, tag="instance")
        g.fields["_instance_index"] = make_dict([(1, inst)])
        # deliberately false: claims an instance stored in the index is not reachable from the graph
        vm.ctx.check("CANARY", z3.BoolVal(not strongly_reaches([g], inst)))
    return Harness("canary", run, expect_fail=True)


def harnesses():
    from .C13 import h_sweep          # reclaiming the bookkeeping of dead instances is the sweep's contract (C13's module)
    return [h_sweep(), h_roots(), h_registration_is_weak(), h_monitored_container_is_weak(), h_singleton(), h_canary()]
