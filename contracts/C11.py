"""C11 — pattern matching is equivalent to the explicit query it abbreviates.

Builder-dispatch obligations on match.py: for every combination of (attribute is a collection?, assigned value is a
collection?, universal?, existential?) the condition node that AttributeAssignment builds must be the one the property's
reading prescribes (literal: equality, membership for collection attributes; match_any: a common element; match_all: the
same set of elements; existential wrapper), `resolve` flattens a collection attribute exactly when the nested match constrains
it and adds a type filter exactly for a strict subtype / unknown attribute type, the public constructors plumb the flags, and
Match.expression selects the matched variable (entity) or the selected parts (set_of) with all conditions.  The denotation of
the produced nodes is C01's subject (Comparator, Flatten, Exists contracts); the known Exists finding is shared with C01.
"""
from __future__ import annotations
import itertools
import z3

from pyvc.framework import Harness
from pyvc.interp import Spec, PyRaise, INLINE
from pyvc.values import Obj, PyList, PySet, Builtin, Opaque, PyDict
from pyvc.ops import make_dict, dict_items

PROPERTY = "C11"
MATCH = "krrood.entity_query_language.match"
SYM = "krrood.entity_query_language.symbolic"
FUNCTIONS = [(MATCH, "AttributeAssignment.infer_condition_between_attribute_and_assigned_value"), (MATCH, "AttributeAssignment.resolve"),
             (MATCH, "AttributeAssignment.assigned_variable"), (MATCH, "AttributeAssignment.is_iterable_value"),
             (MATCH, "AttributeAssignment.is_type_filter_needed"), (MATCH, "AttributeAssignment.is_an_unresolved_match"),
             (MATCH, "Match._resolve"), (MATCH, "Match._update_fields"), (MATCH, "Match._update_selected_variables"), (MATCH, "Match.expression"),
             (MATCH, "Match.__call__"), (MATCH, "entity_matching"), (MATCH, "entity_selection"), (MATCH, "match"), (MATCH, "match_any"),
             (MATCH, "match_all"), (MATCH, "select"), (MATCH, "select_any"), (MATCH, "select_all")]
ASSUMPTIONS = [
    "the condition nodes produced (Comparator with contains / ==, Flatten, Exists, HasType) denote what C01 proves or lists for them",
    "Attribute._is_iterable_ / _type_ / _wrapped_field_ report the declared field type (C17)",
]
TRUSTED = ["C01 operator contracts for the denotation of the produced nodes"]
BOUNDED_ONLY_CLAUSES = ["equivalence of whole patterns with a direct Python predicate is decided by the bounded driver; match_any inherits the Exists finding"]


def cls(vm, mod, name):
    return vm.loader.cls(mod, name)


def install_builders(vm, log):
    """the EQL vocabulary used by match.py answers with tokens that record how it was called"""
    def tok(name):
        def f(it, a, k):
            t = it.alloc(cls(it, SYM, "SymbolicExpression"), {"built": name, "args": list(a), "kwargs": dict(k), "_is_iterable_": False}, tag=f"<{name}>")
            log.append(t)
            return t
        return f
    ENT = "krrood.entity_query_language.entity"
    for n in ("contains", "in_", "flatten", "exists", "entity", "set_of", "let"):
        vm.spec.stubs[f"{ENT}:{n}"] = tok(n)
    vm.spec.stubs["Comparator.__call__"] = lambda it, a, k: tok("Comparator")(it, a[1:], k)
    vm.spec.stubs["HasType.__call__"] = lambda it, a, k: tok("HasType")(it, a[1:], k)
    vm.spec.stubs["Literal.__call__"] = lambda it, a, k: tok("Literal")(it, a[1:], k)


def attr_obj(vm, iterable, type_=None, wrapped=True):
    return vm.alloc(cls(vm, SYM, "Attribute"), {"_is_iterable_": iterable, "_type_": type_, "_wrapped_field_": wrapped or None, "_id_": 50, "_var_": None}, tag=f"attr[{'collection' if iterable else 'scalar'}]")


def h_infer_condition():
    def run(vm):
        ctx = vm.ctx
        log = []
        install_builders(vm, log)
        AA = cls(vm, MATCH, "AttributeAssignment")
        M = cls(vm, MATCH, "Match")
        Var = cls(vm, SYM, "Variable")
        eq_op = vm.loader.external("operator", "eq")
        for attr_it in (False, True):
            values = []
            values.append(("literal-scalar", 7, False, False, False))
            values.append(("literal-list", PyList([1, 2]), True, False, False))
            values.append(("variable-scalar", vm.alloc(Var, {"_is_iterable_": False, "_id_": 60}, tag="var"), False, False, False))
            values.append(("variable-collection", vm.alloc(Var, {"_is_iterable_": True, "_id_": 61}, tag="var-coll"), True, False, False))
            for val_it, universal, existential in itertools.product((False, True), (False, True), (False, True)):
                mv = vm.alloc(Var, {"_is_iterable_": val_it, "_id_": 62}, tag="match-variable")
                m = vm.alloc(M, {"variable": mv, "universal": universal, "existential": existential, "kwargs": make_dict([]), "type_": None}, tag="match")
                values.append((f"match[{'collection' if val_it else 'scalar'}{',universal' if universal else ''}{',existential' if existential else ''}]", m, val_it, universal, existential))
                # the selecting forms mean the same (a Select reports the attribute it constrains: its _var_ is that attribute)
                sv = vm.alloc(Var, {"_is_iterable_": val_it, "_id_": 63}, tag="select-variable")
                sm = vm.alloc(cls(vm, MATCH, "Select"), {"variable": sv, "universal": universal, "existential": existential, "kwargs": make_dict([]), "type_": None,
                                                         "is_selected": True, "_var_": None}, tag="select")
                values.append((f"select[{'collection' if val_it else 'scalar'}{',universal' if universal else ''}{',existential' if existential else ''}]", sm, val_it, universal, existential))
            for label, value, val_it, universal, existential in values:
                attr = attr_obj(vm, attr_it)
                if isinstance(value, Obj) and value.cls.name == "Select":
                    value.fields["_var_"] = attr
                aa = vm.alloc(AA, {"attr_name": "f", "variable": None, "assigned_value": value, "conditions": PyList([]), "attr": attr}, tag="assignment")
                del log[:]
                try:
                    r = vm.call_method(aa, "infer_condition_between_attribute_and_assigned_value")
                except PyRaise as pr:
                    ctx.fail("AttributeAssignment.infer_condition::builds-a-condition", detail=f"{label}: {pr.exc!r}")
                    continue
                target = value.fields["variable"] if isinstance(value, Obj) and value.cls.name in ("Match", "Select") else value
                core = r
                if existential:
                    ok_ex = isinstance(r, Obj) and r.fields.get("built") == "exists" and r.fields["args"][0] is attr
                    ctx.check("AttributeAssignment.infer_condition::existential-match-wraps-the-condition-in-exists-over-the-attribute", z3.BoolVal(bool(ok_ex)),
                              detail=f"attr {'collection' if attr_it else 'scalar'} = {label}: {r!r}")
                    core = r.fields["args"][1] if ok_ex else None
                else:
                    ctx.check("AttributeAssignment.infer_condition::no-exists-without-the-existential-flag",
                              z3.BoolVal(not (isinstance(r, Obj) and r.fields.get("built") == "exists")), detail=label)
                built = core.fields.get("built") if isinstance(core, Obj) else None
                args = core.fields.get("args") if isinstance(core, Obj) else None
                if attr_it and not val_it:
                    ok = built == "contains" and args[0] is attr and args[1] is target            # membership of the value in the collection attribute
                    clause = "literal-or-element-of-a-collection-attribute-means-membership"
                elif not attr_it and val_it:
                    ok = built == "in_" and args[0] is attr and args[1] is target                 # the attribute value is one of the given values
                    clause = "scalar-attribute-against-a-collection-means-one-of"
                elif attr_it and val_it and not universal:
                    ok = (built == "contains" and args[0] is target and isinstance(args[1], Obj) and args[1].fields.get("built") == "flatten"
                          and args[1].fields["args"][0] is attr)                                  # some element of the attribute is among the given ones
                    clause = "collection-against-collection-means-a-common-element"
                else:
                    ok = built == "Comparator" and args[0] is attr and args[1] is target and args[2] is eq_op   # equality (set equality for collections)
                    clause = "equality-for-scalars-and-same-elements-for-match_all"
                ctx.check(f"AttributeAssignment.infer_condition::{clause}", z3.BoolVal(bool(ok)),
                          detail=f"attr {'collection' if attr_it else 'scalar'} = {label}: built {built} {args!r}")
    return Harness("infer-condition", run, spec=Spec())


def h_resolve():
    """resolve(): flatten iff the attribute is a collection and the nested match constrains it (kwargs or type filter); HasType iff the
    nested type is a strict subtype of the attribute type or the attribute type is unknown; nested conditions are appended."""
    def run(vm):
        ctx = vm.ctx
        log = []
        install_builders(vm, log)
        AA = cls(vm, MATCH, "AttributeAssignment")
        M = cls(vm, MATCH, "Match")
        Base = cls(vm, SYM, "LogicalOperator")           # any class pair with a strict subclass relation serves as attribute / nested types
        Sub = cls(vm, SYM, "Not")
        Other = cls(vm, SYM, "Literal")
        S = cls(vm, MATCH, "Select")
        for NestedCls, attr_it, attr_type, nested_type, has_kwargs in itertools.product((M, S), (False, True), (None, Base, Sub), (None, Base, Sub, Other), (False, True)):
            attr = attr_obj(vm, attr_it, attr_type)
            nested_cond = vm.alloc(cls(vm, SYM, "SymbolicExpression"), {}, tag="nested-condition")
            resolved_with = []

            def fake_resolve(it, a, k, _rw=resolved_with):
                _rw.append((a[1], a[2]))
                a[0].fields["conditions"] = PyList([nested_cond])
                a[0].fields["variable"] = a[1]
                return None
            vm.spec.stubs["Match._resolve"] = fake_resolve
            m = vm.alloc(NestedCls, {"variable": None, "universal": False, "existential": False, "type_": nested_type, "conditions": PyList([]),
                             "kwargs": make_dict([("x", 1)] if has_kwargs else [])}, tag="nested-match" if NestedCls is M else "nested-select")
            if NestedCls is S:
                m.fields["_var_"] = attr          # set by the enclosing match before it resolves the selection
                m.fields["is_selected"] = True
            parent = vm.alloc(M, {}, tag="parent-match")
            aa = vm.alloc(AA, {"attr_name": "f", "variable": None, "assigned_value": m, "conditions": PyList([]), "attr": attr}, tag="assignment")
            del log[:]
            try:
                vm.call_method(aa, "resolve", parent)
            except PyRaise as pr:
                if nested_type is Other and attr_type is not None:
                    continue      # issubclass of unrelated classes is fine; any exception here would be a failure below
                ctx.fail("AttributeAssignment.resolve::no-exception", detail=f"{pr.exc!r}")
                continue
            type_filter = (attr_type is None) or (nested_type is not None and nested_type is not attr_type and vm.is_subclass(nested_type, attr_type))
            want_flatten = attr_it and (has_kwargs or type_filter)
            used = resolved_with[0][0] if resolved_with else None
            flattened = isinstance(used, Obj) and used.fields.get("built") == "flatten" and used.fields["args"][0] is attr
            label = f"{NestedCls.name} attr={'collection' if attr_it else 'scalar'}:{getattr(attr_type, 'name', None)} nested={getattr(nested_type, 'name', None)} kwargs={has_kwargs}"
            ctx.check("Match._resolve::the-requested-type-and-flags-of-a-pattern-are-not-rewritten-by-resolving-it",
                      z3.BoolVal(m.fields.get("type_") is nested_type and m.fields.get("universal") is False and m.fields.get("existential") is False), detail=f"{label}: type_={m.fields.get('type_')!r}")
            ctx.check("AttributeAssignment.resolve::flattens-a-collection-attribute-exactly-when-the-nested-match-constrains-it",
                      z3.BoolVal(flattened == want_flatten and (flattened or used is attr) and resolved_with and resolved_with[0][1] is parent), detail=label)
            conds = aa.fields["conditions"].items
            has = [c for c in conds if isinstance(c, Obj) and c.fields.get("built") == "HasType"]
            ok_t = (len(has) == 1 and has[0].fields["args"][0] is used and has[0].fields["args"][1] is nested_type) if type_filter else not has
            ctx.check("AttributeAssignment.resolve::type-filter-exactly-for-a-strict-subtype-or-an-untyped-attribute", z3.BoolVal(bool(ok_t)), detail=f"{label}: {conds}")
            ctx.check("AttributeAssignment.resolve::nested-conditions-are-kept", z3.BoolVal(any(c is nested_cond for c in conds)), detail=label)
    return Harness("resolve", run, spec=Spec())


def h_constructors():
    def run(vm):
        ctx = vm.ctx
        log = []
        install_builders(vm, log)
        M, S = cls(vm, MATCH, "Match"), cls(vm, MATCH, "Select")
        T = cls(vm, SYM, "Not")
        g = lambda n: vm.module_global(MATCH, n)
        table = [("match", M, False, False, False), ("match_any", M, True, False, False), ("match_all", M, False, True, False),
                 ("select", S, False, False, True), ("select_any", S, True, False, True), ("select_all", S, False, True, True)]
        for name, C, ex, un, sel in table:
            r = vm.call(g(name), [T], {})
            ok = (isinstance(r, Obj) and r.cls is C and r.fields.get("type_") is T and r.fields.get("existential") is ex and r.fields.get("universal") is un
                  and r.fields.get("is_selected") is sel and r.fields.get("domain") is None and r.fields.get("variable") is None)
            ctx.check("match-constructors::flags-and-type-are-plumbed", z3.BoolVal(bool(ok)), detail=f"{name}: {r.fields if isinstance(r, Obj) else r}")
        dom = PyList([1, 2])
        r = vm.call(g("entity_matching"), [T, dom], {})
        ctx.check("entity_matching::keeps-the-domain", z3.BoolVal(r.fields.get("domain") is dom and r.cls is M))
        r = vm.call(g("entity_selection"), [T, dom], {})
        ctx.check("entity_selection::keeps-the-domain-and-selects", z3.BoolVal(r.fields.get("domain") is dom and r.cls is S and r.fields.get("is_selected") is True))
        # a literal (e.g. a list of objects) becomes a Match over a Literal variable
        lit = PyList([1])
        r = vm.call(g("match_any"), [lit], {})
        v = r.fields.get("variable")
        ctx.check("match_any::a-literal-argument-becomes-a-literal-variable", z3.BoolVal(isinstance(v, Obj) and v.fields.get("built") == "Literal" and v.fields["args"][0] is lit and r.fields.get("existential") is True))
        # __call__ records the keyword constraints
        m = vm.call(g("match"), [T], {})
        m2 = vm.call(m, [], {"a": 1, "b": 2})
        ctx.check("Match.__call__::records-the-keyword-constraints", z3.BoolVal(m2 is m and [k for k, _ in dict_items(m.fields["kwargs"])] == ["a", "b"]))
        # every literal is a constraint, also None / 0 / False / "" / an empty list (attribute == that value)
        emp = PyList([])
        given = {"a": None, "b": 0, "c": False, "d": "", "e": emp, "f": 7}
        m3 = vm.call(vm.call(g("select"), [T], {}), [], dict(given))
        got = dict(dict_items(m3.fields["kwargs"]))
        ctx.check("Match.__call__::every-keyword-is-a-constraint-whatever-its-value", z3.BoolVal(sorted(got) == sorted(given) and all((got[k] is given[k]) or (isinstance(given[k], PyList) and isinstance(got[k], PyList) and got[k].items == given[k].items)
                                                                             or (not isinstance(given[k], PyList) and type(got[k]) is type(given[k]) and got[k] == given[k]) for k in given)), detail=repr(got))
    return Harness("constructors", run, spec=Spec())


def h_expression():
    """Match.expression: entity(matched variable, *conditions) unless parts are selected, then set_of(selected parts, *conditions)."""
    def run(vm):
        ctx = vm.ctx
        log = []
        install_builders(vm, log)
        M = cls(vm, MATCH, "Match")
        c1 = vm.alloc(cls(vm, SYM, "SymbolicExpression"), {}, tag="c1")
        c2 = vm.alloc(cls(vm, SYM, "SymbolicExpression"), {}, tag="c2")
        var = vm.alloc(cls(vm, SYM, "Variable"), {"_id_": 1, "_type_": None}, tag="matched-variable")
        s1 = vm.alloc(cls(vm, SYM, "Variable"), {"_id_": 2}, tag="selected-1")
        s2 = vm.alloc(cls(vm, SYM, "Variable"), {"_id_": 3}, tag="selected-2")
        for selected in ([], [s1], [s1, s2]):
            def fake_resolve(it, a, k):
                a[0].fields["variable"] = var
                a[0].fields["conditions"] = PyList([c1, c2])
                a[0].fields["selected_variables"] = PyList(list(selected))
            vm.spec.stubs["Match._resolve"] = fake_resolve
            m = vm.alloc(M, {"variable": None, "conditions": PyList([]), "selected_variables": PyList([]), "kwargs": make_dict([])}, tag="match")
            r = vm._getattr(m, "expression")
            if len(selected) > 1:
                ok = r.fields.get("built") == "set_of" and r.fields["args"][0].items == selected and r.fields["args"][1:] == [c1, c2]
            else:
                want = selected[0] if selected else var
                ok = r.fields.get("built") == "entity" and r.fields["args"][0] is want and r.fields["args"][1:] == [c1, c2]
            ctx.check("Match.expression::selects-the-matched-element-or-the-selected-parts-with-all-conditions", z3.BoolVal(bool(ok)), detail=f"{selected}: {r.fields}")
    return Harness("expression", run, spec=Spec())


def h_selected_variables():
    """a selection made at any nesting depth is registered once at the ROOT match (that is what the query reports)."""
    def run(vm):
        ctx = vm.ctx
        M = cls(vm, MATCH, "Match")
        for depth in (1, 2, 3, 4):
            chain = []
            parent = None
            for i in range(depth):
                m = vm.alloc(M, {"parent": parent, "selected_variables": PyList([])}, tag=f"match-level-{i}")
                chain.append(m)
                parent = m
            v1 = vm.alloc(cls(vm, SYM, "Variable"), {"_id_": 1}, tag="selected-1")
            v2 = vm.alloc(cls(vm, SYM, "Variable"), {"_id_": 2}, tag="selected-2")
            leaf = chain[-1]
            vm.call_method(leaf, "_update_selected_variables", v1)
            vm.call_method(leaf, "_update_selected_variables", v2)
            vm.call_method(leaf, "_update_selected_variables", v1)
            ok = chain[0].fields["selected_variables"].items == [v1, v2] and all(not m.fields["selected_variables"].items for m in chain[1:])
            ctx.check("Match._update_selected_variables::registered-once-at-the-root-match-whatever-the-depth", z3.BoolVal(ok),
                      detail=f"depth {depth}: {[m.fields['selected_variables'].items for m in chain]}")
    return Harness("selected-variables", run, spec=Spec())


def h_canary():
    def run(vm):
        log = []
        install_builders(vm, log)
        AA = cls(vm, MATCH, "AttributeAssignment")
        attr = attr_obj(vm, True)
        aa = vm.alloc(AA, {"attr_name": "f", "variable": None, "assigned_value": 7, "conditions": PyList([]), "attr": attr}, tag="assignment")
        r = vm.call_method(aa, "infer_condition_between_attribute_and_assigned_value")
        # deliberately false: claims a literal against a collection attribute is compared with ==
        vm.ctx.check("CANARY", z3.BoolVal(r.fields.get("built") == "Comparator"))
    return Harness("canary", run, expect_fail=True)


def _selected_parts_are_consistent():
    """the rows of a selecting pattern: every selected expression is evaluated under ALL bindings of the ones before it (C01's
    cover lemma of the query descriptor on the same real QueryObjectDescriptor code)"""
    from . import C01, C10
    # ... and a nested match over a collection attribute looks at EVERY element of the collection (Flatten reports each once)
    return [h for h in C01.harnesses() if h.name.startswith("query-descriptor[")] + [h for h in C10.harnesses() if h.name == "streaming-Flatten"]


def harnesses():
    return [h_infer_condition(), h_resolve(), h_constructors(), h_expression(), h_selected_variables()] + _selected_parts_are_consistent() + [h_canary()]
