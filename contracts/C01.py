"""C01 — EQL answers are exactly the satisfying assignments: step lemmas of the cover contract per operator class.

For every operator its real `_evaluate__` body (and the helpers it calls) is executed symbolically with abstract children
(contracts instantiated at the call sites, eqlmodel.py); per yield site: Ext and Sound; over the set of yield clauses
collected from all paths: Complete (and Unique, which C02 uses).  Composition over expression trees is by structural
induction (DESIGN §3 C01); the bounded stand-in compares whole queries with a brute-force oracle.
"""
from __future__ import annotations
import z3

from pyvc.framework import Harness
from pyvc.interp import Spec, PyRaise, INLINE
from pyvc.ctx import PathEnd
from pyvc.values import Obj, SBool, STerm
from .eqlmodel import (EqlWorld, Bnd, SYM, Bs, Ts, Os, Vs, ext, sub, bound, get, tval, truthy, check_cover_per_yield, finalize_cover,
                       call_hypotheses, flag_term)

PROPERTY = "C01"
FUNCTIONS = [(SYM, "AND._evaluate__"), (SYM, "AND.evaluate_right"), (SYM, "OR.evaluate_left"), (SYM, "OR.evaluate_right"),
             (SYM, "Union._evaluate__"), (SYM, "ElseIf._evaluate__"), (SYM, "Not._evaluate__")]
ASSUMPTIONS = [
    "children satisfy the cover contract (induction hypothesis of the structural induction over the expression tree)",
    "`sources or {}` denotes the same map as sources; bindings dictionaries are abstract maps (eqlmodel.Bnd)",
    "expressions are tree-shaped and role-consistent: a node object occurs once on an evaluation path (stale per-node flags "
    "of shared nodes are C03's subject; the bounded driver covers shared sub-expressions)",
    "getattr / operators / predicates on user values are total pure functions",
]
TRUSTED = ["structural-induction composition lemma (argued in DESIGN §3 C01, not mechanised)"]

H = {
    "AND": lambda L, R: (lambda t: z3.And(L.h(t), R.h(t))),
    "ElseIf": lambda L, R: (lambda t: z3.Or(L.h(t), R.h(t))),
    "Union": lambda L, R: (lambda t: z3.Or(L.h(t), R.h(t))),
}


def binary_harness(cname, unique):
    prefix = f"{cname}._evaluate__"

    def run(vm):
        ctx = vm.ctx
        world = EqlWorld(vm)
        left = world.child("left", 11)
        right = world.child("right", 12)
        node = vm.alloc(vm.loader.cls(SYM, cname), {"left": left, "right": right, "_id_": 10, "_is_false_": False, "_eval_parent_": None,
                                                    "left_evaluated": False, "right_evaluated": False, "_conclusion_": None}, tag=cname)
        world.node = node
        h = H[cname](world.children["left"], world.children["right"])
        gen = vm.call_method(node, "_evaluate__", Bnd(world.sigma0, world))
        for res in vm.iterate(gen):
            ctx.cover("yielded")
            cl = world.record(vm, res)
            check_cover_per_yield(vm, world, cl, h, prefix)
            ctx.check(f"{prefix}::result-names-the-node-as-operand", z3.BoolVal(res.fields.get("operand") is node))
    def fin(ctxs):
        worlds = [c.world for c in ctxs if hasattr(c, "world")]
        clauses = [cl for w in worlds for cl in w.clauses]
        if not worlds:
            return []
        sigma0 = worlds[0].sigma0
        shared = [sigma0]
        hyps = call_hypotheses(worlds, shared)
        return finalize_cover(clauses, sigma0, shared, prefix, want_unique=unique, hyps=hyps)
    return Harness(f"cover-{cname}", run, spec=Spec(), covers=["yielded"], finalize=fin, timeout_ms=3000, retry_unknown=False)


def not_harness():
    prefix = "Not._evaluate__"

    def run(vm):
        ctx = vm.ctx
        world = EqlWorld(vm)
        child = world.child("child", 11)
        node = vm.alloc(vm.loader.cls(SYM, "Not"), {"_child_": child, "_id_": 10, "_is_false_": False, "_eval_parent_": None, "_conclusion_": None}, tag="Not")
        h = lambda t: z3.Not(world.children["child"].h(t))
        gen = vm.call_method(node, "_evaluate__", Bnd(world.sigma0, world))
        for res in vm.iterate(gen):
            ctx.cover("yielded")
            cl = world.record(vm, res)
            check_cover_per_yield(vm, world, cl, h, prefix)

    def fin(ctxs):
        worlds = [c.world for c in ctxs if hasattr(c, "world")]
        clauses = [cl for w in worlds for cl in w.clauses]
        if not worlds:
            return []
        sigma0 = worlds[0].sigma0
        return finalize_cover(clauses, sigma0, [sigma0], prefix, want_unique=True, hyps=call_hypotheses(worlds, [sigma0]))
    return Harness("cover-Not", run, spec=Spec(), covers=["yielded"], finalize=fin, timeout_ms=3000, retry_unknown=False)


def h_canary():
    def run(vm):
        ctx = vm.ctx
        world = EqlWorld(vm)
        left = world.child("left", 11)
        right = world.child("right", 12)
        node = vm.alloc(vm.loader.cls(SYM, "AND"), {"left": left, "right": right, "_id_": 10, "_is_false_": False, "_eval_parent_": None}, tag="AND")
        # deliberately false: claims AND is a disjunction
        h = lambda t: z3.Or(world.children["left"].h(t), world.children["right"].h(t))
        for res in vm.iterate(vm.call_method(node, "_evaluate__", Bnd(world.sigma0, world))):
            check_cover_per_yield(vm, world, world.record(vm, res), h, "CANARY")
    return Harness("canary", run, expect_fail=True, timeout_ms=2000, retry_unknown=False)


def harnesses():
    return [binary_harness("AND", True), binary_harness("ElseIf", True), binary_harness("Union", False), not_harness(), h_canary()]
