"""C01 — EQL answers are exactly the satisfying assignments: step lemmas of the cover contract per operator class.

For every operator its real `_evaluate__` body (and the helpers it calls) is executed symbolically with abstract children
(contracts instantiated at the call sites, eqlmodel.py); per yield site: Ext and Sound; over the set of yield clauses
collected from all paths: Complete (and Unique, which C02 uses).  Composition over expression trees is by structural
induction (DESIGN §3 C01); the bounded stand-in compares whole queries with a brute-force oracle.
"""
from __future__ import annotations
import z3

from pyvc.framework import Harness
from pyvc.interp import Spec, PyRaise, INLINE
from pyvc.ctx import PathEnd
from pyvc.values import Obj, SBool, STerm
from .eqlmodel import (EqlWorld, Bnd, SYM, Bs, Ts, Os, Vs, ext, sub, bound, get, tval, truthy, check_cover_per_yield, finalize_cover,
                       call_hypotheses, flag_term)

PROPERTY = "C01"
FUNCTIONS = [(SYM, "AND._evaluate__"), (SYM, "AND.evaluate_right"), (SYM, "OR.evaluate_left"), (SYM, "OR.evaluate_right"),
             (SYM, "Union._evaluate__"), (SYM, "ElseIf._evaluate__"), (SYM, "Not._evaluate__")]
ASSUMPTIONS = [
    "children satisfy the cover contract (induction hypothesis of the structural induction over the expression tree)",
    "`sources or {}` denotes the same map as sources; bindings dictionaries are abstract maps (eqlmodel.Bnd)",
    "expressions are tree-shaped and role-consistent: a node object occurs once on an evaluation path (stale per-node flags "
    "of shared nodes are C03's subject; the bounded driver covers shared sub-expressions)",
    "getattr / operators / predicates on user values are total pure functions",
]
TRUSTED = ["structural-induction composition lemma (argued in DESIGN §3 C01, not mechanised)"]

H = {
    "AND": lambda L, R: (lambda t: z3.And(L.h(t), R.h(t))),
    "ElseIf": lambda L, R: (lambda t: z3.Or(L.h(t), R.h(t))),
    "Union": lambda L, R: (lambda t: z3.Or(L.h(t), R.h(t))),
}


def check_snapshot(vm, node, res, prefix):
    """the snapshot rule the rule selectors rely on: a CONDITION node records on itself (_is_false_) the flag of the result it yields,
    before it yields (selectors read the truth of their operands off the nodes)"""
    nf, rf = node.fields.get("_is_false_"), res.fields["is_false"]
    from pyvc.ops import zbool
    vm.ctx.check(f"{prefix}::a-condition-node-records-the-flag-it-yields", zbool(nf) == zbool(rf) if nf is not None else z3.BoolVal(False), detail=f"node {nf!r}, result {rf!r}")


def binary_harness(cname, unique, below=None):
    """below: the class of the node that evaluates this one (None: evaluated directly); the cover contract of a node does not
    depend on who asks"""
    prefix = f"{cname}._evaluate__"

    def run(vm):
        ctx = vm.ctx
        world = EqlWorld(vm)
        left = world.child("left", 11)
        right = world.child("right", 12)
        node = vm.alloc(vm.loader.cls(SYM, cname), {"left": left, "right": right, "_id_": 10, "_is_false_": False, "_eval_parent_": None,
                                                    "left_evaluated": False, "right_evaluated": False, "_conclusion_": None}, tag=cname)
        world.node = node
        h = H[cname](world.children["left"], world.children["right"])
        gen = vm.call_method(node, "_evaluate__", Bnd(world.sigma0, world)) if below is None else \
            vm.call(vm._getattr(node, "_evaluate__"), [Bnd(world.sigma0, world)], {"parent": condition_parent(vm, below)})
        for res in vm.iterate(gen):
            ctx.cover("yielded")
            cl = world.record(vm, res)
            check_cover_per_yield(vm, world, cl, h, prefix)
            check_snapshot(vm, node, res, prefix)
            ctx.check(f"{prefix}::result-names-the-node-as-operand", z3.BoolVal(res.fields.get("operand") is node))
    def fin(ctxs):
        worlds = [c.world for c in ctxs if hasattr(c, "world")]
        clauses = [cl for w in worlds for cl in w.clauses]
        if not worlds:
            return []
        sigma0 = worlds[0].sigma0
        shared = [sigma0]
        hyps = call_hypotheses(worlds, shared)
        return finalize_cover(clauses, sigma0, shared, prefix, want_unique=unique, hyps=hyps)
    return Harness(f"cover-{cname}" if below is None else f"cover-{cname}<{below}", run, spec=Spec(), covers=["yielded"], finalize=fin, timeout_ms=3000, retry_unknown=False, ematching_only=True)


def not_harness(below=None):
    prefix = "Not._evaluate__"

    def run(vm):
        ctx = vm.ctx
        world = EqlWorld(vm)
        child = world.child("child", 11)
        node = vm.alloc(vm.loader.cls(SYM, "Not"), {"_child_": child, "_id_": 10, "_is_false_": False, "_eval_parent_": None, "_conclusion_": None}, tag="Not")
        h = lambda t: z3.Not(world.children["child"].h(t))
        gen = vm.call_method(node, "_evaluate__", Bnd(world.sigma0, world)) if below is None else \
            vm.call(vm._getattr(node, "_evaluate__"), [Bnd(world.sigma0, world)], {"parent": condition_parent(vm, below)})
        for res in vm.iterate(gen):
            ctx.cover("yielded")
            cl = world.record(vm, res)
            check_cover_per_yield(vm, world, cl, h, prefix)
            check_snapshot(vm, node, res, prefix)

    def fin(ctxs):
        worlds = [c.world for c in ctxs if hasattr(c, "world")]
        clauses = [cl for w in worlds for cl in w.clauses]
        if not worlds:
            return []
        sigma0 = worlds[0].sigma0
        return finalize_cover(clauses, sigma0, [sigma0], prefix, want_unique=True, hyps=call_hypotheses(worlds, [sigma0]))
    return Harness("cover-Not" if below is None else f"cover-Not<{below}", run, spec=Spec(), covers=["yielded"], finalize=fin, timeout_ms=3000, retry_unknown=False, ematching_only=True)


def h_canary():
    def run(vm):
        ctx = vm.ctx
        world = EqlWorld(vm)
        left = world.child("left", 11)
        right = world.child("right", 12)
        node = vm.alloc(vm.loader.cls(SYM, "AND"), {"left": left, "right": right, "_id_": 10, "_is_false_": False, "_eval_parent_": None}, tag="AND")
        # deliberately false: claims AND is a disjunction
        h = lambda t: z3.Or(world.children["left"].h(t), world.children["right"].h(t))
        for res in vm.iterate(vm.call_method(node, "_evaluate__", Bnd(world.sigma0, world))):
            check_cover_per_yield(vm, world, world.record(vm, res), h, "CANARY")
    return Harness("canary", run, expect_fail=True, timeout_ms=2000, retry_unknown=False, ematching_only=True)


def harnesses():
    return [binary_harness("AND", True), binary_harness("ElseIf", True), binary_harness("Union", False), not_harness(), h_canary()]


# ====================================================================== stage B: operands, comparator, query descriptor
from pyvc.values import Opaque, Builtin, PyList, PySet
from pyvc.ops import make_dict
from .eqlmodel import vid, boolval, iterable, HD

FUNCTIONS += [(SYM, "Comparator._evaluate__"), (SYM, "Comparator.apply_operation"), (SYM, "Comparator.get_first_second_operands"),
              (SYM, "Variable._evaluate__"), (SYM, "DomainMapping._evaluate__"),
              (SYM, "DomainMapping._build_operation_result_and_update_truth_value_"), (SYM, "Attribute._apply_mapping_"), (SYM, "Index._apply_mapping_"), (SYM, "Call._apply_mapping_"),
              (SYM, "QueryObjectDescriptor._evaluate__"), (SYM, "QueryObjectDescriptor.get_constrained_values"),
              (SYM, "QueryObjectDescriptor.evaluate_selected_variables"), (SYM, "QueryObjectDescriptor._evaluate_selected_variables_from_"),
              (SYM, "QueryObjectDescriptor.evaluate_conclusions_and_update_bindings"),
              (SYM, "QueryObjectDescriptor.any_selected_variable_is_inferred_and_unbound"),
              (SYM, "ResultQuantifier._process_result_"), (SYM, "optimize_or"), (SYM, "SymbolicExpression._invert_"),
              (SYM, "ForAll._invert_"), (SYM, "Exists._invert_"), (SYM, "ResultQuantifier._invert_"), (SYM, "QueryObjectDescriptor._invert_"),
              (HD, "HashedValue.__post_init__")]
BOUNDED_ONLY_CLAUSES = ["ForAll / Exists, Flatten, predicates inside queries and whole-query composition are decided by the "
                        "bounded oracle driver only", "== / != on two iterables (krrood compares them as sets) is excluded from the Comparator lemma"]


def tree_shape(vm, world, self_id, children):
    """Tree-shaped expression: the node's id lies in no child's subtree, children own disjoint ids."""
    ctx = vm.ctx
    from .eqlmodel import Ids
    i = z3.Const("ti", Ids)
    cs = [world.children[c] for c in children]
    for c in cs:
        ctx.assume(z3.Not(c.owns(vid(self_id))))
    for a in range(len(cs)):
        for b in range(a + 1, len(cs)):
            ctx.assume(z3.ForAll([i], z3.Not(z3.And(cs[a].owns(i), cs[b].owns(i))), patterns=[cs[a].owns(i)]), axiom=True)


def check_frame(vm, world, clause, self_id, children, prefix):
    """The node's output binds nothing outside its own subtree (carries the frame clause of the contract upwards)."""
    from .eqlmodel import Ids
    i = vm.ctx.fresh_const("frame_id", Ids)
    cs = [world.children[c] for c in children]
    outside = z3.And([i != vid(self_id)] + [z3.Not(c.owns(i)) for c in cs]) if self_id is not None else z3.And([z3.Not(c.owns(i)) for c in cs])
    vm.ctx.check(f"{prefix}::frame-binds-nothing-outside-its-own-subtree", z3.Implies(outside, bound(clause["b"], i) == bound(world.sigma0, i)))


def finish(prefix, unique, tau_hyps_of=None):
    def fin(ctxs):
        worlds = [c.world for c in ctxs if hasattr(c, "world")]
        clauses = [cl for w in worlds for cl in w.clauses]
        if not worlds:
            return []
        sigma0 = worlds[0].sigma0
        shared = [sigma0]
        th = (lambda t: tau_hyps_of(worlds[0], t)) if tau_hyps_of else None
        return finalize_cover(clauses, sigma0, shared, prefix, want_unique=unique, hyps=call_hypotheses(worlds, shared), tau_hyps=th)
    return fin


OPFN = z3.Function("operation", Vs, Vs, z3.BoolSort())


def comparator_harness(op_kind):
    prefix = "Comparator._evaluate__"

    def run(vm):
        ctx = vm.ctx
        world = EqlWorld(vm)
        left = world.child("left", 11, kind="operand")
        right = world.child("right", 12, kind="operand")
        rvar = vm.alloc(vm.loader.cls(SYM, "SymbolicExpression"), {"_id_": 21}, tag="a-variable-of-the-right-operand")
        rvar.fields["_var_"] = rvar
        vm.spec.attr_hooks[("SymbolicExpression", "_descendants_")] = lambda it, o: PyList([])
        vm.spec.attr_hooks[("SymbolicExpression", "_unique_variables_")] = lambda it, o: PyList(
            [it.alloc(world.HV, {"value": rvar, "id_": 21})] if o is right else [])
        world.known_ids |= {10, 21}
        if op_kind == "generic":
            op = Opaque("operation")
        else:
            op = vm.loader.external("operator", op_kind)
            v = z3.Const("v", Vs)
            ctx.assume(z3.ForAll([v], z3.Not(iterable(v)), patterns=[iterable(v)]), axiom=True)     # scalars (stated exclusion)
        vm.spec.opaque_hooks["call"] = lambda it, f, a, k: SBool(OPFN(a[0].t, a[1].t)) if f is op else (_ for _ in ()).throw(AssertionError(f))
        node = vm.alloc(vm.loader.cls(SYM, "Comparator"), {"left": left, "right": right, "operation": op, "_id_": 10, "_is_false_": False,
                                                          "_eval_parent_": None, "_conclusion_": None}, tag="Comparator")
        ctx.assume(z3.Not(bound(world.sigma0, vid(10))))       # tree-shaped expression: the node is met once per evaluation path
        tree_shape(vm, world, 10, ["left", "right"])
        L, R = world.children["left"], world.children["right"]
        h = lambda t: OPFN(L.val(t), R.val(t))
        world.mark()
        for res in vm.iterate(vm.call_method(node, "_evaluate__", Bnd(world.sigma0, world))):
            ctx.cover("yielded")
            cl = world.record(vm, res)
            check_cover_per_yield(vm, world, cl, h, prefix)
            check_snapshot(vm, node, res, prefix)
            t = ctx.fresh_const("tau", Ts)
            ctx.check(f"{prefix}::binds-its-own-id-to-the-truth-value",
                      z3.And(bound(cl["b"], vid(10)), z3.Implies(ext(cl["b"], t), get(cl["b"], vid(10)) == boolval(h(t)))))
            check_frame(vm, world, cl, 10, ["left", "right"], prefix)

    def tau_hyps(world, t):
        L, R = world.children["left"], world.children["right"]
        return [tval(t, vid(10)) == boolval(OPFN(L.val(t), R.val(t)))]      # total assignments are consistent on derived ids
    return Harness(f"cover-Comparator[{op_kind}]", run, spec=Spec(), covers=["yielded"], finalize=finish(prefix, True, tau_hyps),
                   timeout_ms=3000, retry_unknown=False, ematching_only=True)


def comparator_bound_harness():
    """a comparison that is met AGAIN under bindings that already hold its truth value (one node in two positions of a query, or
    shared with another query): it reports the bound truth value, whatever flag other evaluations left on the node since"""
    prefix = "Comparator._evaluate__[bound]"

    def run(vm):
        ctx = vm.ctx
        world = EqlWorld(vm)
        world.known_ids |= {10}
        node = vm.alloc(vm.loader.cls(SYM, "Comparator"), {"left": None, "right": None, "operation": Opaque("operation"), "_id_": 10,
                                                          "_is_false_": SBool(ctx.fresh_bool("flag_left_by_another_evaluation")), "_eval_parent_": None, "_conclusion_": None}, tag="Comparator")
        ctx.assume(bound(world.sigma0, vid(10)))
        n = 0
        for res in vm.iterate(vm.call_method(node, "_evaluate__", Bnd(world.sigma0, world))):
            n += 1
            b = res.fields["bindings"]
            from pyvc.ops import zbool
            ctx.check(f"{prefix}::reports-the-truth-value-bound-for-these-bindings", zbool(res.fields["is_false"]) == z3.Not(truthy(get(world.sigma0, vid(10)))))
            ctx.check(f"{prefix}::keeps-the-bindings", z3.BoolVal(isinstance(b, Bnd)) if not isinstance(b, Bnd) else b.t == world.sigma0)
            check_snapshot(vm, node, res, prefix)
        ctx.check(f"{prefix}::one-result", z3.BoolVal(n == 1))
    return Harness("cover-Comparator[bound]", run, spec=Spec(), timeout_ms=3000, retry_unknown=False, ematching_only=True)


DOM = z3.Function("in_domain", Vs, z3.BoolSort())


class DomainModel(Opaque):
    """Variable._domain_: a HashedIterable over the domain: every element of the domain exactly once (elements are
    pairwise non-identical objects; value-equal twins are distinct values)."""

    def __init__(self, world):
        super().__init__("model:domain")
        self.world = world
        self.mem = z3.Function("dom_member", Os, Vs, z3.BoolSort())
        self.occ = z3.Function("dom_occ", Vs, Os)

    def m_truth(self, vm):
        return True

    def axioms(self):
        o, o2 = z3.Consts("do do2", Os)
        v = z3.Const("dv", Vs)
        return [z3.ForAll([o, v], z3.Implies(self.mem(o, v), DOM(v)), patterns=[self.mem(o, v)]),
                z3.ForAll([v], z3.Implies(DOM(v), self.mem(self.occ(v), v)), patterns=[DOM(v)]),
                z3.ForAll([o, o2, v], z3.Implies(z3.And(self.mem(o, v), self.mem(o2, v)), o == o2), patterns=[z3.MultiPattern(self.mem(o, v), self.mem(o2, v))])]

    def m_iter(self, vm):
        ctx = vm.ctx
        for ax in self.axioms():
            ctx.assume(ax, axiom=True)

        def elem(vm_, idx):
            o = vm_.ctx.fresh_const("o_dom", Os)
            v = vm_.ctx.fresh_const("v_dom", Vs)
            vm_.ctx.assume(self.mem(o, v))
            return STerm(v)
        return SymStream("domain", elem, length=None, meta={"kind": "generator"})


from pyvc.values import SymStream


def condition_parent_kinds():
    """a condition sits below ANY logical operator (and_/or_ forms, not_, the rule selectors): one harness per concrete class,
    read off the real class hierarchy on every run"""
    from pyvc.framework import get_loader
    from pyvc.vm import VM
    from pyvc.ctx import Ctx, Stats
    loader = get_loader()
    vm = VM(loader, Ctx([], Stats()), Spec())
    LO = loader.cls(SYM, "LogicalOperator")
    QC = loader.cls(SYM, "QuantifiedConditional")
    names = []
    for modname in (SYM, "krrood.entity_query_language.conclusion_selector"):
        m = loader.module(modname)
        for c in m.classes.values():
            if vm.is_subclass(c, LO) is True and vm.is_subclass(c, QC) is not True and c is not LO and c.name not in ("LogicalBinaryOperator", "OR", "ConclusionSelector") and c.name not in names:
                names.append(c.name)
    return sorted(names)


def condition_parent(vm, name):
    mod = SYM if name in vm.loader.module(SYM).classes else "krrood.entity_query_language.conclusion_selector"
    return vm.alloc(vm.loader.cls(mod, name), {"_id_": 10}, tag="parent-" + name)


def descriptor_parent_kinds():
    """the whole condition of a (sub-)query sits directly below the query's object descriptor: one harness per concrete
    QueryObjectDescriptor class, read off the real hierarchy"""
    from pyvc.framework import get_loader
    from pyvc.vm import VM
    from pyvc.ctx import Ctx, Stats
    loader = get_loader()
    vm = VM(loader, Ctx([], Stats()), Spec())
    QOD = loader.cls(SYM, "QueryObjectDescriptor")
    return sorted(c.name for c in loader.module(SYM).classes.values() if vm.is_subclass(c, QOD) is True and c is not QOD)


def evaluating_parent(vm, role, below, node_holder):
    """the node that evaluates the node under test.  operand: a comparison; selected: an object descriptor whose condition is
    ANOTHER node (the node under test is a selected expression); condition: a logical operator, or an object descriptor whose
    `_child_` is the node under test (node_holder is filled by the caller once the node exists).  The query may itself be
    nested in another query: nothing about the outer tree is given."""
    if role == "operand":
        return vm.alloc(vm.loader.cls(SYM, "Comparator"), {"_id_": 10}, tag="parent")
    if role == "selected":
        other = vm.alloc(vm.loader.cls(SYM, "SymbolicExpression"), {"_id_": 2}, tag="the-condition")
        return vm.alloc(vm.loader.cls(SYM, below), {"_id_": 10, "_child_": other}, tag="parent-" + below)
    if below in descriptor_parent_kinds():
        par = vm.alloc(vm.loader.cls(SYM, below), {"_id_": 10, "_child_": None}, tag="parent-" + below)
        node_holder.append(par)
        return par
    return condition_parent(vm, below)


def variable_harness(role, below="AND"):
    given_role, role = role, ("operand" if role == "selected" else role)      # a selected expression is a value, like an operand
    prefix = f"Variable._evaluate__[{given_role}]"

    def run(vm):
        ctx = vm.ctx
        world = EqlWorld(vm)
        world.known_ids.add(20)
        dom = DomainModel(world)
        holder = []
        parent = evaluating_parent(vm, given_role, below, holder)
        other_root = vm.alloc(vm.loader.cls(SYM, "SymbolicExpression"), {"_id_": 1}, tag="conditions-root")
        node = vm.alloc(vm.loader.cls(SYM, "Variable"), {"_id_": 20, "_domain_": dom, "_is_false_": False, "_eval_parent_": None,
                                                        "_conditions_root_": other_root, "_should_be_instantiated_": False}, tag="Variable")
        for par in holder:
            par.fields["_child_"] = node
        i = vid(20)
        if role == "operand":
            h = lambda t: z3.BoolVal(True)
        else:
            h = lambda t: truthy(tval(t, i))        # a variable used as a condition is its truth value
        world.mark()
        for res in vm.iterate(vm.call_method(node, "_evaluate__", Bnd(world.sigma0, world), parent=parent)):
            ctx.cover("yielded")
            cl = world.record(vm, res)
            if role == "operand" or True:
                bound_before = bound(world.sigma0, i)
                # domain enumeration is only a statement about operands / generators: in condition role the bound branch matters
                hh = h if role == "operand" else (lambda t: z3.If(bound_before, truthy(tval(t, i)), z3.BoolVal(True)))
                check_cover_per_yield(vm, world, cl, hh, prefix)
                if role != "operand" and vm.ctx.branch(bound_before):
                    check_snapshot(vm, node, res, prefix)          # (an unbound variable enumerates its domain: every result is true)
            ctx.check(f"{prefix}::binds-its-id-to-a-domain-element-or-keeps-the-given-binding",
                      z3.And(bound(cl["b"], i), z3.Or(bound(world.sigma0, i), DOM(get(cl["b"], i)))))

    def tau_hyps(world, t):
        return [z3.Or(bound(world.sigma0, vid(20)), DOM(tval(t, vid(20))))]       # totals assign every variable an element of its domain
    return Harness(f"value-Variable[{given_role}]" if given_role == "operand" else f"value-Variable[{given_role}<{below}]", run, spec=Spec(), covers=["yielded"], finalize=finish(prefix, True, tau_hyps),
                   timeout_ms=3000, retry_unknown=False, ematching_only=True)


def attribute_harness(role, below="Not", kind="Attribute"):
    """DomainMapping._evaluate__ with the real _apply_mapping_ of Attribute (x.a), Index (x[k]) or Call (x(*args)): the node's
    value is that function of the child's value, in operand and in condition role"""
    given_role, role = role, ("operand" if role == "selected" else role)
    prefix = f"{kind}._evaluate__[{given_role}]"

    def run(vm):
        ctx = vm.ctx
        world = EqlWorld(vm)
        child = world.child("child", 21, kind="operand")
        world.known_ids |= {22}
        fa = world.attr_fn("a")
        holder = []
        parent = evaluating_parent(vm, given_role, below, holder)
        other_root = vm.alloc(vm.loader.cls(SYM, "SymbolicExpression"), {"_id_": 1}, tag="conditions-root")
        extra = {"Attribute": {"_attr_name_": "a", "_owner_class_": None}, "Index": {"_key_": 3},
                 "Call": {"_args_": (5,), "_kwargs_": make_dict([])}, "Call0": {"_args_": (), "_kwargs_": make_dict([])}}[kind]
        node = vm.alloc(vm.loader.cls(SYM, kind.rstrip("0")), {"_child_": child, "_id_": 22, "_is_false_": False,
                                                               "_eval_parent_": None, "_conditions_root_": other_root, **extra}, tag=kind)
        for par in holder:
            par.fields["_child_"] = node
        # x[3] / x(5) / x() of a value are (uninterpreted) functions of that value, like x.a
        vm.spec.opaque_hooks["getitem"] = lambda it, v, k: STerm(fa(v.t)) if isinstance(v, STerm) and k == 3 else it.raise_("KeyError", k)
        vm.spec.opaque_hooks["sterm_call"] = lambda it, v, a, k: STerm(fa(v.t)) if (list(a) == list(extra.get("_args_", ("no",))) and not k) else it.raise_("TypeError", "arguments")
        if role == "operand":
            # whatever flag another position of the same node left behind (a node may be used as a condition AND as an operand)
            node.fields["_is_false_"] = SBool(ctx.fresh_bool("flag_left_by_another_position"))
        ctx.assume(z3.Not(bound(world.sigma0, vid(22))))
        tree_shape(vm, world, 22, ["child"])
        C = world.children["child"]
        val = lambda t: fa(C.val(t))
        h = (lambda t: z3.BoolVal(True)) if role == "operand" else (lambda t: truthy(val(t)))
        world.mark()
        for res in vm.iterate(vm.call_method(node, "_evaluate__", Bnd(world.sigma0, world), parent=parent)):
            ctx.cover("yielded")
            cl = world.record(vm, res)
            check_cover_per_yield(vm, world, cl, h, prefix)
            if role != "operand":
                check_snapshot(vm, node, res, prefix)
            t = ctx.fresh_const("tau", Ts)
            ctx.check(f"{prefix}::binds-its-id-to-the-{'attribute' if kind == 'Attribute' else 'item' if kind == 'Index' else 'result'}-of-the-child-value",
                      z3.And(bound(cl["b"], vid(22)), z3.Implies(ext(cl["b"], t), get(cl["b"], vid(22)) == val(t))))
            check_frame(vm, world, cl, 22, ["child"], prefix)

    def tau_hyps(world, t):
        return [tval(t, vid(22)) == world.attr_fn("a")(world.children["child"].val(t))]
    name = f"value-{kind}[{given_role}]" if given_role == "operand" else f"value-{kind}[{given_role}<{below}]"
    return Harness(name, run, spec=Spec(), covers=["yielded"], finalize=finish(prefix, True, tau_hyps),
                   timeout_ms=3000, retry_unknown=False, ematching_only=True)


def frame_domain_mapping():
    """In operand role _build_operation_result_and_update_truth_value_ reports a true result and does not touch the node's truth flag."""
    def run(vm):
        ctx = vm.ctx
        world = EqlWorld(vm)
        for start in (False, True):
            parent = vm.alloc(vm.loader.cls(SYM, "Comparator"), {"_id_": 10}, tag="parent")
            other_root = vm.alloc(vm.loader.cls(SYM, "SymbolicExpression"), {"_id_": 1}, tag="root")
            node = vm.alloc(vm.loader.cls(SYM, "Attribute"), {"_id_": 22, "_is_false_": start, "_eval_parent_": parent, "_conditions_root_": other_root}, tag="Attribute")
            b = ctx.fresh_const("b", Bs)
            cr = vm.alloc(world.OR, {"bindings": Bnd(b, world), "is_false": False, "operand": None})
            r = vm.call_method(node, "_build_operation_result_and_update_truth_value_", cr, world.hashed(vm, ctx.fresh_const("v", Vs)))
            # as an operand a value is a value: the result is never reported false, whatever flag another position of the same node
            # left behind, and that flag (the condition position's) is left alone
            ctx.check("DomainMapping._build_operation_result_and_update_truth_value_::operand-role-reports-true-and-leaves-the-truth-flag-alone",
                      z3.BoolVal(node.fields["_is_false_"] is start and r.fields["is_false"] is False), detail=f"flag before {start}: result {r.fields['is_false']}, flag after {node.fields['_is_false_']}")
    return Harness("frame-DomainMapping", run, spec=Spec(), ematching_only=True)


def descriptor_harness(n_selected):
    prefix = "QueryObjectDescriptor._evaluate__"

    def run(vm):
        ctx = vm.ctx
        world = EqlWorld(vm)
        cond = world.child("cond", 11)
        cond.fields["_conclusion_"] = PySet()
        sel = [world.child(f"sel{k}", 31 + k, kind="operand") for k in range(n_selected)]
        world.known_ids |= {30}
        node = vm.alloc(vm.loader.cls(SYM, "SetOf"), {"_child_": cond, "selected_variables": PyList(sel), "_id_": 30, "_is_false_": False,
                                                     "_eval_parent_": None, "_conclusion_": PySet()}, tag="SetOf")
        C = world.children["cond"]
        h = C.h
        for res in vm.iterate(vm.call_method(node, "_evaluate__", Bnd(world.sigma0, world))):
            ctx.cover("yielded")
            cl = world.record(vm, res)
            check_cover_per_yield(vm, world, cl, h, prefix)       # every output is a TRUE result whose extensions satisfy the condition
            ctx.check(f"{prefix}::only-true-results-leave-the-query", z3.Not(flag_term(cl["flag"])))
            t = ctx.fresh_const("tau", Ts)
            for k in range(n_selected):
                S = world.children[f"sel{k}"]
                ctx.check(f"{prefix}::every-row-is-one-consistent-assignment-of-the-selected-expressions",
                          z3.And(bound(cl["b"], vid(31 + k)), z3.Implies(ext(cl["b"], t), get(cl["b"], vid(31 + k)) == S.val(t))))

    def tau_hyps(world, t):
        return [world.children["cond"].h(t)]      # completeness: every assignment that satisfies the condition is returned
    return Harness(f"query-descriptor[{n_selected}]", run, spec=Spec(), covers=["yielded"], finalize=finish(prefix, True, tau_hyps),
                   timeout_ms=3000, retry_unknown=False, ematching_only=True)


def descriptor_no_condition():
    prefix = "QueryObjectDescriptor._evaluate__[no-condition]"

    def run(vm):
        ctx = vm.ctx
        world = EqlWorld(vm)
        sel = [world.child("sel0", 31, kind="operand")]
        node = vm.alloc(vm.loader.cls(SYM, "SetOf"), {"_child_": None, "selected_variables": PyList(sel), "_id_": 30, "_is_false_": False,
                                                     "_eval_parent_": None, "_conclusion_": PySet()}, tag="SetOf")
        for res in vm.iterate(vm.call_method(node, "_evaluate__", Bnd(world.sigma0, world))):
            ctx.cover("yielded")
            cl = world.record(vm, res)
            check_cover_per_yield(vm, world, cl, lambda t: z3.BoolVal(True), prefix)
    return Harness("query-descriptor[no-condition]", run, spec=Spec(), covers=["yielded"], finalize=finish(prefix, True), timeout_ms=3000, retry_unknown=False, ematching_only=True)


def process_result_harness():
    def run(vm):
        ctx = vm.ctx
        world = EqlWorld(vm)
        world.known_ids |= {31, 32, 33, 40}
        s1 = vm.alloc(vm.loader.cls(SYM, "SymbolicExpression"), {"_id_": 31}, tag="selected-1")
        s2 = vm.alloc(vm.loader.cls(SYM, "SymbolicExpression"), {"_id_": 32}, tag="selected-2")
        b = ctx.fresh_const("b", Bs)
        ctx.assume(z3.And(bound(b, vid(31)), bound(b, vid(32))))
        res = vm.alloc(world.OR, {"bindings": Bnd(b, world), "is_false": False, "operand": None})
        # entity
        ent = vm.alloc(vm.loader.cls(SYM, "Entity"), {"selected_variables": PyList([s1])}, tag="Entity")
        q = vm.alloc(vm.loader.cls(SYM, "An"), {"_child_": ent, "_id_": 40}, tag="An")
        r = vm.call_method(q, "_process_result_", res)
        ctx.check("ResultQuantifier._process_result_::entity-returns-the-value-of-the-selected-variable",
                  z3.BoolVal(isinstance(r, STerm)) if not isinstance(r, STerm) else r.t == get(b, vid(31)))
        # set_of
        so = vm.alloc(vm.loader.cls(SYM, "SetOf"), {"selected_variables": PyList([s1, s2])}, tag="SetOf")
        q2 = vm.alloc(vm.loader.cls(SYM, "An"), {"_child_": so, "_id_": 41}, tag="An")
        vm.loader.cls(SYM, "SymbolicExpression").class_attr_vals["_id_expression_map_"] = __import__("pyvc.ops", fromlist=["make_dict"]).make_dict([(31, s1), (32, s2), (33, None)])
        made = []
        vm.spec.stubs["UnificationDict.__call__"] = lambda it, a, k: (made.append(a[1]), "ROW")[1]
        r2 = vm.call_method(q2, "_process_result_", res)
        ok = r2 == "ROW" and len(made) == 1
        if ok:
            from pyvc.ops import dict_items
            items = dict_items(made[0])
            ok = {id(k) for k, _ in items} == {id(s1), id(s2)}
            for k, v in items:
                want = get(b, vid(31 if k is s1 else 32))
                ctx.check("ResultQuantifier._process_result_::set_of-row-maps-each-selected-expression-to-its-value", v.fields["value"].t == want)
        ctx.check("ResultQuantifier._process_result_::set_of-row-has-exactly-the-selected-expressions", z3.BoolVal(bool(ok)), detail=repr(made))
    return Harness("process-result", run, spec=Spec(), ematching_only=True, timeout_ms=3000, retry_unknown=False)


def optimize_or_harness():
    """or_ picks the else-if form exactly when both sides range over the same domain variables (literals and predicate
    calls are determined by those)."""
    def run(vm):
        ctx = vm.ctx
        HI = vm.loader.cls(HD, "HashedIterable")
        HV = vm.loader.cls(HD, "HashedValue")
        Var = vm.loader.cls(SYM, "Variable")
        Lit = vm.loader.cls(SYM, "Literal")
        x = vm.alloc(Var, {"_id_": 1, "_predicate_type_": None}, tag="x")
        y = vm.alloc(Var, {"_id_": 2, "_predicate_type_": None}, tag="y")
        lit = vm.alloc(Lit, {"_id_": 3, "_predicate_type_": None}, tag="literal")
        pred = vm.alloc(Var, {"_id_": 4, "_predicate_type_": "DecoratedMethod"}, tag="predicate-call")
        made = []
        vm.spec.stubs["ElseIf.__call__"] = lambda it, a, k: (made.append("ElseIf"), "ElseIf")[1]
        vm.spec.stubs["Union.__call__"] = lambda it, a, k: (made.append("Union"), "Union")[1]
        opt = vm.module_global(SYM, "optimize_or")

        def node(vars_):
            hi = vm.alloc(HI, {"iterable": PyList([]), "values": __import__("pyvc.ops", fromlist=["make_dict"]).make_dict(
                [(v.fields["_id_"], vm.alloc(HV, {"value": v, "id_": v.fields["_id_"]})) for v in vars_])})
            return vm.alloc(vm.loader.cls(SYM, "SymbolicExpression"), {"_unique_variables_": hi}, tag="side")
        cases = [([x], [x], True), ([x, y], [y, x], True), ([x], [y], False), ([x], [x, y], False), ([x, lit], [x], True), ([x], [lit, x], True),
                 ([x, y, pred], [x, y], True), ([x, pred], [x, y], False), ([x, y], [pred, y, x, lit], True), ([], [x], False), ([lit], [pred], True)]
        for lv, rv, same in cases:
            r = vm.call(opt, [node(lv), node(rv)], {})
            ctx.check("optimize_or::else-if-iff-both-sides-range-over-the-same-domain-variables", z3.BoolVal(r == ("ElseIf" if same else "Union")),
                      detail=f"{[v.tag for v in lv]} | {[v.tag for v in rv]} -> {r}")
    return Harness("optimize_or", run, spec=Spec())


def invert_harness():
    """not_(e) denotes the negation of e for arbitrary (e.g. partially ordered) operand values: conditions are wrapped in Not,
    quantified conditionals become their dual over the inverted condition, queries cannot be negated."""
    def run(vm):
        ctx = vm.ctx
        made = []
        # a rewrite of _invert_ may build other nodes with the real constructors: display nodes / id generator are abstracted
        from .C08 import Forest
        from pyvc.ops import make_dict
        forest = Forest(vm)
        SE_ = vm.loader.cls(SYM, "SymbolicExpression")
        SE_.class_attr_vals["_symbolic_expression_stack_"] = PyList([])
        SE_.class_attr_vals["_id_expression_map_"] = make_dict([])

        def ctor(name):
            def f(it, a, k):
                o = it.alloc(vm.loader.cls(SYM, name), {}, tag=f"built-{name}")
                made.append((name, a[1:], k, o))
                return o
            return f
        for n in ("Not", "ForAll", "Exists"):
            vm.spec.stubs[f"{n}.__call__"] = ctor(n)
        for cname in ("Comparator", "AND", "Union", "ElseIf", "Attribute", "Variable", "Literal", "Index", "Call", "Flatten"):
            node = vm.alloc(vm.loader.cls(SYM, cname), {"_id_": 5, "operation": Opaque("op")}, tag=cname)
            del made[:]
            r = vm.call_method(node, "_invert_")
            ok = len(made) == 1 and made[0][0] == "Not" and made[0][1] == [node] and r is made[0][3]
            ctx.check("_invert_::a-condition-is-negated-by-wrapping-it-in-Not", z3.BoolVal(ok), detail=f"{cname}: {made}")
        # ... for every comparison operation the class knows by name (==, !=, <, <=, >, >=) and the membership tests: on partially
        # ordered values (sets, NaN) not (a <= b) is not (a > b), so no operation may be swapped for a "complement"
        Cmp = vm.loader.cls(SYM, "Comparator")
        from pyvc.ops import dict_items
        ops_ = [k_ for k_, _ in dict_items(vm._getattr(Cmp, "operation_name_map"))]
        ops_ += [vm.loader.external("operator", "contains"), vm.module_global(SYM, "not_contains")]
        ctx.check("_invert_::the-comparison-operations-are-enumerated", z3.BoolVal(len(ops_) >= 8), detail=repr(ops_))
        for op_ in ops_:
            node = vm.alloc(Cmp, {"_id_": 5, "operation": op_, "left": forest.node("SymbolicExpression", "left-operand"), "right": forest.node("SymbolicExpression", "right-operand")}, tag="Comparator")
            del made[:]
            r = vm.call_method(node, "_invert_")
            ok = len(made) == 1 and made[0][0] == "Not" and made[0][1] == [node] and r is made[0][3]
            ctx.check("_invert_::a-comparison-is-negated-by-wrapping-it-in-Not-whatever-its-operation", z3.BoolVal(ok), detail=f"{op_!r}: {made}")
        for cname, dual in (("ForAll", "Exists"), ("Exists", "ForAll")):
            v = vm.alloc(vm.loader.cls(SYM, "Variable"), {"_id_": 6}, tag="quantified-variable")
            c = vm.alloc(vm.loader.cls(SYM, "Comparator"), {"_id_": 7, "operation": vm.loader.external("operator", "lt")}, tag="condition")
            node = vm.alloc(vm.loader.cls(SYM, cname), {"left": v, "right": c, "_id_": 8}, tag=cname)
            del made[:]
            r = vm.call_method(node, "_invert_")
            ok = (len(made) == 2 and made[0][0] == "Not" and made[0][1] == [c] and made[1][0] == dual and made[1][1] == [v, made[0][3]] and r is made[1][3])
            ctx.check("_invert_::a-quantified-conditional-becomes-its-dual-over-the-inverted-condition", z3.BoolVal(ok), detail=f"{cname}: {made}")
        for cname in ("An", "The", "Entity", "SetOf"):
            node = vm.alloc(vm.loader.cls(SYM, cname), {"_id_": 9}, tag=cname)
            try:
                vm.call_method(node, "_invert_")
                ctx.fail("_invert_::queries-cannot-be-negated", detail=cname)
            except PyRaise as pr:
                ctx.check("_invert_::queries-cannot-be-negated", z3.BoolVal(getattr(pr.exc.cls, "name", "") == "UnsupportedNegation"), detail=cname)
    return Harness("invert", run, spec=Spec())


def hashed_value_harness():
    """Domain elements are told apart by identity: HashedValue.id_ is the value's own `_id_` if it has one, else id(value) -- for
    EVERY kind of value (two ints with colliding hashes, value-equal 1 / True / 1.0, equal strings held twice are different
    elements of a domain).  An explicit id_ is kept, a nested HashedValue is unwrapped."""
    def run(vm):
        ctx = vm.ctx
        HV = vm.loader.cls(HD, "HashedValue")
        v = Opaque("domain-element")
        kind = ctx.choice(3, "kind-of-value")       # 0: an arbitrary object, 1: an instance of whatever builtin type is asked for, 2: has _id_
        ctx.inputs["kind"] = ["object", "builtin scalar", "has _id_"][kind]
        vm.spec.opaque_hooks["isinstance"] = lambda it, o, c: (kind == 1 and c is not HV and not (isinstance(c, tuple) and HV in c))
        vm.spec.opaque_hooks["hasattr"] = lambda it, o, name: (kind == 2 and name == "_id_")
        vm.spec.opaque_hooks["getattr"] = lambda it, o, name: 4711 if (kind == 2 and name == "_id_") else it.raise_("AttributeError", name)
        vm.spec.opaque_hooks["id"] = lambda it, o: 1000000 + o.oid
        hv = vm.call(HV, [v], {})
        want = 4711 if kind == 2 else 1000000 + v.oid
        got = hv.fields.get("id_")
        ctx.check("HashedValue.__post_init__::the-identifier-is-the-own-_id_-or-the-identity-of-the-value-never-derived-from-its-content",
                  z3.BoolVal(isinstance(got, int) and not isinstance(got, bool) and got == want and hv.fields.get("value") is v), detail=f"{ctx.inputs['kind']}: id_={got!r}, expected {want}")
        hv2 = vm.call(HV, [v], {"id_": 5})
        ctx.check("HashedValue.__post_init__::an-explicit-identifier-is-kept", z3.BoolVal(hv2.fields.get("id_") == 5 and hv2.fields.get("value") is v))
        hv3 = vm.call(HV, [hv], {})
        ctx.check("HashedValue.__post_init__::a-wrapped-value-is-unwrapped-with-its-identifier", z3.BoolVal(hv3.fields.get("id_") == want and hv3.fields.get("value") is v), detail=repr(hv3.fields))
        other = vm.call(HV, [Opaque("another-element")], {})
        ctx.check("HashedValue.__eq__::values-are-equal-iff-their-identifiers-are", z3.BoolVal(vm.truth(vm.equals(hv, hv3)) is True and (kind == 2 or vm.truth(vm.equals(hv, other)) is False)))
    return Harness("hashed-value-identity", run, spec=Spec())


def _quantifier_pass_through():
    """a nested an(...) / the(...) is a node of the query like any other: it reports every result of its description once and
    passes all its bindings on (C09's counting-loop contract on the same real ResultQuantifier._evaluate__)"""
    from . import C09
    return [h for h in C09.harnesses() if h.name in ("an-evaluate[none+var]", "an-evaluate[none]")]


_stage_a = harnesses


def harnesses():
    nested = [binary_harness(c, u, below=k) for k in condition_parent_kinds() for c, u in (("AND", True), ("ElseIf", True), ("Union", False))] + \
        [not_harness(below=k) for k in condition_parent_kinds()]
    return _stage_a()[:-1] + nested + [comparator_harness("generic"), comparator_harness("eq"), comparator_bound_harness(), variable_harness("operand"), attribute_harness("operand"), attribute_harness("operand", kind="Index"), attribute_harness("operand", kind="Call"),
                              attribute_harness("operand", kind="Call0"), attribute_harness("condition", "AND", kind="Index"), attribute_harness("condition", "Not", kind="Call")] + \
        [variable_harness("condition", k) for k in condition_parent_kinds() + descriptor_parent_kinds()] + [attribute_harness("condition", k) for k in condition_parent_kinds() + descriptor_parent_kinds()] + \
        [variable_harness("selected", k) for k in descriptor_parent_kinds()] + [attribute_harness("selected", k) for k in descriptor_parent_kinds()] + \
        [hashed_value_harness(), frame_domain_mapping(),
                              descriptor_harness(1), descriptor_harness(2), descriptor_no_condition(), process_result_harness(),
                              optimize_or_harness(), invert_harness()] + _quantifier_pass_through() + [h_canary()]
